//! C15 — the loaded network is exactly the one described by the edge/vertex files.
//!
//! The harness WRITES edge and vertex CSV files (plain and gzip; permuted columns, extra columns,
//! padding, quoting, CRLF, missing final newline, trailing blank lines), loads them with the real
//! `Graph::from_files` and prints every accessor for every edge and vertex (and one id beyond each
//! range).  The Lean model (`Compass.Model.Graph`) builds the same graph from the same records.
//! File decoding (csv, gzip, line counting) is not modelled: the case line carries the decoded
//! records, which rows do not decode, and the number of text lines.
//!
//! Oracle (independent of the model): adjacency, endpoints, lengths and coordinates recomputed from the
//! raw rows *by id*; forward and reverse views describe the same edge multiset; gzip/plain parity;
//! explicit/scanned count parity; per-edge tables read with the real readers are aligned by row.  A load
//! that SUCCEEDS must describe the files whatever they are (malformed files may be rejected, never
//! loaded wrongly): the keys `graph_loader/edge-id-not-row-accepted`, `…/vertex-id-not-row-accepted`,
//! `edge_loader/missing-vertex-accepted`, `graph_loader/scan-decides-gzip-by-extension` and
//! `…/scan-misses-cr-line-endings` belong to repaired defects (corpus W1-W7) and fire again on a
//! regression, and so does `graph_loader/endpoint-beyond-vertex-rows-accepted` (W8, W9; /repo c9969cf).
use crate::ctx::{fbits, Ctx};
use crate::rng::Rng;
use routee_compass_core::algorithm::search::direction::Direction;
use routee_compass_core::model::access::default::turn_delays::edge_heading::EdgeHeading;
use routee_compass_core::model::network::{Edge, EdgeId, Graph, NetworkError, Vertex, VertexId};
use routee_compass_core::model::traversal::default::speed_traversal_engine::SpeedTraversalEngine;
use routee_compass_core::model::unit::as_f64::AsF64;
use crate::jsonproto::{enc, hex};
use routee_compass::app::compass::config::compass_configuration_error::CompassConfigurationError;
use routee_compass::app::compass::config::graph_builder::DefaultGraphBuilder;
use routee_compass_core::model::unit::{Grade, Speed, SpeedUnit};
use routee_compass_core::util::fs::{read_decoders, read_utils};
use std::io::Write;
use std::path::{Path, PathBuf};

// ------------------------------------------------------------------------------------------------
// records and file encodings

#[derive(Clone, Debug)]
struct ERow {
    id: usize,
    src: usize,
    dst: usize,
    dist: f64,
    /// when set, this text replaces one named cell (the row does not decode)
    bad: Option<(usize, String)>,
    /// the row has one field too few
    short: bool,
    /// another spelling of one cell that decodes to the same value ("+3", "007", "1e999" for inf)
    alt: Option<(usize, String)>,
}

#[derive(Clone, Debug)]
struct VRow {
    id: usize,
    x: f32,
    y: f32,
    bad: Option<(usize, String)>,
    short: bool,
    alt: Option<(usize, String)>,
}

#[derive(Clone, Debug)]
struct Enc {
    gz: bool,
    crlf: bool,
    /// classic-Mac line endings: a lone carriage return ends a record (the csv reader accepts it,
    /// `BufRead::lines` does not see a line end)
    cr_only: bool,
    final_newline: bool,
    trailing_blank: usize,
    /// order of the columns: indices < n_named are the named columns, the others are extras
    order: Vec<usize>,
    n_extra: usize,
    pad: bool,
    quote: bool,
    /// named column left out of the file (header and rows)
    drop_col: Option<usize>,
    /// the file name says the opposite of the content: `.gz` on plain text, or no `.gz` on gzip data
    /// (`read_utils` looks at the magic bytes, `graph_loader::get_n_*` at the extension)
    misnamed: bool,
    /// the file is not written at all
    absent: bool,
    /// the file is written with no content at all (not even a header)
    empty: bool,
    /// the text starts with a UTF-8 byte order mark
    bom: bool,
    /// number of gzip members the text is spread over (RFC 1952 allows several; 1 is the usual file)
    members: usize,
    /// the gzip stream is cut short
    cut: Option<Cut>,
    /// the file name is not valid UTF-8
    nonutf8_name: bool,
    /// the whole text of the file, written as it is (the rows of the case are then what the csv reader
    /// makes of it: the case supplies them)
    raw: Option<String>,
}

/// where a gzip file is cut short
#[derive(Clone, Copy, Debug, PartialEq)]
enum Cut {
    /// keep this many bytes (2 ..= 9) of the ten-byte gzip header
    Header(usize),
    /// keep the header and this many bytes (0 ..= 10) of the first deflate block
    Early(usize),
    /// keep this many thousandths of the stream
    Frac(usize),
    /// drop this many bytes (1 ..= 8) of the CRC / length trailer
    Trailer(usize),
    /// keep the first member and ONE byte of the second (a cut exactly at the end of a member would
    /// leave a valid, shorter gzip file; with a single member this is the last byte dropped)
    AfterFirstMember,
}

impl Enc {
    fn plain(n_named: usize) -> Enc {
        Enc {
            gz: false,
            crlf: false,
            cr_only: false,
            final_newline: true,
            trailing_blank: 0,
            order: (0..n_named).collect(),
            n_extra: 0,
            pad: false,
            quote: false,
            drop_col: None,
            misnamed: false,
            absent: false,
            empty: false,
            bom: false,
            members: 1,
            cut: None,
            nonutf8_name: false,
            raw: None,
        }
    }
    fn random(rng: &mut Rng, n_named: usize, permute: bool) -> Enc {
        let n_extra = if rng.chance(1, 2) { rng.below(4) } else { 0 };
        let mut order: Vec<usize> = (0..n_named + n_extra).collect();
        if permute && rng.chance(2, 3) {
            rng.shuffle(&mut order);
        }
        Enc {
            gz: rng.chance(1, 2),
            crlf: rng.chance(1, 6),
            cr_only: false,
            final_newline: !rng.chance(1, 6),
            trailing_blank: if rng.chance(1, 10) { 1 + rng.below(2) } else { 0 },
            order,
            n_extra,
            pad: rng.chance(1, 5),
            quote: rng.chance(1, 5),
            drop_col: None,
            misnamed: false,
            absent: false,
            empty: false,
            bom: rng.chance(1, 8),
            members: if rng.chance(1, 5) { 2 + rng.below(3) } else { 1 },
            cut: None,
            nonutf8_name: false,
            raw: None,
        }
    }
    fn descr(&self) -> String {
        format!(
            "{}{}{}b{}o{}x{}{}{}{}{}{}{}{}{}{}{}",
            if self.gz { "gz" } else { "pl" },
            if self.cr_only { "R" } else if self.crlf { "C" } else { "L" },
            if self.final_newline { "N" } else { "n" },
            self.trailing_blank,
            self.order.iter().map(|c| c.to_string()).collect::<Vec<_>>().join(""),
            self.n_extra,
            if self.pad { "P" } else { "" },
            if self.quote { "Q" } else { "" },
            match self.drop_col {
                Some(c) => format!("D{}", c),
                None => String::new(),
            },
            if self.absent { "A" } else { "" },
            if self.empty { "E" } else { "" },
            if self.misnamed { "M" } else { "" },
            if self.bom { "B" } else { "" },
            if self.members > 1 { format!("m{}", self.members) } else { String::new() },
            match self.cut {
                Some(Cut::Header(k)) => format!("cH{}", k),
                Some(Cut::Early(k)) => format!("cE{}", k),
                Some(Cut::Frac(k)) => format!("cF{}", k),
                Some(Cut::Trailer(k)) => format!("cT{}", k),
                Some(Cut::AfterFirstMember) => "cM".to_string(),
                None => String::new(),
            },
            if self.nonutf8_name { "U" } else { "" },
        ) + if self.raw.is_some() { "W" } else { "" }
    }
}

const E_COLS: [&str; 4] = ["edge_id", "src_vertex_id", "dst_vertex_id", "distance"];
const V_COLS: [&str; 3] = ["vertex_id", "x", "y"];
const EXTRA_NAMES: [&str; 4] = ["name", "z", "road_class", "comment"];

fn extra_cell(rng: &mut Rng) -> String {
    match rng.below(7) {
        6 => "\"two\nlines\"".to_string(),
        0 => String::new(),
        1 => format!("{}", rng.below(1000)),
        2 => format!("{:.3}", rng.uniform(-500.0, 500.0)),
        3 => "\"a, quoted, cell\"".to_string(),
        4 => "residential".to_string(),
        _ => "\"say \"\"hi\"\"\"".to_string(),
    }
}

/// text of a csv file; `rows[i][c]` is the text of named column `c`
fn render(rng: &mut Rng, cols: &[&str], rows: &[(Vec<String>, bool)], enc: &Enc) -> String {
    if enc.empty {
        return String::new();
    }
    if let Some(raw) = &enc.raw {
        return raw.clone();
    }
    let nl = if enc.cr_only { "\r" } else if enc.crlf { "\r\n" } else { "\n" };
    let n_named = cols.len();
    let mut lines: Vec<String> = vec![];
    let keep = |c: usize| -> bool { !(c < n_named && Some(c) == enc.drop_col) };
    let header: Vec<String> = enc
        .order
        .iter()
        .filter(|c| keep(**c))
        .map(|&c| if c < n_named { cols[c].to_string() } else { EXTRA_NAMES[(c - n_named) % 4].to_string() })
        .collect();
    lines.push(header.join(","));
    for (cells, short) in rows {
        let mut out: Vec<String> = vec![];
        for &c in enc.order.iter().filter(|c| keep(**c)) {
            let mut t = if c < n_named { cells[c].clone() } else { extra_cell(rng) };
            if c < n_named {
                if enc.quote && rng.chance(1, 2) {
                    t = format!("\"{}\"", t);
                } else if enc.pad && rng.chance(1, 2) {
                    t = format!("  {} ", t);
                }
            }
            out.push(t);
        }
        if *short {
            out.pop();
        }
        lines.push(out.join(","));
    }
    let mut text = String::new();
    if enc.bom {
        text.push('\u{feff}');
    }
    text.push_str(&lines.join(nl));
    if enc.final_newline {
        text.push_str(nl);
        for _ in 0..enc.trailing_blank {
            text.push_str(nl);
        }
    }
    text
}

/// what `BufRead::lines().count()` sees, computed from the text alone
fn text_lines(text: &str) -> usize {
    if text.is_empty() {
        return 0;
    }
    let n = text.split('\n').count();
    if text.ends_with('\n') {
        n - 1
    } else {
        n
    }
}

fn gz_member(bytes: &[u8]) -> Vec<u8> {
    let mut enc = flate2::write::GzEncoder::new(Vec::new(), flate2::Compression::default());
    enc.write_all(bytes).expect("gz write");
    enc.finish().expect("gz finish")
}

/// the bytes of a gzip file holding `text` in `members` members (split at arbitrary byte positions,
/// also inside a line), cut short as asked
fn gz_bytes(text: &str, members: usize, cut: Option<Cut>) -> Vec<u8> {
    gz_bytes_raw(text.as_bytes(), members, cut)
}

fn gz_bytes_raw(raw: &[u8], members: usize, cut: Option<Cut>) -> Vec<u8> {
    let m = members.max(1);
    let mut out: Vec<u8> = vec![];
    let mut ends: Vec<usize> = vec![];
    for k in 0..m {
        let a = raw.len() * k / m;
        let b = raw.len() * (k + 1) / m;
        out.extend(gz_member(&raw[a..b]));
        ends.push(out.len());
    }
    let mut keep = match cut {
        None => out.len(),
        Some(Cut::Header(k)) => k.min(out.len()),
        Some(Cut::Early(k)) => (10 + k).min(out.len() - 1),
        Some(Cut::Frac(k)) => (out.len() * k / 1000).clamp(2, out.len() - 1),
        Some(Cut::Trailer(k)) => out.len() - k.clamp(1, 8),
        Some(Cut::AfterFirstMember) => ends[0].min(out.len() - 1),
    };
    // a cut that lands exactly on the end of a member leaves a VALID (shorter) gzip file, not a file cut
    // short: keep one byte of the next member so that the file really is unreadable
    if cut.is_some() && keep < out.len() && ends.contains(&keep) {
        keep += 1;
    }
    out.truncate(keep);
    out
}

fn write_bytes(path: &Path, bytes: &[u8]) {
    let mut f = std::fs::File::create(path).expect("create scratch file");
    f.write_all(bytes).expect("write");
}

fn write_file(path: &Path, text: &str, gz: bool) {
    if gz {
        write_bytes(path, &gz_bytes(text, 1, None));
    } else {
        write_bytes(path, text.as_bytes());
    }
}

fn write_enc(path: &Path, text: &str, gz: bool, enc: &Enc) {
    if gz {
        write_bytes(path, &gz_bytes(text, enc.members, enc.cut));
    } else {
        write_bytes(path, text.as_bytes());
    }
}

/// the loader accepts the header row: the text has a first record (after the BOM and leading line
/// terminators) and that record names every required column (names are compared as written: the csv
/// reader unquotes them but does not trim them).  Computed from the text alone.
fn header_ok(text: &str, required: &[&str]) -> bool {
    let t = text.trim_start_matches('\u{feff}').trim_start_matches(|c| c == '\n' || c == '\r');
    let first = t.split(|c| c == '\n' || c == '\r').next().unwrap_or("");
    if first.is_empty() {
        return false;
    }
    let names: Vec<String> = first
        .split(',')
        .map(|n| if n.len() >= 2 && n.starts_with('"') && n.ends_with('"') { n[1..n.len() - 1].to_string() } else { n.to_string() })
        .collect();
    required.iter().all(|r| names.iter().any(|n| n == r))
}

fn f32_text(x: f32) -> String {
    format!("{}", x)
}

fn e_cells(r: &ERow) -> (Vec<String>, bool) {
    let mut c = vec![r.id.to_string(), r.src.to_string(), r.dst.to_string(), format!("{}", r.dist)];
    if let Some((k, t)) = &r.alt {
        c[*k] = t.clone();
    }
    if let Some((k, t)) = &r.bad {
        c[*k] = t.clone();
    }
    (c, r.short)
}

fn v_cells(r: &VRow) -> (Vec<String>, bool) {
    let mut c = vec![r.id.to_string(), f32_text(r.x), f32_text(r.y)];
    if let Some((k, t)) = &r.alt {
        c[*k] = t.clone();
    }
    if let Some((k, t)) = &r.bad {
        c[*k] = t.clone();
    }
    (c, r.short)
}

// ------------------------------------------------------------------------------------------------
// a case

#[derive(Clone, Debug)]
struct Case {
    kind: &'static str,
    edges: Vec<ERow>,
    vertices: Vec<VRow>,
    n_e: Option<usize>,
    n_v: Option<usize>,
    e_enc: Enc,
    v_enc: Enc,
    /// the `verbose` argument of `Graph::from_files` (two log lines; never the result)
    verbose: Option<bool>,
}

impl Case {
    fn e_bad(&self, r: &ERow) -> bool {
        r.bad.is_some() || r.short || self.e_enc.drop_col.is_some()
    }
    fn v_bad(&self, r: &VRow) -> bool {
        r.bad.is_some() || r.short || self.v_enc.drop_col.is_some()
    }
    /// ids are row numbers, endpoints are listed vertices, every row decodes, files exist, counts are
    /// right or scanned: the property's domain
    fn well_formed(&self) -> bool {
        self.data_well_formed() && !self.e_enc.misnamed && !self.v_enc.misnamed
    }
    /// well-formed apart from a file name that does not say how the file is compressed
    fn data_well_formed(&self) -> bool {
        let nv = self.vertices.len();
        self.edges.iter().enumerate().all(|(i, r)| r.id == i && r.src < nv && r.dst < nv && !self.e_bad(r))
            && self.vertices.iter().enumerate().all(|(i, r)| r.id == i && !self.v_bad(r))
            && !self.e_enc.absent
            && !self.v_enc.absent
            && !self.e_enc.empty
            && !self.v_enc.empty
            && !self.e_enc.cr_only
            && !self.v_enc.cr_only
            && self.e_enc.cut.is_none()
            && self.v_enc.cut.is_none()
            && self.e_enc.raw.is_none()
            && self.v_enc.raw.is_none()
            && self.e_enc.drop_col.is_none()
            && self.v_enc.drop_col.is_none()
            && self.n_v.map(|n| n == nv).unwrap_or(true)
    }
}

fn opt_tok(o: Option<usize>) -> String {
    match o {
        Some(n) => format!("s {}", n),
        None => "n".to_string(),
    }
}

struct Written {
    e_path: PathBuf,
    v_path: PathBuf,
    e_lines: usize,
    v_lines: usize,
    e_header: bool,
    v_header: bool,
}

fn scratch_name(dir: &Path, name: String, nonutf8: bool) -> PathBuf {
    if nonutf8 {
        use std::os::unix::ffi::OsStringExt;
        let mut b = name.into_bytes();
        b.insert(0, 0xff);
        b.insert(1, 0xfe);
        dir.join(std::ffi::OsString::from_vec(b))
    } else {
        dir.join(name)
    }
}

/// writes the two files of a case (with the given gzip flags) and returns paths and line counts
fn write_case(dir: &Path, tag: &str, rng_seed: &Rng, case: &Case, e_gz: bool, v_gz: bool) -> Written {
    // the same random stream for every variant of the same case, so that the variants hold the same text
    let mut rng = rng_seed.clone();
    let e_rows: Vec<(Vec<String>, bool)> = case.edges.iter().map(e_cells).collect();
    let v_rows: Vec<(Vec<String>, bool)> = case.vertices.iter().map(v_cells).collect();
    let e_text = render(&mut rng, &E_COLS, &e_rows, &case.e_enc);
    let v_text = render(&mut rng, &V_COLS, &v_rows, &case.v_enc);
    let e_name_gz = e_gz != case.e_enc.misnamed;
    let v_name_gz = v_gz != case.v_enc.misnamed;
    let e_path = scratch_name(dir, format!("{}_edges.csv{}", tag, if e_name_gz { ".gz" } else { "" }), case.e_enc.nonutf8_name);
    let v_path = scratch_name(dir, format!("{}_vertices.csv{}", tag, if v_name_gz { ".gz" } else { "" }), case.v_enc.nonutf8_name);
    let _ = std::fs::remove_file(&e_path);
    let _ = std::fs::remove_file(&v_path);
    if !case.e_enc.absent {
        write_enc(&e_path, &e_text, e_gz, &case.e_enc);
    }
    if !case.v_enc.absent {
        write_enc(&v_path, &v_text, v_gz, &case.v_enc);
    }
    // the scan decides compression by content (like the csv reader), so the text alone fixes the count
    Written {
        e_path,
        v_path,
        e_lines: text_lines(&e_text),
        v_lines: text_lines(&v_text),
        e_header: header_ok(&e_text, &E_COLS),
        v_header: header_ok(&v_text, &V_COLS),
    }
}

/// the two files as the model receives them: readable, text lines, header row found, rows
fn file_spec_tokens(case: &Case, w: &Written) -> Vec<String> {
    let mut t: Vec<String> = vec![];
    // edge file
    t.push(if case.e_enc.absent || case.e_enc.cut.is_some() { "0" } else { "1" }.into());
    t.push(w.e_lines.to_string());
    t.push(if w.e_header { "1" } else { "0" }.into());
    let e_rows: Vec<&ERow> = if case.e_enc.empty || case.e_enc.absent { vec![] } else { case.edges.iter().collect() };
    t.push(e_rows.len().to_string());
    for r in e_rows {
        if case.e_bad(r) {
            t.push("b".into());
        } else {
            t.push(format!("r {} {} {} {}", r.id, r.src, r.dst, r.dist.to_bits()));
        }
    }
    // vertex file
    t.push(if case.v_enc.absent || case.v_enc.cut.is_some() { "0" } else { "1" }.into());
    t.push(w.v_lines.to_string());
    t.push(if w.v_header { "1" } else { "0" }.into());
    let v_rows: Vec<&VRow> = if case.v_enc.empty || case.v_enc.absent { vec![] } else { case.vertices.iter().collect() };
    t.push(v_rows.len().to_string());
    for r in v_rows {
        if case.v_bad(r) {
            t.push("b".into());
        } else {
            t.push(format!("r {} {} {}", r.id, (r.x as f64).to_bits(), (r.y as f64).to_bits()));
        }
    }
    t
}

fn case_line(case: &Case, w: &Written) -> String {
    let mut t: Vec<String> = vec!["load".into()];
    t.push(format!(
        "{}:{}:{}:v{}",
        case.kind,
        case.e_enc.descr(),
        case.v_enc.descr(),
        match case.verbose {
            None => "n",
            Some(true) => "t",
            Some(false) => "f",
        }
    ));
    t.push(opt_tok(case.n_e));
    t.push(opt_tok(case.n_v));
    t.extend(file_spec_tokens(case, w));
    t.join(" ")
}

// ------------------------------------------------------------------------------------------------
// canonical output of the real graph

fn nat_list(l: &[EdgeId]) -> String {
    let mut t = vec![l.len().to_string()];
    t.extend(l.iter().map(|e| e.0.to_string()));
    t.join(" ")
}

fn vertex_out(v: &Vertex) -> String {
    format!("{} {} {}", v.vertex_id.0, fbits(v.x() as f64), fbits(v.y() as f64))
}

fn edge_out(e: &Edge) -> String {
    format!("{} {} {} {}", e.edge_id.0, e.src_vertex_id.0, e.dst_vertex_id.0, fbits(e.distance.as_f64()))
}

fn net_err(e: &NetworkError) -> &'static str {
    match e {
        NetworkError::EdgeNotFound(_) => "ne",
        NetworkError::VertexNotFound(_) => "nv",
        _ => "other",
    }
}

fn ex_out<T>(r: Result<T, NetworkError>, f: impl Fn(T) -> String) -> String {
    match r {
        Ok(t) => format!("s {}", f(t)),
        Err(e) => net_err(&e).to_string(),
    }
}

fn triplets_out(l: Vec<(VertexId, EdgeId, VertexId)>) -> String {
    let mut t = vec![l.len().to_string()];
    t.extend(l.iter().map(|(a, e, b)| format!("{} {} {}", a.0, e.0, b.0)));
    t.join(" ")
}

fn attrs_out(l: Vec<(&Vertex, &Edge, &Vertex)>) -> String {
    let mut t = vec![l.len().to_string()];
    t.extend(l.iter().map(|(a, e, b)| format!("{} {} {}", vertex_out(a), edge_out(e), vertex_out(b))));
    t.join(" ")
}

fn graph_out(g: &Graph) -> String {
    let ne = g.n_edges();
    let nv = g.n_vertices();
    let pv = nv.max(g.adj.len()).max(g.rev.len());
    let mut t: Vec<String> = vec![
        "ok".into(),
        ne.to_string(),
        nv.to_string(),
        g.adj.len().to_string(),
        g.rev.len().to_string(),
    ];
    for e in 0..=ne {
        let id = EdgeId(e);
        t.push("e".into());
        t.push(ex_out(g.get_edge(&id), edge_out));
        t.push(ex_out(g.src_vertex_id(&id), |v| v.0.to_string()));
        t.push(ex_out(g.dst_vertex_id(&id), |v| v.0.to_string()));
        t.push(ex_out(g.incident_vertex(&id, &Direction::Forward), |v| v.0.to_string()));
        t.push(ex_out(g.incident_vertex(&id, &Direction::Reverse), |v| v.0.to_string()));
        t.push(ex_out(g.edge_triplet(&id), |(s, ed, d)| {
            format!("{} {} {}", vertex_out(s), edge_out(ed), vertex_out(d))
        }));
    }
    for v in 0..=pv {
        let id = VertexId(v);
        t.push("v".into());
        t.push(ex_out(g.get_vertex(&id), vertex_out));
        t.push(nat_list(&g.out_edges(&id)));
        t.push(nat_list(&g.in_edges(&id)));
        t.push(nat_list(&g.incident_edges(&id, &Direction::Forward)));
        t.push(nat_list(&g.incident_edges(&id, &Direction::Reverse)));
        t.push(ex_out(g.incident_triplet_ids(&id, &Direction::Forward), triplets_out));
        t.push(ex_out(g.incident_triplet_ids(&id, &Direction::Reverse), triplets_out));
        t.push(ex_out(g.incident_triplet_attributes(&id, &Direction::Forward), attrs_out));
        t.push(ex_out(g.incident_triplet_attributes(&id, &Direction::Reverse), attrs_out));
    }
    t.push("ids".into());
    t.push(nat_list(&g.edge_ids().collect::<Vec<_>>()));
    let vids: Vec<EdgeId> = g.vertex_ids().map(|v| EdgeId(v.0)).collect();
    t.push(nat_list(&vids));
    t.join(" ")
}

fn load(w: &Written, n_e: Option<usize>, n_v: Option<usize>) -> Result<Result<Graph, NetworkError>, String> {
    load_v(w, n_e, n_v, Some(false))
}

fn load_v(w: &Written, n_e: Option<usize>, n_v: Option<usize>, verbose: Option<bool>) -> Result<Result<Graph, NetworkError>, String> {
    let e = w.e_path.clone();
    let v = w.v_path.clone();
    std::panic::catch_unwind(move || Graph::from_files(&e, &v, n_e, n_v, verbose)).map_err(|p| {
        if let Some(s) = p.downcast_ref::<String>() {
            s.clone()
        } else if let Some(s) = p.downcast_ref::<&str>() {
            s.to_string()
        } else {
            "panic".to_string()
        }
    })
}

fn outcome_line(r: &Result<Result<Graph, NetworkError>, String>) -> String {
    match r {
        Err(_) => "panic".to_string(),
        Ok(Err(e)) => match e {
            NetworkError::IOError { .. } => "err io".to_string(),
            NetworkError::DatasetError(_) => "err dataset".to_string(),
            NetworkError::CsvError { .. } => "err csv".to_string(),
            _ => "err other".to_string(),
        },
        Ok(Ok(g)) => graph_out(g),
    }
}

// ------------------------------------------------------------------------------------------------
// oracle: the loaded graph against the raw rows, by id (independent of the Lean model)

/// returns the first discrepancy as (aspect, message)
fn check_by_id(g: &Graph, edges: &[ERow], vertices: &[VRow]) -> Option<(&'static str, String)> {
    if g.n_edges() != edges.len() {
        return Some(("n-edges", format!("n_edges() = {} but {} edges are listed", g.n_edges(), edges.len())));
    }
    if g.n_vertices() != vertices.len() {
        return Some(("n-vertices", format!("n_vertices() = {} but {} vertices are listed", g.n_vertices(), vertices.len())));
    }
    for r in vertices {
        match g.get_vertex(&VertexId(r.id)) {
            Ok(v) => {
                if v.vertex_id.0 != r.id || v.x().to_bits() != r.x.to_bits() || v.y().to_bits() != r.y.to_bits() {
                    return Some(("get-vertex", format!("listed vertex {} at ({}, {}) but get_vertex({}) = {}", r.id, r.x, r.y, r.id, v)));
                }
            }
            Err(e) => return Some(("get-vertex", format!("listed vertex {} not retrievable: {}", r.id, e))),
        }
    }
    for r in edges {
        let id = EdgeId(r.id);
        match g.get_edge(&id) {
            Ok(e) => {
                if e.edge_id.0 != r.id
                    || e.src_vertex_id.0 != r.src
                    || e.dst_vertex_id.0 != r.dst
                    || e.distance.as_f64().to_bits() != r.dist.to_bits()
                {
                    return Some((
                        "get-edge",
                        format!("listed edge {}: {}->{} length {} but get_edge({}) = {:?}", r.id, r.src, r.dst, r.dist, r.id, e),
                    ));
                }
            }
            Err(e) => return Some(("get-edge", format!("listed edge {} not retrievable: {}", r.id, e))),
        }
        if g.src_vertex_id(&id).ok().map(|v| v.0) != Some(r.src) || g.dst_vertex_id(&id).ok().map(|v| v.0) != Some(r.dst) {
            return Some(("endpoints", format!("edge {} listed {}->{}", r.id, r.src, r.dst)));
        }
        // the triplet: both endpoints must be listed vertices with the listed coordinates
        let sv = vertices.iter().find(|v| v.id == r.src);
        let dv = vertices.iter().find(|v| v.id == r.dst);
        match (g.edge_triplet(&id), sv, dv) {
            (Ok((s, _, d)), Some(sv), Some(dv)) => {
                if s.x().to_bits() != sv.x.to_bits() || s.y().to_bits() != sv.y.to_bits() || d.x().to_bits() != dv.x.to_bits() || d.y().to_bits() != dv.y.to_bits() {
                    return Some(("edge-triplet", format!("edge {}: triplet vertices {} / {} differ from the listed ones", r.id, s, d)));
                }
            }
            (r2, _, _) => {
                return Some((
                    "edge-triplet",
                    format!(
                        "edge {} ({}->{}) is listed and the load succeeded, but its endpoints are not both available: triplet {}",
                        r.id,
                        r.src,
                        r.dst,
                        match r2 {
                            Ok(_) => "ok although an endpoint is not a listed vertex".to_string(),
                            Err(e) => format!("fails with {}", e),
                        }
                    ),
                ))
            }
        }
    }
    // adjacency, as multisets, for every listed vertex id and every id the graph knows
    let max_v = vertices.iter().map(|v| v.id + 1).max().unwrap_or(0).max(g.n_vertices()).max(g.adj.len()).max(g.rev.len());
    let mut all_out: Vec<usize> = vec![];
    let mut all_in: Vec<usize> = vec![];
    for v in 0..max_v {
        let mut want_out: Vec<usize> = edges.iter().filter(|r| r.src == v).map(|r| r.id).collect();
        let mut want_in: Vec<usize> = edges.iter().filter(|r| r.dst == v).map(|r| r.id).collect();
        let got_out_raw: Vec<usize> = g.out_edges(&VertexId(v)).iter().map(|e| e.0).collect();
        let got_in_raw: Vec<usize> = g.in_edges(&VertexId(v)).iter().map(|e| e.0).collect();
        let mut got_out = got_out_raw.clone();
        let mut got_in = got_in_raw.clone();
        all_out.extend(got_out.iter());
        all_in.extend(got_in.iter());
        want_out.sort();
        want_in.sort();
        got_out.sort();
        got_in.sort();
        if want_out != got_out {
            let aspect = if want_out.len() >= 5 { "adjacency-degree" } else { "adjacency" };
            return Some((aspect, format!("vertex {}: listed out-edges {:?} but out_edges = {:?}", v, want_out, got_out_raw)));
        }
        if want_in != got_in {
            let aspect = if want_in.len() >= 5 { "adjacency-degree" } else { "adjacency" };
            return Some((aspect, format!("vertex {}: listed in-edges {:?} but in_edges = {:?}", v, want_in, got_in_raw)));
        }
        let f: Vec<usize> = g.incident_edges(&VertexId(v), &Direction::Forward).iter().map(|e| e.0).collect();
        let b: Vec<usize> = g.incident_edges(&VertexId(v), &Direction::Reverse).iter().map(|e| e.0).collect();
        if f != got_out_raw || b != got_in_raw {
            return Some(("incident-edges", format!("vertex {}: incident_edges differs from out/in_edges", v)));
        }
    }
    all_out.sort();
    all_in.sort();
    let mut ids: Vec<usize> = edges.iter().map(|r| r.id).collect();
    ids.sort();
    if all_out != all_in || all_out != ids {
        return Some((
            "fwd-rev-edge-set",
            format!("edge ids {:?}; union of out_edges {:?}; union of in_edges {:?}", ids, all_out, all_in),
        ));
    }
    for r in edges {
        let o = g.out_edges(&VertexId(r.src)).contains(&EdgeId(r.id));
        let i = g.in_edges(&VertexId(r.dst)).contains(&EdgeId(r.id));
        if !o || !i {
            return Some(("fwd-rev-edge-set", format!("edge {}: in out_edges({}) = {}, in in_edges({}) = {}", r.id, r.src, o, r.dst, i)));
        }
    }
    None
}

// ------------------------------------------------------------------------------------------------
// generators

fn nice_dist(rng: &mut Rng) -> f64 {
    match rng.below(4) {
        0 => (1 + rng.below(500)) as f64,
        1 => rng.small_decimal(1000, 2) + 0.01,
        2 => rng.uniform(0.001, 100000.0),
        _ => rng.small_decimal(50, 3) + 0.001,
    }
}

fn coord(rng: &mut Rng) -> (f32, f32) {
    match rng.below(3) {
        0 => (rng.uniform(-180.0, 180.0) as f32, rng.uniform(-90.0, 90.0) as f32),
        1 => (-105.0 - rng.small_decimal(1, 5) as f32, 39.0 + rng.small_decimal(1, 5) as f32),
        _ => (rng.range(-180, 180) as f32, rng.range(-90, 90) as f32),
    }
}

fn mk_vertices(rng: &mut Rng, n: usize) -> Vec<VRow> {
    (0..n)
        .map(|i| {
            let (x, y) = coord(rng);
            VRow { id: i, x, y, bad: None, short: false, alt: None }
        })
        .collect()
}

fn mk_edges(rng: &mut Rng, pairs: &[(usize, usize)]) -> Vec<ERow> {
    pairs
        .iter()
        .enumerate()
        .map(|(i, &(s, d))| ERow { id: i, src: s, dst: d, dist: nice_dist(rng), bad: None, short: false, alt: None })
        .collect()
}

const DEGREES: [usize; 16] = [0, 1, 2, 3, 4, 5, 5, 6, 6, 7, 7, 8, 10, 12, 12, 20];

/// a well-formed random network
fn gen_pairs(rng: &mut Rng, nv: usize, big: bool) -> Vec<(usize, usize)> {
    let mut pairs: Vec<(usize, usize)> = vec![];
    if nv == 0 {
        return pairs;
    }
    // hubs with chosen out- and in-degrees
    let hubs = rng.below(3);
    for _ in 0..hubs {
        let h = rng.below(nv);
        let mut dout = *rng.pick(&DEGREES);
        let mut din = *rng.pick(&DEGREES);
        if big && rng.chance(1, 6) {
            dout = 20 + rng.below(60);
        }
        if big && rng.chance(1, 6) {
            din = 20 + rng.below(60);
        }
        for _ in 0..dout {
            pairs.push((h, rng.below(nv)));
        }
        for _ in 0..din {
            pairs.push((rng.below(nv), h));
        }
    }
    // background edges among a subset of the vertices (so that isolated vertices exist)
    let active = 1 + rng.below(nv);
    let nbg = rng.below(if big { 4 * nv + 1 } else { 2 * nv + 1 });
    for _ in 0..nbg {
        pairs.push((rng.below(active), rng.below(active)));
    }
    // parallel edges and self loops
    if rng.chance(1, 3) {
        let a = rng.below(nv);
        let b = rng.below(nv);
        for _ in 0..(2 + rng.below(6)) {
            pairs.push((a, b));
        }
    }
    if rng.chance(1, 3) {
        let a = rng.below(nv);
        for _ in 0..(1 + rng.below(6)) {
            pairs.push((a, a));
        }
    }
    rng.shuffle(&mut pairs);
    pairs
}

/// lengths and coordinates that no road has but the number parsers accept (the loader stores what the
/// file says: not-a-number, infinities, negative and zero lengths, values beyond the f32 range), and
/// other spellings of ordinary numbers
fn special_numbers(rng: &mut Rng, edges: &mut [ERow], vertices: &mut [VRow]) {
    let dists: [(f64, Option<&str>); 12] = [
        (f64::NAN, None),
        (f64::INFINITY, None),
        (f64::NEG_INFINITY, None),
        (f64::INFINITY, Some("1e999")),
        (0.0, Some("1e-999")),
        (-5.25, None),
        (0.0, None),
        (-0.0, None),
        (5e-324, None),
        (1.7976931348623157e308, None),
        (12.5, Some("+12.5")),
        (1250.0, Some("1.25E3")),
    ];
    let coords: [(f32, Option<&str>); 10] = [
        (f32::NAN, None),
        (f32::INFINITY, None),
        (f32::NEG_INFINITY, Some("-inf")),
        (f32::INFINITY, Some("1e39")),
        (0.0, Some("1e-50")),
        (-0.0, None),
        (-180.0, None),
        (540.5, None),
        (3.4028235e38, None),
        (1.5, Some("+1.5")),
    ];
    let ids: [&str; 3] = ["+", "00", "0"];
    for _ in 0..(1 + rng.below(4)) {
        if !edges.is_empty() && rng.chance(2, 3) {
            let a = rng.below(edges.len());
            match rng.below(4) {
                0 => {
                    // another spelling of the id or of an endpoint
                    let col = rng.below(3);
                    let val = [edges[a].id, edges[a].src, edges[a].dst][col];
                    // the csv crate's integer deserializer also reads a hexadecimal 0x literal (lower- or
                    // upper-case digits); the vertex file's hand-written decoder does not (vertex-bad-cell)
                    edges[a].alt = Some((
                        col,
                        match rng.below(5) {
                            3 => format!("0x{:x}", val),
                            4 => format!("0x{:X}", val),
                            k => format!("{}{}", ids[k], val),
                        },
                    ));
                }
                _ => {
                    let (d, t) = dists[rng.below(dists.len())];
                    edges[a].dist = d;
                    edges[a].alt = t.map(|t| (3, t.to_string()));
                }
            }
        } else if !vertices.is_empty() {
            let a = rng.below(vertices.len());
            match rng.below(4) {
                0 => {
                    vertices[a].alt = Some((0, format!("{}{}", ids[rng.below(3)], vertices[a].id)));
                }
                k => {
                    let (c, t) = coords[rng.below(coords.len())];
                    if k == 1 {
                        vertices[a].x = c;
                        vertices[a].alt = t.map(|t| (1, t.to_string()));
                    } else {
                        vertices[a].y = c;
                        vertices[a].alt = t.map(|t| (2, t.to_string()));
                    }
                }
            }
        }
    }
}

fn gen_well_formed(rng: &mut Rng, big: bool) -> Case {
    let nv = match rng.below(10) {
        0 => 0,
        1 => 1,
        2 => 2,
        _ => 3 + rng.below(if big { 40 } else { 12 }),
    };
    let pairs = gen_pairs(rng, nv, big);
    let mut vertices = mk_vertices(rng, nv);
    let mut edges = mk_edges(rng, &pairs);
    if rng.chance(1, 6) {
        special_numbers(rng, &mut edges, &mut vertices);
    }
    let n_e = if rng.chance(1, 2) { None } else { Some(edges.len()) };
    let n_v = if rng.chance(1, 2) { None } else { Some(nv) };
    let verbose = [None, Some(true), Some(false)][rng.below(3)];
    Case { kind: "wf", n_e, n_v, e_enc: Enc::random(rng, 4, true), v_enc: Enc::random(rng, 3, true), edges, vertices, verbose }
}

const MALFORMED: [&str; 20] = [
    "edge-id-permuted",
    "edge-id-offset",
    "edge-id-duplicate",
    "endpoint-out-of-range",
    "declared-nv-small",
    "declared-nv-large",
    "declared-ne-wrong",
    "vertex-id-not-row",
    "edge-missing-column",
    "vertex-missing-column",
    "edge-bad-cell",
    "vertex-bad-cell",
    "short-row",
    "missing-file",
    "empty-file",
    "fewer-vertex-rows",
    "cr-line-endings",
    "compression-misnamed",
    "gzip-truncated",
    "huge-id",
];

fn bad_text(rng: &mut Rng, col_is_float: bool) -> String {
    if col_is_float {
        // ("1,5" is two cells: the row has one field too many)
        ["abc", "", "1,5", "--3", "1.5.2", "0x10"][rng.below(6)].to_string()
    } else {
        ["-1", "1.5", "abc", "", "18446744073709551616", "0xg", "1e3"][rng.below(7)].to_string()
    }
}

fn gen_malformed(rng: &mut Rng, which: &'static str) -> Case {
    let mut c = gen_well_formed(rng, false);
    // make sure there is something to break
    if c.vertices.len() < 3 || c.edges.len() < 3 {
        let nv = 3 + rng.below(6);
        let mut pairs = gen_pairs(rng, nv, false);
        for _ in 0..3 {
            pairs.push((rng.below(nv), rng.below(nv)));
        }
        c.vertices = mk_vertices(rng, nv);
        c.edges = mk_edges(rng, &pairs);
        c.n_e = c.n_e.map(|_| c.edges.len());
        c.n_v = c.n_v.map(|_| nv);
    }
    c.kind = which;
    // the other spellings were computed for the well-formed values; the mutations below change values
    for r in c.edges.iter_mut() {
        r.alt = None;
    }
    for r in c.vertices.iter_mut() {
        r.alt = None;
    }
    let ne = c.edges.len();
    let nv = c.vertices.len();
    match which {
        "edge-id-permuted" => {
            // same edges, listed in another order than their ids
            let mut tries = 0;
            loop {
                rng.shuffle(&mut c.edges);
                tries += 1;
                if c.edges.iter().enumerate().any(|(i, r)| r.id != i) || tries > 20 {
                    break;
                }
            }
        }
        "edge-id-offset" => {
            let k = 1 + rng.below(3);
            for r in c.edges.iter_mut() {
                r.id += k;
            }
        }
        "edge-id-duplicate" => {
            let a = rng.below(ne);
            let mut b = rng.below(ne);
            if a == b {
                b = (a + 1) % ne;
            }
            c.edges[b].id = c.edges[a].id;
            if rng.chance(1, 2) {
                // the duplicate also leaves / enters the same vertex: the adjacency entry is overwritten
                c.edges[b].src = c.edges[a].src;
            }
        }
        "endpoint-out-of-range" => {
            let k = 1 + rng.below(3);
            for _ in 0..k {
                let a = rng.below(ne);
                if rng.chance(1, 2) {
                    c.edges[a].src = nv + rng.below(3);
                } else {
                    c.edges[a].dst = nv + rng.below(3);
                }
            }
        }
        "declared-nv-small" => {
            c.n_v = Some(rng.below(nv));
        }
        "declared-nv-large" => {
            c.n_v = Some(nv + 1 + rng.below(5));
        }
        "declared-ne-wrong" => {
            c.n_e = Some(if rng.chance(1, 2) { rng.below(ne) } else { ne + 1 + rng.below(5) });
        }
        "vertex-id-not-row" => {
            if rng.chance(1, 2) {
                c.vertices.swap(0, nv - 1);
            } else {
                for r in c.vertices.iter_mut() {
                    r.id += 1;
                }
            }
        }
        "edge-missing-column" => {
            c.e_enc.drop_col = Some(rng.below(4));
        }
        "vertex-missing-column" => {
            c.v_enc.drop_col = Some(rng.below(3));
        }
        "edge-bad-cell" => {
            let a = rng.below(ne);
            let col = rng.below(4);
            let t = bad_text(rng, col == 3);
            c.edges[a].bad = Some((col, t));
        }
        "vertex-bad-cell" => {
            let a = rng.below(nv);
            let col = rng.below(3);
            // a hexadecimal vertex id is read in the edge file and refused here
            let t = if col == 0 && rng.chance(1, 4) { format!("0x{:x}", c.vertices[a].id) } else { bad_text(rng, col != 0) };
            c.vertices[a].bad = Some((col, t));
        }
        "short-row" => {
            if rng.chance(1, 2) {
                let a = rng.below(ne);
                c.edges[a].short = true;
            } else {
                let a = rng.below(nv);
                c.vertices[a].short = true;
            }
        }
        "missing-file" => {
            if rng.chance(1, 2) {
                c.e_enc.absent = true;
            } else {
                c.v_enc.absent = true;
            }
        }
        "empty-file" => {
            if rng.chance(1, 2) {
                c.e_enc.empty = true;
            } else {
                c.v_enc.empty = true;
            }
        }
        "cr-line-endings" => {
            // the rows are fine; only the line terminator is a lone CR (no embedded LF in extra cells)
            c.e_enc.n_extra = 0;
            c.e_enc.order = (0..4).collect();
            c.v_enc.n_extra = 0;
            c.v_enc.order = (0..3).collect();
            c.e_enc.crlf = false;
            c.v_enc.crlf = false;
            match rng.below(3) {
                0 => c.e_enc.cr_only = true,
                1 => c.v_enc.cr_only = true,
                _ => {
                    c.e_enc.cr_only = true;
                    c.v_enc.cr_only = true;
                }
            }
        }
        "compression-misnamed" => {
            match rng.below(3) {
                0 => c.e_enc.misnamed = true,
                1 => c.v_enc.misnamed = true,
                _ => {
                    c.e_enc.misnamed = true;
                    c.v_enc.misnamed = true;
                }
            }
        }
        "gzip-truncated" => {
            let cut = match rng.below(7) {
                0 => Cut::Header(1 + rng.below(9)),
                1 => Cut::Early(rng.below(11)),
                2 => Cut::Trailer(1 + rng.below(8)),
                3 => Cut::AfterFirstMember,
                _ => Cut::Frac(1 + rng.below(999)),
            };
            let enc = if rng.chance(1, 2) { &mut c.e_enc } else { &mut c.v_enc };
            enc.gz = true;
            enc.cut = Some(cut);
            if cut == Cut::AfterFirstMember {
                enc.members = 2 + rng.below(3);
            }
        }
        "huge-id" => {
            // ids at the top of the usize range (they parse; one more digit would not)
            let big = [usize::MAX, usize::MAX - 1, (1usize << 63), u32::MAX as usize + 1][rng.below(4)];
            match rng.below(4) {
                0 => c.edges[rng.below(ne)].id = big,
                1 => c.edges[rng.below(ne)].src = big,
                2 => c.edges[rng.below(ne)].dst = big,
                _ => c.vertices[rng.below(nv)].id = big,
            }
        }
        "fewer-vertex-rows" => {
            let keep = rng.below(nv);
            c.vertices.truncate(keep);
            // the declared count (if any) still names the original number
        }
        _ => unreachable!(),
    }
    c
}

fn e(id: usize, src: usize, dst: usize, dist: f64) -> ERow {
    ERow { id, src, dst, dist, bad: None, short: false, alt: None }
}

fn v(id: usize, x: f32, y: f32) -> VRow {
    VRow { id, x, y, bad: None, short: false, alt: None }
}

fn grid_vertices(n: usize) -> Vec<VRow> {
    (0..n).map(|i| v(i, -105.0 + 0.01 * i as f32, 39.5 + 0.003 * i as f32)).collect()
}

/// hand-written cases: degrees 5, 6, 7, 12 out and in (the container's hash-map representation),
/// parallel edges, self loops, isolated vertices, empty networks, and the witnesses of the findings
fn corpus() -> Vec<Case> {
    let mut out = vec![];
    // vertices 0..3 have out-degree 5, 6, 7, 12; vertices 4..7 have in-degree 5, 6, 7, 12; 8..11 are
    // the other ends, 12 and 13 are isolated; edges interleaved so that ids at one vertex are not contiguous
    let mut pairs: Vec<(usize, usize)> = vec![];
    let outs = [5usize, 6, 7, 12];
    let ins = [5usize, 6, 7, 12];
    for k in 0..12 {
        for (h, d) in outs.iter().enumerate() {
            if k < *d {
                pairs.push((h, 8 + (k % 4)));
            }
        }
        for (h, d) in ins.iter().enumerate() {
            if k < *d {
                pairs.push((8 + ((k + 1) % 4), 4 + h));
            }
        }
    }
    let edges: Vec<ERow> = pairs.iter().enumerate().map(|(i, &(s, d))| e(i, s, d, 10.0 + i as f64 * 0.25)).collect();
    for (gz, scan) in [(false, false), (true, true), (true, false), (false, true)] {
        let mut e_enc = Enc::plain(4);
        let mut v_enc = Enc::plain(3);
        e_enc.gz = gz;
        v_enc.gz = gz;
        if scan {
            v_enc.order = vec![4, 2, 0, 3, 1];
            v_enc.n_extra = 2;
        }
        out.push(Case {
            kind: "wf",
            edges: edges.clone(),
            vertices: grid_vertices(14),
            n_e: if scan { None } else { Some(edges.len()) },
            n_v: if scan { None } else { Some(14) },
            e_enc,
            v_enc,
            verbose: if scan { Some(true) } else { None },
        });
    }
    // six parallel edges 0->1, six self loops on 2, vertex 3 isolated
    let mut pe: Vec<ERow> = vec![];
    for k in 0..6 {
        pe.push(e(2 * k, 0, 1, 1.5 + k as f64));
        pe.push(e(2 * k + 1, 2, 2, 0.5 + k as f64));
    }
    out.push(Case { kind: "wf", edges: pe, vertices: grid_vertices(4), n_e: None, n_v: None, e_enc: Enc::plain(4), v_enc: Enc::plain(3), verbose: Some(false) });
    // empty network, header only
    out.push(Case { kind: "wf", edges: vec![], vertices: vec![], n_e: None, n_v: None, e_enc: Enc::plain(4), v_enc: Enc::plain(3), verbose: Some(false) });
    out.push(Case { kind: "wf", edges: vec![], vertices: vec![], n_e: Some(0), n_v: Some(0), e_enc: Enc::plain(4), v_enc: Enc::plain(3), verbose: Some(false) });
    // vertices only
    out.push(Case { kind: "wf", edges: vec![], vertices: grid_vertices(3), n_e: None, n_v: Some(3), e_enc: Enc::plain(4), v_enc: Enc::plain(3), verbose: Some(false) });
    // one self loop on a single vertex, no final newline
    let mut nonl = Enc::plain(4);
    nonl.final_newline = false;
    let mut nonl_v = Enc::plain(3);
    nonl_v.final_newline = false;
    out.push(Case { kind: "wf", edges: vec![e(0, 0, 0, 3.25)], vertices: grid_vertices(1), n_e: None, n_v: None, e_enc: nonl, v_enc: nonl_v, verbose: Some(false) });

    // --- witnesses of the findings: files that do not describe a network.  W1-W5 were accepted silently
    // and are rejected with a DatasetError since /repo 0316a94 and c6cac08; W6 was loaded with empty
    // adjacency and is rejected since 0316a94; W7 was loaded with empty adjacency and loads correctly
    // since 12d5de8; W8 and W9 were accepted and are rejected since c9969cf.  The oracle keys are unchanged, so a regression of a
    // repair is reported under the key of the original finding. ---
    // W1: two edges listed in the reverse order of their ids
    out.push(Case {
        kind: "edge-id-permuted",
        edges: vec![e(1, 0, 1, 7.0), e(0, 1, 0, 9.0)],
        vertices: grid_vertices(2),
        n_e: Some(2),
        n_v: Some(2),
        e_enc: Enc::plain(4),
        v_enc: Enc::plain(3),
        verbose: Some(false),
    });
    // W2: an edge ends at a vertex that is not in the vertex file
    out.push(Case {
        kind: "endpoint-out-of-range",
        edges: vec![e(0, 0, 1, 7.0), e(1, 1, 5, 9.0)],
        vertices: grid_vertices(2),
        n_e: None,
        n_v: None,
        e_enc: Enc::plain(4),
        v_enc: Enc::plain(3),
        verbose: Some(false),
    });
    // W3: the declared vertex count is smaller than the vertex file
    out.push(Case {
        kind: "declared-nv-small",
        edges: vec![e(0, 0, 1, 7.0), e(1, 1, 2, 9.0), e(2, 2, 0, 4.0)],
        vertices: grid_vertices(3),
        n_e: Some(3),
        n_v: Some(2),
        e_enc: Enc::plain(4),
        v_enc: Enc::plain(3),
        verbose: Some(false),
    });
    // W4: vertex rows listed in another order than their ids
    out.push(Case {
        kind: "vertex-id-not-row",
        edges: vec![e(0, 0, 1, 7.0)],
        vertices: vec![v(1, 10.0, 20.0), v(0, 30.0, 40.0)],
        n_e: None,
        n_v: None,
        e_enc: Enc::plain(4),
        v_enc: Enc::plain(3),
        verbose: Some(false),
    });
    // W5: a duplicated edge id leaving the same vertex overwrites the adjacency entry
    out.push(Case {
        kind: "edge-id-duplicate",
        edges: vec![e(0, 0, 1, 7.0), e(0, 0, 2, 9.0), e(2, 1, 2, 1.0)],
        vertices: grid_vertices(3),
        n_e: None,
        n_v: None,
        e_enc: Enc::plain(4),
        v_enc: Enc::plain(3),
        verbose: Some(false),
    });
    // W6: a well-formed vertex file with classic-Mac (lone CR) line endings and a scanned vertex count
    let mut cr = Enc::plain(3);
    cr.cr_only = true;
    out.push(Case {
        kind: "cr-line-endings",
        edges: vec![e(0, 0, 1, 7.0), e(1, 1, 0, 9.0)],
        vertices: grid_vertices(2),
        n_e: None,
        n_v: None,
        e_enc: Enc::plain(4),
        v_enc: cr,
        verbose: Some(false),
    });
    // W8: the declared vertex count (3) covers an endpoint for which the vertex file (2 rows) has no row
    out.push(Case {
        kind: "fewer-vertex-rows",
        edges: vec![e(0, 0, 1, 7.0), e(1, 1, 2, 9.0)],
        vertices: grid_vertices(2),
        n_e: Some(2),
        n_v: Some(3),
        e_enc: Enc::plain(4),
        v_enc: Enc::plain(3),
        verbose: Some(false),
    });
    // W9: the same with a scanned count: a trailing blank line makes the scan see one vertex more
    let mut blank = Enc::plain(3);
    blank.trailing_blank = 1;
    out.push(Case {
        kind: "fewer-vertex-rows",
        edges: vec![e(0, 0, 1, 7.0), e(1, 1, 2, 9.0)],
        vertices: grid_vertices(2),
        n_e: None,
        n_v: None,
        e_enc: Enc::plain(4),
        v_enc: blank,
        verbose: Some(false),
    });
    // W10: a gzip edge file cut short two bytes into its first deflate block, explicit counts: the first
    // read fails while the csv reader fetches the header row (was loaded as an edge list without rows)
    // W11: a gzip edge file cut short inside its ten-byte header, scanned counts (was read as plain text:
    // a header row of garbage, no rows)
    // W12: a vertex file cut short inside the CRC / length trailer
    let w_edges: Vec<ERow> = (0..40).map(|i| e(i, i % 3, (i + 1) % 3, i as f64 + 0.5)).collect();
    for (on_vertex, cut, explicit) in [(false, Cut::Early(2), true), (false, Cut::Header(5), false), (true, Cut::Trailer(4), true), (false, Cut::Frac(500), true), (true, Cut::Header(9), true)] {
        let mut e_enc = Enc::plain(4);
        let mut v_enc = Enc::plain(3);
        if on_vertex {
            v_enc.gz = true;
            v_enc.cut = Some(cut);
        } else {
            e_enc.gz = true;
            e_enc.cut = Some(cut);
        }
        out.push(Case {
            kind: "gzip-truncated",
            edges: w_edges.clone(),
            vertices: grid_vertices(3),
            n_e: if explicit { Some(40) } else { None },
            n_v: if explicit { Some(3) } else { None },
            e_enc,
            v_enc,
            verbose: None,
        });
    }
    // W13: the same edge list as a gzip file of two members (was loaded as its first member: 20 of 40 edges),
    // and a vertex file of three members
    for explicit in [false, true] {
        let mut e_enc = Enc::plain(4);
        e_enc.gz = true;
        e_enc.members = 2;
        let mut v_enc = Enc::plain(3);
        v_enc.gz = true;
        v_enc.members = 3;
        out.push(Case {
            kind: "wf",
            edges: w_edges.clone(),
            vertices: grid_vertices(3),
            n_e: if explicit { Some(40) } else { None },
            n_v: if explicit { Some(3) } else { None },
            e_enc,
            v_enc,
            verbose: Some(true),
        });
    }
    // W14: an empty edge file with explicit counts (was loaded as a network without edges); the same for
    // the vertex file is among the error kinds below
    {
        let mut e_enc = Enc::plain(4);
        e_enc.empty = true;
        out.push(Case { kind: "empty-file", edges: w_edges.clone(), vertices: grid_vertices(3), n_e: Some(40), n_v: Some(3), e_enc, v_enc: Enc::plain(3), verbose: None });
    }
    // W15: a gzip edge file cut after its FIRST byte (0x1f), explicit and scanned counts (was read as plain
    // text - a header row of one control character - and loaded as an empty edge list)
    for explicit in [true, false] {
        let mut e_enc = Enc::plain(4);
        e_enc.gz = true;
        e_enc.cut = Some(Cut::Header(1));
        out.push(Case { kind: "gzip-truncated", edges: w_edges.clone(), vertices: grid_vertices(3), n_e: if explicit { Some(40) } else { None }, n_v: if explicit { Some(3) } else { None }, e_enc, v_enc: Enc::plain(3), verbose: None });
    }
    // W16: a two-member gzip edge file cut one byte after the end of its first member
    {
        let mut e_enc = Enc::plain(4);
        e_enc.gz = true;
        e_enc.members = 2;
        e_enc.cut = Some(Cut::AfterFirstMember);
        out.push(Case { kind: "gzip-truncated", edges: w_edges.clone(), vertices: grid_vertices(3), n_e: None, n_v: None, e_enc, v_enc: Enc::plain(3), verbose: None });
    }
    // W17: files that are nothing but a header row WITHOUT the required column names (semicolons; another
    // language), and W18: a file without a header row whose only record is taken for one (all were loaded
    // as empty lists; the listed record of W18 was lost)
    for (on_vertex, text) in [
        (false, "edge_id;src_vertex_id;dst_vertex_id;distance\n"),
        (false, "id,from,to,length\n"),
        (false, "0,0,1,7.5\n"),
        (false, "edge_id, src_vertex_id, dst_vertex_id, distance\n"),
        (true, "vertex_id;x;y\n"),
        (true, "0,-105.2,39.7\n"),
        (true, "vertex_id,lon,lat\n"),
    ] {
        let mut e_enc = Enc::plain(4);
        let mut v_enc = Enc::plain(3);
        if on_vertex {
            v_enc.raw = Some(text.to_string());
        } else {
            e_enc.raw = Some(text.to_string());
        }
        out.push(Case {
            kind: "header-without-columns",
            edges: vec![],
            vertices: if on_vertex { vec![] } else { grid_vertices(3) },
            n_e: Some(0),
            n_v: if on_vertex { Some(0) } else { None },
            e_enc,
            v_enc,
            verbose: None,
        });
    }
    // a header row alone WITH the required names is a valid empty list (quoted names, another order, BOM)
    {
        let mut e_enc = Enc::plain(4);
        e_enc.raw = Some("\u{feff}\"distance\",dst_vertex_id,\"edge_id\",name,src_vertex_id\n".to_string());
        let mut v_enc = Enc::plain(3);
        v_enc.raw = Some("y,x,vertex_id".to_string());
        out.push(Case { kind: "header-only", edges: vec![], vertices: vec![], n_e: None, n_v: None, e_enc, v_enc, verbose: None });
    }
    // an empty file whose name is not UTF-8, scanned counts (the error text has no path to show)
    for on_vertex in [false, true] {
        let mut e_enc = Enc::plain(4);
        let mut v_enc = Enc::plain(3);
        if on_vertex {
            v_enc.empty = true;
            v_enc.nonutf8_name = true;
        } else {
            e_enc.empty = true;
            e_enc.nonutf8_name = true;
        }
        out.push(Case { kind: "empty-file", edges: w_edges.clone(), vertices: grid_vertices(3), n_e: None, n_v: None, e_enc, v_enc, verbose: Some(true) });
    }
    // W7: a gzip-compressed vertex file that is not named *.gz, scanned vertex count
    let mut mis = Enc::plain(3);
    mis.gz = true;
    mis.misnamed = true;
    out.push(Case {
        kind: "compression-misnamed",
        edges: vec![e(0, 0, 1, 7.0), e(1, 1, 0, 9.0)],
        vertices: grid_vertices(2),
        n_e: None,
        n_v: None,
        e_enc: Enc::plain(4),
        v_enc: mis,
        verbose: Some(false),
    });
    // --- error kinds ---
    let base = Case {
        kind: "wf",
        edges: vec![e(0, 0, 1, 7.0), e(1, 1, 0, 9.0)],
        vertices: grid_vertices(2),
        n_e: None,
        n_v: None,
        e_enc: Enc::plain(4),
        v_enc: Enc::plain(3),
        verbose: Some(false),
    };
    for (kind, f) in [
        ("missing-file", Box::new(|c: &mut Case| c.e_enc.absent = true) as Box<dyn Fn(&mut Case)>),
        ("missing-file", Box::new(|c: &mut Case| c.v_enc.absent = true)),
        ("missing-file", Box::new(|c: &mut Case| { c.e_enc.absent = true; c.n_e = Some(2); c.n_v = Some(2) })),
        ("missing-file", Box::new(|c: &mut Case| { c.v_enc.absent = true; c.n_e = Some(2); c.n_v = Some(2) })),
        ("empty-file", Box::new(|c: &mut Case| c.e_enc.empty = true)),
        ("empty-file", Box::new(|c: &mut Case| c.v_enc.empty = true)),
        ("empty-file", Box::new(|c: &mut Case| { c.e_enc.empty = true; c.n_e = Some(2); c.n_v = Some(2) })),
        ("empty-file", Box::new(|c: &mut Case| { c.v_enc.empty = true; c.v_enc.gz = true; })),
        ("edge-missing-column", Box::new(|c: &mut Case| c.e_enc.drop_col = Some(3))),
        ("edge-missing-column", Box::new(|c: &mut Case| { c.e_enc.drop_col = Some(0); c.edges.clear() })),
        ("vertex-missing-column", Box::new(|c: &mut Case| c.v_enc.drop_col = Some(1))),
        ("edge-bad-cell", Box::new(|c: &mut Case| c.edges[1].bad = Some((1, "-1".into())))),
        ("vertex-bad-cell", Box::new(|c: &mut Case| c.vertices[0].bad = Some((2, "north".into())))),
        ("short-row", Box::new(|c: &mut Case| c.edges[0].short = true)),
    ] {
        let mut c = base.clone();
        c.kind = kind;
        f(&mut c);
        out.push(c);
    }
    out
}

// ------------------------------------------------------------------------------------------------

fn degree_bucket(d: usize) -> &'static str {
    match d {
        0 => "0",
        1..=4 => "1-4",
        5 => "5",
        6 => "6",
        7 => "7",
        8..=12 => "8-12",
        _ => "13+",
    }
}

/// the key under which a silently accepted inconsistent file is reported
fn finding_key(case: &Case, edges: &[ERow], vertices: &[VRow], table: usize) -> &'static str {
    let nv = vertices.len();
    // `table` is the size of the adjacency table the loader built (declared or scanned vertex count)
    if case.e_enc.cr_only || case.v_enc.cr_only {
        "graph_loader/scan-misses-cr-line-endings"
    } else if case.e_enc.misnamed || case.v_enc.misnamed {
        "graph_loader/scan-decides-gzip-by-extension"
    } else if edges.iter().enumerate().any(|(i, r)| r.id != i) {
        "graph_loader/edge-id-not-row-accepted"
    } else if vertices.iter().enumerate().any(|(i, r)| r.id != i) {
        "graph_loader/vertex-id-not-row-accepted"
    } else if edges.iter().any(|r| r.src >= table || r.dst >= table) {
        // an endpoint outside the adjacency table (declared / scanned vertex count)
        "edge_loader/missing-vertex-accepted"
    } else if edges.iter().any(|r| r.src >= nv || r.dst >= nv) {
        // inside the table, but the vertex file has no such row
        "graph_loader/endpoint-beyond-vertex-rows-accepted"
    } else {
        "graph_loader/inconsistent-files-accepted"
    }
}

fn run_load_case(ctx: &mut Ctx, idx: usize, dir: &Path, case: &Case, rng: &Rng) {
    let tag = format!("c{}", idx);
    let w = write_case(dir, &tag, rng, case, case.e_enc.gz, case.v_enc.gz);
    let line = case_line(case, &w);
    let res = load_v(&w, case.n_e, case.n_v, case.verbose);
    let out = outcome_line(&res);
    ctx.emit(idx, line.clone(), out.clone());

    // distribution
    let wf = case.well_formed();
    // a well-formed network stored as a gzip file of several members: whatever goes wrong is reported
    // under the key of the dropped-members defect
    let multi = wf && (case.e_enc.members > 1 || case.v_enc.members > 1); // the other compression is loaded too
    let wf_key = |k: &'static str| -> &'static str { if multi { "read_utils/gzip-later-members-dropped" } else { k } };
    ctx.count(if wf { "files/well-formed" } else { "files/malformed" });
    if !wf {
        ctx.count(&format!("malformed/{}", case.kind));
    }
    ctx.count(match &res {
        Err(_) => "outcome/panic",
        Ok(Err(NetworkError::IOError { .. })) => "outcome/err-io",
        Ok(Err(NetworkError::DatasetError(_))) => "outcome/err-dataset",
        Ok(Err(NetworkError::CsvError { .. })) => "outcome/err-csv",
        Ok(Err(_)) => "outcome/err-other",
        Ok(Ok(_)) => "outcome/ok",
    });
    if case.e_enc.gz {
        ctx.count("encoding/edge-file-gzip");
    }
    if case.v_enc.gz {
        ctx.count("encoding/vertex-file-gzip");
    }
    if case.n_e.is_none() {
        ctx.count("counts/edges-scanned");
    }
    if case.n_v.is_none() {
        ctx.count("counts/vertices-scanned");
    }
    if case.v_enc.order.iter().enumerate().any(|(i, c)| i != *c) {
        ctx.count("encoding/vertex-columns-permuted");
    }
    if case.v_enc.n_extra > 0 {
        ctx.count("encoding/vertex-extra-columns");
    }
    if case.e_enc.order.iter().enumerate().any(|(i, c)| i != *c) {
        ctx.count("encoding/edge-columns-permuted");
    }
    if case.e_enc.crlf || case.v_enc.crlf {
        ctx.count("encoding/crlf");
    }
    if !case.e_enc.final_newline || !case.v_enc.final_newline {
        ctx.count("encoding/no-final-newline");
    }
    if wf {
        let nv = case.vertices.len();
        let mut dout = vec![0usize; nv];
        let mut din = vec![0usize; nv];
        let mut selfloop = false;
        let mut parallel = false;
        let mut seen = std::collections::BTreeSet::new();
        for r in &case.edges {
            dout[r.src] += 1;
            din[r.dst] += 1;
            selfloop |= r.src == r.dst;
            parallel |= !seen.insert((r.src, r.dst));
        }
        ctx.count(&format!("max-out-degree/{}", degree_bucket(dout.iter().cloned().max().unwrap_or(0))));
        ctx.count(&format!("max-in-degree/{}", degree_bucket(din.iter().cloned().max().unwrap_or(0))));
        if selfloop {
            ctx.count("shape/self-loop");
        }
        if parallel {
            ctx.count("shape/parallel-edges");
        }
        if (0..nv).any(|i| dout[i] == 0 && din[i] == 0) {
            ctx.count("shape/isolated-vertex");
        }
        ctx.count_n("edges-total", case.edges.len() as u64);
    }
    if !wf || !case.edges.is_empty() {
        ctx.nontrivial(&line);
    }

    // oracle
    match &res {
        Err(p) => ctx.fail(idx, "graph_loader/panic", format!("Graph::from_files panicked: {}", p)),
        Ok(Err(err)) => {
            if wf {
                ctx.fail(idx, wf_key("graph/load-error"), format!("well-formed files rejected: {}", err));
            } else if case.data_well_formed() {
                ctx.fail(
                    idx,
                    "graph_loader/scan-decides-gzip-by-extension",
                    format!("well-formed files whose names do not say how they are compressed are rejected: {}", err),
                );
            }
        }
        Ok(Ok(g)) => {
            let any_bad = (!case.e_enc.empty && case.edges.iter().any(|r| case.e_bad(r)))
                || (!case.v_enc.empty && case.vertices.iter().any(|r| case.v_bad(r)));
            if case.e_enc.absent || case.v_enc.absent {
                ctx.fail(idx, "graph_loader/missing-file-accepted", "a file is missing but the load succeeded".into());
            } else if case.e_enc.cut.is_some() || case.v_enc.cut.is_some() {
                ctx.fail(
                    idx,
                    "read_utils/truncated-gzip-accepted",
                    format!(
                        "a gzip file is cut short ({:?} / {:?}) but the load succeeded with {} edges and {} vertices ({} and {} are listed)",
                        case.e_enc.cut,
                        case.v_enc.cut,
                        g.n_edges(),
                        g.n_vertices(),
                        case.edges.len(),
                        case.vertices.len()
                    ),
                );
            } else if !(case.e_enc.empty || case.v_enc.empty) && (!w.e_header || !w.v_header) {
                ctx.fail(
                    idx,
                    "read_utils/header-without-columns-accepted",
                    format!("a header row does not name the required columns (edge file ok: {}, vertex file ok: {}) but the load succeeded with {} edges and {} vertices", w.e_header, w.v_header, g.n_edges(), g.n_vertices()),
                );
            } else if case.e_enc.empty || case.v_enc.empty {
                ctx.fail(
                    idx,
                    "read_utils/empty-file-accepted",
                    format!("a file has no content at all (counts {:?}/{:?}) but the load succeeded", case.n_e, case.n_v),
                );
            } else if any_bad {
                ctx.fail(idx, "graph_loader/undecodable-row-accepted", "a row does not decode but the load succeeded".into());
            } else {
                let edges: Vec<ERow> = if case.e_enc.empty { vec![] } else { case.edges.clone() };
                let vertices: Vec<VRow> = if case.v_enc.empty { vec![] } else { case.vertices.clone() };
                if let Some((aspect, msg)) = check_by_id(g, &edges, &vertices) {
                    if multi {
                        ctx.fail(idx, "read_utils/gzip-later-members-dropped", format!("[gzip members {}/{}] {}", case.e_enc.members, case.v_enc.members, msg));
                    } else if wf {
                        ctx.fail(idx, &format!("graph/{}", aspect), msg);
                    } else {
                        ctx.fail(idx, finding_key(case, &edges, &vertices, g.adj.len()), format!("[{}; {}] the load succeeds but {}", case.kind, aspect, msg));
                    }
                }
            }
        }
    }
    if wf {
        // gzip / plain parity: the other compression of the same text loads to the same network
        let w2 = write_case(dir, &format!("{}t", tag), rng, case, !case.e_enc.gz, !case.v_enc.gz);
        let out2 = outcome_line(&load(&w2, case.n_e, case.n_v));
        if out2 != out {
            ctx.fail(idx, wf_key("graph/gzip-parity"), format!("edge file gzip={} vertex file gzip={} loads differently from the other compression", case.e_enc.gz, case.v_enc.gz));
        }
        // explicit / scanned parity: the other way of giving the counts loads a network that matches the rows
        let n_e2 = if case.n_e.is_some() { None } else { Some(case.edges.len()) };
        let n_v2 = if case.n_v.is_some() { None } else { Some(case.vertices.len()) };
        match load(&w, n_e2, n_v2) {
            Ok(Ok(g2)) => {
                if let Some((aspect, msg)) = check_by_id(&g2, &case.edges, &case.vertices) {
                    ctx.fail(idx, wf_key("graph/count-parity"), format!("with counts {:?}/{:?}: {} {}", n_e2, n_v2, aspect, msg));
                }
            }
            Ok(Err(err)) => ctx.fail(idx, wf_key("graph/count-parity"), format!("with counts {:?}/{:?}: {}", n_e2, n_v2, err)),
            Err(p) => ctx.fail(idx, "graph_loader/panic", format!("with counts {:?}/{:?}: panic {}", n_e2, n_v2, p)),
        }
        let _ = std::fs::remove_file(&w2.e_path);
        let _ = std::fs::remove_file(&w2.v_path);
    }
    let _ = std::fs::remove_file(&w.e_path);
    let _ = std::fs::remove_file(&w.v_path);
}

// ------------------------------------------------------------------------------------------------
// per-edge tables through the real readers

fn run_table_case(ctx: &mut Ctx, idx: usize, dir: &Path, rng: &mut Rng, kind: usize, variant: usize) {
    let n = 1 + rng.below(if ctx.quick() { 40 } else { 400 });
    // variants: 0-2 a good file; 3 a row that does not decode; 4 an empty line (raw files) / a value out
    // of range (headings); 5 a byte that is not UTF-8; 6 gzip cut short; 7 several gzip members; 8 no file;
    // 9 an empty line after the last row
    let gz = match variant {
        6 | 7 => true,
        _ => rng.chance(1, 2),
    };
    // an empty line only exists when a line terminator follows it
    let final_newline = variant == 9 || variant == 4 || !rng.chance(1, 5);
    let names = ["speed", "grade", "class", "heading"];
    let path = dir.join(format!("t{}_{}.{}{}", idx, names[kind], if kind == 3 { "csv" } else { "txt" }, if gz { ".gz" } else { "" }));
    // payloads as 64-bit integers: f64 bits, the class, or the two headings packed
    let mut payload: Vec<Option<u64>> = vec![];
    let mut lines: Vec<Vec<u8>> = vec![];
    if kind == 3 {
        lines.push(b"arrival_heading,departure_heading".to_vec());
    }
    let bad_at = match variant {
        3 | 4 | 5 => Some(rng.below(n)),
        _ => None,
    };
    for i in 0..n {
        if bad_at == Some(i) {
            payload.push(None);
            let t: Vec<u8> = match (variant, kind) {
                (3, 0) => [&b"abc"[..], b"-3.5", b"12 kph"][rng.below(3)].to_vec(),
                (3, 1) => [&b"steep"[..], b"0,01"][rng.below(2)].to_vec(),
                (3, 2) => [&b"256"[..], b"-1", b"3.0", b"residential"][rng.below(4)].to_vec(),
                (3, _) => [&b"north,90"[..], b"90", b"12,13,14", b"1.5,2"][rng.below(4)].to_vec(),
                (4, 3) => [&b"40000,10"[..], b"10,-40000"][rng.below(2)].to_vec(),
                (4, _) => vec![],
                (_, 3) => vec![b'1', 0xff, b',', b'2'],
                _ => vec![b'1', 0xff],
            };
            lines.push(t);
            continue;
        }
        match kind {
            0 => {
                let x = if rng.chance(1, 2) { (5 + rng.below(120)) as f64 } else { rng.small_decimal(130, 2) + 0.5 };
                payload.push(Some(x.to_bits()));
                lines.push(format!("{}", x).into_bytes());
            }
            1 => {
                let x = if rng.chance(1, 5) { 0.0 } else { rng.uniform(-0.3, 0.3) };
                payload.push(Some(x.to_bits()));
                lines.push(format!("{}", x).into_bytes());
            }
            2 => {
                let x = rng.below(256) as u64;
                payload.push(Some(x));
                lines.push(format!("{}", x).into_bytes());
            }
            _ => {
                let a = rng.range(0, 359) as i16;
                let b = rng.range(0, 359) as i16;
                if rng.chance(1, 5) {
                    // no departure heading: it is the arrival heading
                    payload.push(Some(((a as u16 as u64) << 16) | (a as u16 as u64)));
                    lines.push(format!("{},", a).into_bytes());
                } else {
                    payload.push(Some(((a as u16 as u64) << 16) | (b as u16 as u64)));
                    lines.push(format!("{},{}", a, b).into_bytes());
                }
            }
        }
    }
    if variant == 9 && kind != 3 {
        // a raw file has no blank-line rule: the empty line is row n and does not decode
        payload.push(None);
        lines.push(vec![]);
    }
    let mut bytes: Vec<u8> = lines.join(&b"\n"[..]);
    if final_newline {
        bytes.push(b'\n');
    }
    let cut = if variant == 6 {
        Some(match rng.below(4) {
            0 => Cut::Header(2 + rng.below(8)),
            1 => Cut::Early(rng.below(11)),
            2 => Cut::Trailer(1 + rng.below(8)),
            _ => Cut::Frac(1 + rng.below(999)),
        })
    } else {
        None
    };
    let members = if variant == 7 { 2 + rng.below(3) } else { 1 };
    let readable = variant != 6 && variant != 8;
    if variant != 8 {
        if gz {
            let out = gz_bytes_raw(&bytes, members, cut);
            write_bytes(&path, &out);
        } else {
            write_bytes(&path, &bytes);
        }
    }
    let p2 = path.clone();
    // (rows, number of callback calls)
    let loaded: Result<(Result<Vec<u64>, String>, usize), ()> = std::panic::catch_unwind(move || {
        let mut calls = 0usize;
        let r = match kind {
            0 => read_utils::read_raw_file(&p2, read_decoders::default::<Speed>, Some(Box::new(|| calls += 1)))
                .map(|t| t.iter().map(|s| s.as_f64().to_bits()).collect())
                .map_err(|e| e.to_string()),
            1 => read_utils::read_raw_file(&p2, read_decoders::default::<Grade>, Some(Box::new(|| calls += 1)))
                .map(|t| t.iter().map(|g| g.as_f64().to_bits()).collect())
                .map_err(|e| e.to_string()),
            2 => read_utils::read_raw_file(&p2, read_decoders::u8, Some(Box::new(|| calls += 1)))
                .map(|t| t.iter().map(|c| *c as u64).collect())
                .map_err(|e| e.to_string()),
            _ => read_utils::from_csv::<EdgeHeading>(&p2, true, Some(Box::new(|_h: &EdgeHeading| calls += 1)))
                .map(|t| t.iter().map(|h| ((h.start_heading() as u16 as u64) << 16) | (h.end_heading() as u16 as u64)).collect())
                .map_err(|e| e.to_string()),
        };
        (r, calls)
    })
    .map_err(|_| ());
    // the same speed table through its real consumer, and every reader without a callback
    let p3 = path.clone();
    let second: Result<Result<Vec<u64>, String>, ()> = std::panic::catch_unwind(move || match kind {
        0 => SpeedTraversalEngine::new(&p3, SpeedUnit::KilometersPerHour, None, None)
            .map(|e| e.speed_table.iter().map(|s| s.as_f64().to_bits()).collect())
            .map_err(|e| e.to_string()),
        1 => read_utils::read_raw_file(&p3, read_decoders::default::<Grade>, None)
            .map(|t| t.iter().map(|g| g.as_f64().to_bits()).collect())
            .map_err(|e| e.to_string()),
        2 => read_utils::read_raw_file(&p3, read_decoders::u8, None)
            .map(|t| t.iter().map(|c| *c as u64).collect())
            .map_err(|e| e.to_string()),
        _ => read_utils::from_csv::<EdgeHeading>(&p3, true, None)
            .map(|t| t.iter().map(|h| ((h.start_heading() as u16 as u64) << 16) | (h.end_heading() as u16 as u64)).collect())
            .map_err(|e| e.to_string()),
    })
    .map_err(|_| ());
    let _ = std::fs::remove_file(&path);
    // probes: every edge id, one beyond, in a shuffled order
    let mut probes: Vec<usize> = (0..=n).collect();
    rng.shuffle(&mut probes);
    probes.truncate(12);
    let mut t: Vec<String> = vec![
        "table".into(),
        format!("{}:{}{}:v{}", names[kind], if gz { "gz" } else { "pl" }, if final_newline { "N" } else { "n" }, variant),
    ];
    t.push(if readable { "1" } else { "0" }.into());
    t.push(payload.len().to_string());
    t.extend(payload.iter().map(|p| match p {
        Some(p) => format!("r {}", p),
        None => "b".to_string(),
    }));
    t.push(probes.len().to_string());
    t.extend(probes.iter().map(|p| p.to_string()));
    let line = t.join(" ");
    let out = match &loaded {
        Ok((Ok(tab), calls)) => {
            let mut o = vec!["ok".to_string(), tab.len().to_string(), "cb".to_string(), calls.to_string()];
            for p in &probes {
                o.push(match tab.get(*p) {
                    Some(x) => format!("some {}", x),
                    None => "none".to_string(),
                });
            }
            o.join(" ")
        }
        Ok((Err(_), calls)) => {
            if readable {
                format!("err cb {}", calls)
            } else {
                "err".to_string()
            }
        }
        Err(_) => "panic".to_string(),
    };
    ctx.emit(idx, line.clone(), out);
    ctx.count(&format!("table/{}", names[kind]));
    ctx.count(&format!(
        "table-variant/{}",
        ["good", "good", "good", "undecodable-row", "empty-line-or-out-of-range", "not-utf8", "gzip-truncated", "gzip-members", "missing-file", "empty-line-at-end"][variant]
    ));
    ctx.nontrivial(&line);
    let expect_ok = payload.iter().all(|p| p.is_some()) && readable;
    match &loaded {
        Ok((Ok(tab), calls)) => {
            let want: Vec<u64> = payload.iter().flatten().cloned().collect();
            if !readable {
                ctx.fail(idx, "read_utils/truncated-gzip-accepted", format!("{} table: the file is cut short or missing but {} rows were loaded", names[kind], tab.len()));
            } else if !expect_ok {
                ctx.fail(idx, "table/undecodable-row-accepted", format!("{} table: a row does not decode but {} rows were loaded", names[kind], tab.len()));
            } else if tab.len() != want.len() {
                let key = if members > 1 { "read_utils/gzip-later-members-dropped" } else { "table/alignment" };
                ctx.fail(idx, key, format!("{} table: {} rows written, {} loaded", names[kind], want.len(), tab.len()));
            } else if let Some(i) = (0..want.len()).find(|&i| tab[i] != want[i]) {
                ctx.fail(idx, "table/alignment", format!("{} table: row {} written {} loaded {}", names[kind], i, want[i], tab[i]));
            } else if *calls != want.len() {
                ctx.fail(idx, "table/callback-count", format!("{} table: {} rows, {} callback calls", names[kind], want.len(), calls));
            }
        }
        Ok((Err(e), _)) => {
            if expect_ok {
                ctx.fail(idx, "table/load-error", format!("{} table rejected: {}", names[kind], e));
            }
        }
        Err(_) => ctx.fail(idx, "table/panic", format!("{} table reader panicked", names[kind])),
    }
    match (&loaded, &second) {
        (Ok((a, _)), Ok(b)) => {
            if a.as_ref().ok() != b.as_ref().ok() {
                ctx.fail(idx, "table/reader-parity", format!("{} table: with and without callback / through its consumer differ", names[kind]));
            }
        }
        (_, Err(_)) => ctx.fail(idx, "table/panic", format!("{} table consumer panicked", names[kind])),
        _ => {}
    }
}

// ------------------------------------------------------------------------------------------------
// a Graph value assembled field by field: every accessor, every error arm, whatever the fields say

/// reference semantics of the accessors in plain Rust over the raw fields (independent of the Lean model)
struct RefGraph {
    adj: Vec<Vec<(usize, usize)>>,
    rev: Vec<Vec<(usize, usize)>>,
    edges: Vec<(usize, usize, usize, f64)>,
    vertices: Vec<(usize, f32, f32)>,
}

impl RefGraph {
    fn keys(ins: &[(usize, usize)]) -> Vec<usize> {
        let mut out: Vec<usize> = vec![];
        for (k, _) in ins {
            if !out.contains(k) {
                out.push(*k);
            }
        }
        out
    }
    fn incident(&self, v: usize, fwd: bool) -> Vec<usize> {
        let t = if fwd { &self.adj } else { &self.rev };
        t.get(v).map(|m| RefGraph::keys(m)).unwrap_or_default()
    }
    fn v_out(&self, i: usize) -> Option<String> {
        self.vertices.get(i).map(|(id, x, y)| format!("{} {} {}", id, fbits(*x as f64), fbits(*y as f64)))
    }
    fn e_out(&self, i: usize) -> Option<String> {
        self.edges.get(i).map(|(id, s, d, x)| format!("{} {} {} {}", id, s, d, fbits(*x)))
    }
    fn opt(o: Option<String>, err: &str) -> String {
        match o {
            Some(s) => format!("s {}", s),
            None => err.to_string(),
        }
    }
    fn triplet(&self, e: usize) -> String {
        let Some((_, s, d, _)) = self.edges.get(e) else { return "ne".into() };
        let Some(sv) = self.v_out(*s) else { return "nv".into() };
        let Some(dv) = self.v_out(*d) else { return "nv".into() };
        format!("s {} {} {}", sv, self.e_out(e).unwrap(), dv)
    }
    fn triplet_ids(&self, v: usize, fwd: bool) -> Result<Vec<(usize, usize, usize)>, &'static str> {
        let mut out = vec![];
        for e in self.incident(v, fwd) {
            let Some((_, s, d, _)) = self.edges.get(e) else { return Err("ne") };
            out.push((v, e, if fwd { *d } else { *s }));
        }
        Ok(out)
    }
    fn triplet_attrs(&self, v: usize, fwd: bool) -> String {
        let ids = match self.triplet_ids(v, fwd) {
            Ok(l) => l,
            Err(e) => return e.to_string(),
        };
        let mut t = vec![ids.len().to_string()];
        for (a, e, b) in ids {
            let Some(av) = self.v_out(a) else { return "nv".into() };
            let Some(ev) = self.e_out(e) else { return "ne".into() };
            let Some(bv) = self.v_out(b) else { return "nv".into() };
            t.push(format!("{} {} {}", av, ev, bv));
        }
        format!("s {}", t.join(" "))
    }
    fn list(l: &[usize]) -> String {
        let mut t = vec![l.len().to_string()];
        t.extend(l.iter().map(|e| e.to_string()));
        t.join(" ")
    }
    fn out(&self) -> String {
        let ne = self.edges.len();
        let nv = self.vertices.len();
        let pv = nv.max(self.adj.len()).max(self.rev.len());
        let mut t: Vec<String> = vec!["ok".into(), ne.to_string(), nv.to_string(), self.adj.len().to_string(), self.rev.len().to_string()];
        for e in 0..=ne {
            t.push("e".into());
            t.push(RefGraph::opt(self.e_out(e), "ne"));
            let s = self.edges.get(e).map(|x| x.1.to_string());
            let d = self.edges.get(e).map(|x| x.2.to_string());
            t.push(RefGraph::opt(s.clone(), "ne"));
            t.push(RefGraph::opt(d.clone(), "ne"));
            t.push(RefGraph::opt(d, "ne"));
            t.push(RefGraph::opt(s, "ne"));
            t.push(self.triplet(e));
        }
        for v in 0..=pv {
            t.push("v".into());
            t.push(RefGraph::opt(self.v_out(v), "nv"));
            let o = self.incident(v, true);
            let i = self.incident(v, false);
            t.push(RefGraph::list(&o));
            t.push(RefGraph::list(&i));
            t.push(RefGraph::list(&o));
            t.push(RefGraph::list(&i));
            for fwd in [true, false] {
                t.push(match self.triplet_ids(v, fwd) {
                    Ok(l) => {
                        let mut u = vec![l.len().to_string()];
                        u.extend(l.iter().map(|(a, e, b)| format!("{} {} {}", a, e, b)));
                        format!("s {}", u.join(" "))
                    }
                    Err(e) => e.to_string(),
                });
            }
            t.push(self.triplet_attrs(v, true));
            t.push(self.triplet_attrs(v, false));
        }
        t.push("ids".into());
        t.push(RefGraph::list(&(0..ne).collect::<Vec<_>>()));
        t.push(RefGraph::list(&(0..nv).collect::<Vec<_>>()));
        t.join(" ")
    }
}

fn run_graph_case(ctx: &mut Ctx, idx: usize, rng: &mut Rng, consistent: bool) {
    use routee_compass_core::util::compact_ordered_hash_map::CompactOrderedHashMap;
    let ne = rng.below(9);
    let nv = rng.below(7);
    let span = 10usize;
    let mut r = RefGraph { adj: vec![], rev: vec![], edges: vec![], vertices: vec![] };
    for i in 0..nv {
        let (x, y) = coord(rng);
        r.vertices.push((if consistent { i } else { rng.below(span) }, x, y));
    }
    for i in 0..ne {
        let (s, d) = if consistent && nv > 0 { (rng.below(nv), rng.below(nv)) } else { (rng.below(span), rng.below(span)) };
        r.edges.push((if consistent { i } else { rng.below(span) }, s, d, nice_dist(rng)));
    }
    if consistent && nv > 0 {
        r.adj = vec![vec![]; nv];
        r.rev = vec![vec![]; nv];
        for (i, s, d, _) in r.edges.clone() {
            r.adj[s].push((i, d));
            r.rev[d].push((i, s));
        }
    } else {
        let na = rng.below(7);
        let nr = if rng.chance(1, 2) { na } else { rng.below(7) };
        let gen_entry = |rng: &mut Rng| -> Vec<(usize, usize)> {
            let len = *rng.pick(&[0usize, 1, 2, 3, 4, 5, 6, 7, 9, 12]);
            (0..len).map(|_| (rng.below(span), rng.below(span))).collect()
        };
        r.adj = (0..na).map(|_| gen_entry(rng)).collect();
        r.rev = (0..nr).map(|_| gen_entry(rng)).collect();
    }
    let build = |t: &Vec<Vec<(usize, usize)>>| -> Box<[CompactOrderedHashMap<EdgeId, VertexId>]> {
        t.iter()
            .map(|ins| {
                let mut m = CompactOrderedHashMap::empty();
                for (k, v) in ins {
                    m.insert(EdgeId(*k), VertexId(*v));
                }
                m
            })
            .collect::<Vec<_>>()
            .into_boxed_slice()
    };
    let adj_t = r.adj.clone();
    let rev_t = r.rev.clone();
    let edges_t = r.edges.clone();
    let vertices_t = r.vertices.clone();
    let out = std::panic::catch_unwind(move || {
        let g = Graph {
            adj: build(&adj_t),
            rev: build(&rev_t),
            edges: edges_t.iter().map(|(i, s, d, x)| Edge::new(*i, *s, *d, *x)).collect::<Vec<_>>().into_boxed_slice(),
            vertices: vertices_t.iter().map(|(i, x, y)| Vertex::new(*i, *x, *y)).collect::<Vec<_>>().into_boxed_slice(),
        };
        graph_out(&g)
    })
    .unwrap_or_else(|_| "panic".to_string());
    let tab = |t: &Vec<Vec<(usize, usize)>>| -> String {
        let mut u = vec![t.len().to_string()];
        for ins in t {
            u.push(ins.len().to_string());
            u.extend(ins.iter().map(|(k, v)| format!("{} {}", k, v)));
        }
        u.join(" ")
    };
    let mut t: Vec<String> = vec!["graph".into(), if consistent { "consistent" } else { "arbitrary" }.into()];
    t.push(tab(&r.adj));
    t.push(tab(&r.rev));
    t.push(r.edges.len().to_string());
    t.extend(r.edges.iter().map(|(i, s, d, x)| format!("{} {} {} {}", i, s, d, x.to_bits())));
    t.push(r.vertices.len().to_string());
    t.extend(r.vertices.iter().map(|(i, x, y)| format!("{} {} {}", i, (*x as f64).to_bits(), (*y as f64).to_bits())));
    let line = t.join(" ");
    ctx.emit(idx, line.clone(), out.clone());
    ctx.count(if consistent { "graph-value/consistent" } else { "graph-value/arbitrary" });
    for tag in [" ne", " nv"] {
        if out.contains(tag) {
            ctx.count(&format!("graph-value/error-arm{}", tag.replace(' ', "-")));
        }
    }
    ctx.nontrivial(&line);
    if out == "panic" {
        ctx.fail(idx, "graph/accessor-panic", "an accessor of Graph panicked".into());
    } else {
        let want = r.out();
        if want != out {
            let a: Vec<&str> = want.split(' ').collect();
            let b: Vec<&str> = out.split(' ').collect();
            let k = (0..a.len().min(b.len())).find(|&k| a[k] != b[k]).unwrap_or(a.len().min(b.len()));
            ctx.fail(idx, "graph/accessor", format!("accessor output differs from the reference at token {}: expected …{} got …{}", k, a[k.saturating_sub(6)..(k + 3).min(a.len())].join(" "), b[k.saturating_sub(6)..(k + 3).min(b.len())].join(" ")));
        }
    }
}

// ------------------------------------------------------------------------------------------------
// DefaultGraphBuilder::build: the graph section of a configuration

fn cfg_err_out(e: &CompassConfigurationError) -> String {
    use CompassConfigurationError as C;
    match e {
        C::ExpectedFieldForComponent(k, p) => format!("cfg field {} {}", hex(k), hex(p)),
        C::ExpectedFieldWithType(k, t) => format!("cfg type {} {}", hex(k), hex(t)),
        C::FileNotFoundForComponent(f, k, p) => format!("cfg notfound {} {} {}", hex(f), hex(k), hex(p)),
        C::SerdeDeserializationError(_) => "cfg serde".to_string(),
        C::GraphError(n) => format!(
            "cfg graph {}",
            match n {
                NetworkError::IOError { .. } => "err io",
                NetworkError::DatasetError(_) => "err dataset",
                NetworkError::CsvError { .. } => "err csv",
                _ => "err other",
            }
        ),
        _ => "cfg other".to_string(),
    }
}

fn run_build_case(ctx: &mut Ctx, idx: usize, dir: &Path, rng: &mut Rng, mutation: usize) {
    use serde_json::{json, Value};
    // files: mostly well-formed, sometimes malformed (the loader's errors must come through)
    let mut case = if mutation == 1 {
        let which = MALFORMED[rng.below(MALFORMED.len())];
        gen_malformed(rng, which)
    } else {
        gen_well_formed(rng, false)
    };
    case.e_enc.nonutf8_name = false;
    case.v_enc.nonutf8_name = false;
    let tag = format!("b{}", idx);
    let w = write_case(dir, &tag, rng, &case, case.e_enc.gz, case.v_enc.gz);
    let mut obj = serde_json::Map::new();
    // keys in a random order, with bystanders
    let mut keys: Vec<&str> = vec!["edge_list_input_file", "vertex_list_input_file", "n_edges", "n_vertices", "verbose", "comment"];
    rng.shuffle(&mut keys);
    for k in keys {
        match k {
            "edge_list_input_file" => {
                obj.insert(k.into(), json!(w.e_path.to_string_lossy()));
            }
            "vertex_list_input_file" => {
                obj.insert(k.into(), json!(w.v_path.to_string_lossy()));
            }
            "n_edges" => {
                if let Some(n) = case.n_e {
                    obj.insert(k.into(), json!(n));
                }
            }
            "n_vertices" => {
                if let Some(n) = case.n_v {
                    obj.insert(k.into(), json!(n));
                }
            }
            "verbose" => {
                if let Some(b) = case.verbose {
                    obj.insert(k.into(), json!(b));
                }
            }
            _ => {
                if rng.chance(1, 2) {
                    obj.insert(k.into(), json!("bystander"));
                }
            }
        }
    }
    // what is wrong with the configuration (None: nothing)
    let mut wrong: Option<&'static str> = None; // the key an error must name
    let mut invalid = false;
    let wrong_values = |rng: &mut Rng| -> Value {
        match rng.below(7) {
            0 => Value::Null,
            1 => json!(17),
            2 => json!(true),
            3 => json!(["a.csv"]),
            4 => json!({"file": "a.csv"}),
            5 => json!(2.5),
            _ => json!(-1),
        }
    };
    let mut params = Value::Object(obj);
    match mutation {
        2 | 3 => {
            // a required key is missing / has the wrong type
            let k = if rng.chance(1, 2) { "edge_list_input_file" } else { "vertex_list_input_file" };
            if mutation == 2 {
                params.as_object_mut().unwrap().shift_remove(k);
            } else {
                let v = wrong_values(rng);
                params.as_object_mut().unwrap().insert(k.into(), v);
            }
            wrong = Some(k);
            invalid = true;
            // when both are wrong the first one checked is reported
            if rng.chance(1, 4) {
                params.as_object_mut().unwrap().shift_remove("edge_list_input_file");
                wrong = Some("edge_list_input_file");
            }
        }
        4 => {
            // the path is not a file: it does not exist, is a directory, or is the empty string
            let k = if rng.chance(1, 2) { "edge_list_input_file" } else { "vertex_list_input_file" };
            let p = match rng.below(3) {
                0 => dir.join(format!("{}_nowhere.csv", tag)).to_string_lossy().to_string(),
                1 => dir.to_string_lossy().to_string(),
                _ => String::new(),
            };
            params.as_object_mut().unwrap().insert(k.into(), json!(p));
            wrong = Some(k);
            invalid = true;
        }
        5 => {
            // a count / the verbose flag of the wrong type
            let k = ["n_edges", "n_vertices", "verbose"][rng.below(3)];
            let v = if k == "verbose" {
                [Value::Null, json!("true"), json!(1), json!([true])][rng.below(4)].clone()
            } else {
                [Value::Null, json!("12"), json!(-3), json!(2.0), json!(1e30), json!([3]), json!(true)][rng.below(7)].clone()
            };
            params.as_object_mut().unwrap().insert(k.into(), v);
            invalid = true;
        }
        6 => {
            // the section is not an object at all
            params = [Value::Null, json!([]), json!("graph"), json!(3), json!([{"edge_list_input_file": "a"}])][rng.below(5)].clone();
            wrong = Some("edge_list_input_file");
            invalid = true;
        }
        7 => {
            // explicit counts that disagree with the files
            let ne = case.edges.len();
            let nv = case.vertices.len();
            let o = params.as_object_mut().unwrap();
            match rng.below(4) {
                0 => {
                    o.insert("n_edges".into(), json!(ne + 1 + rng.below(50)));
                }
                1 => {
                    o.insert("n_edges".into(), json!(rng.below(ne + 1)));
                }
                2 => {
                    o.insert("n_vertices".into(), json!(nv + 1 + rng.below(50)));
                }
                _ => {
                    o.insert("n_vertices".into(), json!(rng.below(nv + 1)));
                }
            }
        }
        _ => {}
    }
    let p2 = params.clone();
    let res = std::panic::catch_unwind(move || DefaultGraphBuilder::build(&p2));
    let out = match &res {
        Err(_) => "panic".to_string(),
        Ok(Err(e)) => cfg_err_out(e),
        Ok(Ok(g)) => graph_out(g),
    };
    let is_file = |k: &str| -> bool { params.get(k).and_then(|v| v.as_str()).map(|s| Path::new(s).is_file()).unwrap_or(false) };
    let mut t: Vec<String> = vec!["build".into(), enc(&params)];
    t.push(if is_file("edge_list_input_file") { "1" } else { "0" }.into());
    t.push(if is_file("vertex_list_input_file") { "1" } else { "0" }.into());
    t.extend(file_spec_tokens(&case, &w));
    let line = t.join(" ");
    ctx.emit(idx, line.clone(), out.clone());
    ctx.count(&format!(
        "builder/{}",
        ["valid", "malformed-files", "required-key-missing", "required-key-wrong-type", "path-not-a-file", "count-or-flag-wrong-type", "section-not-an-object", "counts-disagree-with-files"][mutation]
    ));
    ctx.nontrivial(&line);
    // oracle
    match &res {
        Err(_) => ctx.fail(idx, "graph_builder/panic", "DefaultGraphBuilder::build panicked".into()),
        Ok(Err(e)) => {
            let text = e.to_string();
            if let Some(k) = wrong {
                if !text.contains(k) {
                    ctx.fail(idx, "graph_builder/error-names-wrong-field", format!("the configuration is wrong at '{}' but the error says: {}", k, text.replace('\n', " ")));
                }
            } else if !invalid && mutation != 1 && mutation != 7 {
                ctx.fail(idx, "graph_builder/load-error", format!("valid configuration and files rejected: {}", text.replace('\n', " ")));
            }
        }
        Ok(Ok(g)) => {
            if invalid {
                ctx.fail(idx, "graph_builder/invalid-config-accepted", format!("the configuration is invalid ({}) but a graph was built", params));
            } else if mutation == 0 || mutation == 7 {
                if let Some((aspect, msg)) = check_by_id(g, &case.edges, &case.vertices) {
                    ctx.fail(idx, &format!("graph_builder/{}", aspect), msg);
                }
            }
        }
    }
    let _ = std::fs::remove_file(&w.e_path);
    let _ = std::fs::remove_file(&w.v_path);
}

// ------------------------------------------------------------------------------------------------
// the hand-written Deserialize of Vertex, entry by entry

fn classify_vertex_error(msg: &str) -> &'static str {
    if msg.contains("unable to parse vertex_id") {
        "err parse-id"
    } else if msg.contains("unable to parse x") {
        "err parse-x"
    } else if msg.contains("unable to parse y") {
        "err parse-y"
    } else if msg.contains("failed to deserialize Vertex") {
        "err incomplete"
    } else if msg.contains("expected a vertex_id, x, and y field") {
        "err not-map"
    } else if msg.contains("invalid type") {
        "err entry"
    } else if msg.contains("trailing") || msg.contains("expected `,` or `}`") || msg.contains("fewer elements") {
        "err trailing"
    } else {
        "err other"
    }
}

fn run_vrow_case(ctx: &mut Ctx, idx: usize, dir: &Path, rng: &mut Rng, format: usize) {
    // format 0: csv with a header row; 1: csv without (the deserializer offers a sequence); 2: a JSON object;
    // 3: JSON that is not an object
    let key_pool = ["vertex_id", "x", "y", "z", "name", "X", "Y", "vertex", "id", "x ", " y", "vertex_id"];
    let int_pool = ["0", "17", "+4", "007", "4294967296", "-1", "1.5", "abc", "", "18446744073709551616"];
    let flt_pool = ["1.5", "-105.25", "39", "NaN", "inf", "-inf", "1e39", "1e-50", "+2.5", ".5", "5.", "abc", "", "1.5f", "0x10"];
    let tidy = rng.chance(1, 2); // exactly the three columns plus bystanders, all cells parseable
    let mut entries: Vec<(String, String, bool)> = vec![]; // key, cell text, readable as a pair of strings
    if tidy {
        entries.push(("vertex_id".into(), int_pool[rng.below(5)].into(), true));
        entries.push(("x".into(), flt_pool[rng.below(11)].into(), true));
        entries.push(("y".into(), flt_pool[rng.below(11)].into(), true));
        for k in 0..rng.below(4) {
            let cell = if rng.chance(1, 2) { flt_pool[rng.below(flt_pool.len())] } else { "some text" };
            entries.push((["z", "name", "X", "comment"][k].into(), cell.into(), true));
        }
        rng.shuffle(&mut entries);
    } else {
        let n = 2 + rng.below(6);
        for _ in 0..n {
            let k = key_pool[rng.below(key_pool.len())];
            let cell = match k {
                "vertex_id" => int_pool[rng.below(int_pool.len())],
                _ => flt_pool[rng.below(flt_pool.len())],
            };
            entries.push((k.into(), cell.into(), !(format == 2 && rng.chance(1, 8))));
        }
    }
    let pad = format == 0 && rng.chance(1, 4);
    let (result, not_map): (Result<Result<Option<Vertex>, String>, ()>, bool) = match format {
        0 | 1 => {
            let path = dir.join(format!("v{}_row.csv", idx));
            let header: Vec<String> = entries.iter().map(|e| e.0.clone()).collect();
            let cells: Vec<String> = entries.iter().map(|e| if pad { format!(" {}  ", e.1) } else { e.1.clone() }).collect();
            let text = if format == 0 { format!("{}\n{}\n", header.join(","), cells.join(",")) } else { format!("{}\n", cells.join(",")) };
            write_bytes(&path, text.as_bytes());
            let p2 = path.clone();
            let r = std::panic::catch_unwind(move || {
                read_utils::from_csv::<Vertex>(&p2, format == 0, None).map(|b| b.first().copied()).map_err(|e| e.to_string())
            })
            .map_err(|_| ());
            let _ = std::fs::remove_file(&path);
            (r, format == 1)
        }
        2 => {
            let body: Vec<String> = entries
                .iter()
                .map(|(k, c, ok)| if *ok { format!("\"{}\":\"{}\"", k, c) } else { format!("\"{}\":{}", k, [ "1", "null", "true", "[]", "1.5"][rng.below(5)]) })
                .collect();
            let text = format!("{{{}}}", body.join(","));
            let r = std::panic::catch_unwind(move || serde_json::from_str::<Vertex>(&text).map(Some).map_err(|e| e.to_string())).map_err(|_| ());
            (r, false)
        }
        _ => {
            let text = ["[\"0\",\"1\",\"2\"]", "\"vertex\"", "3", "null", "true"][rng.below(5)].to_string();
            let r = std::panic::catch_unwind(move || serde_json::from_str::<Vertex>(&text).map(Some).map_err(|e| e.to_string())).map_err(|_| ());
            (r, true)
        }
    };
    let out = match &result {
        Err(_) => "panic".to_string(),
        Ok(Err(m)) => classify_vertex_error(m).to_string(),
        Ok(Ok(None)) => "none".to_string(),
        Ok(Ok(Some(v))) => format!("ok {}", vertex_out(v)),
    };
    // what the standard parsers make of a cell (the csv reader trims the fields, not the header)
    let seen = |c: &str| -> String { if format == 0 { c.trim().to_string() } else { c.to_string() } };
    let mut t: Vec<String> = vec!["vrow".into(), ["csv-header", "csv-no-header", "json", "json-not-object"][format].into()];
    t.push(if format >= 2 { "1" } else { "0" }.into());
    if not_map {
        t.push("n".into());
    } else {
        t.push("s".into());
        t.push(entries.len().to_string());
        for (k, c, ok) in &entries {
            if !*ok {
                t.push("e".into());
                continue;
            }
            let c = seen(c);
            t.push(format!(
                "k {} {} {}",
                hex(k),
                match c.parse::<usize>() {
                    Ok(n) => format!("s {}", n),
                    Err(_) => "n".into(),
                },
                match c.parse::<f32>() {
                    Ok(x) => format!("s {}", (x as f64).to_bits()),
                    Err(_) => "n".into(),
                }
            ));
        }
    }
    let line = t.join(" ");
    ctx.emit(idx, line.clone(), out.clone());
    ctx.count(&format!("vertex-row/{}", ["csv-header", "csv-no-header", "json", "json-not-object"][format]));
    ctx.count(&format!("vertex-row-outcome/{}", out.split(' ').take(2).collect::<Vec<_>>().join("-").replace("ok-", "ok ").split(' ').next().unwrap_or("")));
    ctx.nontrivial(&line);
    // oracle: with exactly one vertex_id, x and y column, all parseable, the vertex is the listed one in any
    // column order and with any bystander columns (csv); an unparseable one among them is an error
    if format == 0 {
        let named = |k: &str| -> Vec<&(String, String, bool)> { entries.iter().filter(|e| e.0 == k).collect() };
        let (i, x, y) = (named("vertex_id"), named("x"), named("y"));
        if i.len() == 1 && x.len() == 1 && y.len() == 1 {
            let pi = i[0].1.trim().parse::<usize>();
            let px = x[0].1.trim().parse::<f32>();
            let py = y[0].1.trim().parse::<f32>();
            match (&result, pi, px, py) {
                (Ok(Ok(Some(v))), Ok(pi), Ok(px), Ok(py)) => {
                    if v.vertex_id.0 != pi || v.x().to_bits() != px.to_bits() || v.y().to_bits() != py.to_bits() {
                        ctx.fail(idx, "vertex/column-order", format!("columns {:?}: decoded {} but the row lists ({}, {}, {})", entries, v, pi, px, py));
                    }
                }
                (Ok(Ok(Some(v))), _, _, _) => ctx.fail(idx, "vertex/unparseable-cell-accepted", format!("columns {:?}: decoded {}", entries, v)),
                (Ok(Err(m)), Ok(_), Ok(_), Ok(_)) => ctx.fail(idx, "vertex/column-order", format!("columns {:?}: rejected: {}", entries, m)),
                (Err(_), _, _, _) => ctx.fail(idx, "vertex/panic", "the Vertex deserializer panicked".into()),
                _ => {}
            }
        }
    }
    if out == "err other" {
        ctx.fail(idx, "vertex/unclassified-error", format!("{:?}", result));
    }
}

fn run_ctor_cases(ctx: &mut Ctx, rng_seed: u64) {
    for k in 0..6 {
        let Some(idx) = ctx.begin() else { continue };
        let mut rng = Rng::for_case(rng_seed, 15, idx as u64);
        match k % 3 {
            0 => {
                let (i, s, d, x) = (rng.below(1000), rng.below(1000), rng.below(1000), nice_dist(&mut rng));
                let e = Edge::new(i, s, d, x);
                ctx.emit(idx, format!("ctor edge {} {} {} {}", i, s, d, x.to_bits()), edge_out(&e));
                if e.edge_id.0 != i || e.src_vertex_id.0 != s || e.dst_vertex_id.0 != d || e.distance.as_f64().to_bits() != x.to_bits() {
                    ctx.fail(idx, "edge/new", format!("Edge::new({}, {}, {}, {}) = {:?}", i, s, d, x, e));
                }
            }
            1 => {
                let e = Edge::default();
                ctx.emit(idx, "ctor edge-default".to_string(), edge_out(&e));
                if e.edge_id.0 != 0 || e.src_vertex_id.0 != 0 || e.dst_vertex_id.0 != 1 || e.distance.as_f64() != 1.0 {
                    ctx.fail(idx, "edge/default", format!("Edge::default() = {:?}", e));
                }
            }
            _ => {
                let (x, y) = coord(&mut rng);
                let i = rng.below(1000);
                let v = Vertex::new(i, x, y);
                let (tx, ty) = v.to_tuple_underlying();
                ctx.emit(
                    idx,
                    format!("ctor vertex {} {} {}", i, (x as f64).to_bits(), (y as f64).to_bits()),
                    format!("{} {} {}", vertex_out(&v), fbits(tx as f64), fbits(ty as f64)),
                );
                let shown = format!("{}", v);
                if shown != format!("Vertex {} ({},{})", i, x, y) || tx.to_bits() != x.to_bits() || ty.to_bits() != y.to_bits() {
                    ctx.fail(idx, "vertex/new-display", format!("Vertex::new({}, {}, {}) shows as {} with tuple ({}, {})", i, x, y, shown, tx, ty));
                }
            }
        }
        ctx.count("constructors");
    }
}

// ------------------------------------------------------------------------------------------------
// the consumers of the per-edge tables: the real lookups at edge ids inside and beyond the table

fn run_lookup_case(ctx: &mut Ctx, idx: usize, dir: &Path, rng: &mut Rng, kind: usize) {
    use routee_compass::app::compass::config::frontier_model::road_class::road_class_model::RoadClassFrontierModel;
    use routee_compass::app::compass::config::frontier_model::road_class::road_class_parser::RoadClassParser;
    use routee_compass::app::compass::config::frontier_model::road_class::road_class_service::RoadClassFrontierService;
    use routee_compass_core::model::access::default::turn_delays::turn_delay_access_model_engine::get_headings;
    use routee_compass_core::model::frontier::frontier_model::FrontierModel;
    use routee_compass_core::model::state::state_model::StateModel;
    use routee_compass_core::model::traversal::default::speed_traversal_model::get_speed;
    use routee_compass_powertrain::routee::energy_model_ops::get_grade;
    // kinds: 0 speed, 1 heading, 2 grade with a table, 3 grade without, 4 road class with a restriction, 5 without
    let names = ["speed", "heading", "grade", "grade", "class", "class"];
    let n = 1 + rng.below(30);
    let gz = rng.chance(1, 2);
    let path = dir.join(format!("l{}_{}.{}{}", idx, names[kind], if kind == 1 { "csv" } else { "txt" }, if gz { ".gz" } else { "" }));
    let mut payload: Vec<u64> = vec![];
    let mut lines: Vec<String> = vec![];
    if kind == 1 {
        lines.push("arrival_heading,departure_heading".into());
    }
    for _ in 0..n {
        match kind {
            0 => {
                let x = (5 + rng.below(120)) as f64 + 0.25 * rng.below(4) as f64;
                payload.push(x.to_bits());
                lines.push(format!("{}", x));
            }
            1 => {
                let a = rng.range(0, 359) as i16;
                let b = rng.range(0, 359) as i16;
                payload.push(((a as u16 as u64) << 16) | (b as u16 as u64));
                lines.push(format!("{},{}", a, b));
            }
            2 | 3 => {
                let x = rng.uniform(-0.3, 0.3);
                payload.push(x.to_bits());
                lines.push(format!("{}", x));
            }
            _ => {
                let x = rng.below(8) as u64;
                payload.push(x);
                lines.push(format!("{}", x));
            }
        }
    }
    let text = lines.join("\n") + "\n";
    write_file(&path, &text, gz);
    let allowed: Option<Vec<u8>> = if kind == 4 { Some((0..8u8).filter(|_| rng.chance(1, 2)).collect()) } else { None };
    // edge ids inside the table, its last row, the first id beyond it, and far beyond
    let mut probes: Vec<usize> = (0..n + 3).collect();
    probes.push(n + 1000);
    probes.push(usize::MAX);
    rng.shuffle(&mut probes);
    probes.truncate(14);
    let p2 = path.clone();
    let probes2 = probes.clone();
    let allowed2 = allowed.clone();
    let res: Result<Result<Vec<Result<u64, ()>>, String>, ()> = std::panic::catch_unwind(move || -> Result<Vec<Result<u64, ()>>, String> {
        let out = match kind {
            0 => {
                let engine = SpeedTraversalEngine::new(&p2, SpeedUnit::KilometersPerHour, None, None).map_err(|e| e.to_string())?;
                probes2.iter().map(|e| get_speed(&engine.speed_table, EdgeId(*e)).map(|s| s.as_f64().to_bits()).map_err(|_| ())).collect()
            }
            1 => {
                let t = read_utils::from_csv::<EdgeHeading>(&p2, true, None).map_err(|e| e.to_string())?;
                probes2
                    .iter()
                    .map(|e| get_headings(&t, EdgeId(*e)).map(|h| ((h.start_heading() as u16 as u64) << 16) | (h.end_heading() as u16 as u64)).map_err(|_| ()))
                    .collect()
            }
            2 | 3 => {
                let t: Option<Box<[Grade]>> = if kind == 2 {
                    Some(read_utils::read_raw_file(&p2, read_decoders::default::<Grade>, None).map_err(|e| e.to_string())?)
                } else {
                    None
                };
                probes2.iter().map(|e| get_grade(&t, EdgeId(*e)).map(|g| g.as_f64().to_bits()).map_err(|_| ())).collect()
            }
            _ => {
                let t: Box<[u8]> = read_utils::read_raw_file(&p2, read_decoders::u8, None).map_err(|e| e.to_string())?;
                let model = RoadClassFrontierModel {
                    service: std::sync::Arc::new(RoadClassFrontierService { road_class_lookup: std::sync::Arc::new(t), road_class_parser: RoadClassParser::default() }),
                    road_classes: allowed2.map(|a| a.into_iter().collect()),
                };
                let sm = StateModel::empty();
                probes2
                    .iter()
                    .map(|e| model.valid_frontier(&Edge::new(*e, 0, 0, 1.0), &[], None, &sm).map(|b| b as u64).map_err(|_| ()))
                    .collect()
            }
        };
        Ok(out)
    })
    .map_err(|_| ());
    let _ = std::fs::remove_file(&path);
    let mut t: Vec<String> = vec!["lookup".into(), names[kind].into()];
    if kind == 3 {
        t.push("n".into());
    } else {
        t.push("s".into());
        t.push(n.to_string());
        t.extend(payload.iter().map(|p| p.to_string()));
    }
    match &allowed {
        None => t.push("n".into()),
        Some(a) => {
            t.push("s".into());
            t.push(a.len().to_string());
            t.extend(a.iter().map(|c| c.to_string()));
        }
    }
    t.push(probes.len().to_string());
    t.extend(probes.iter().map(|p| p.to_string()));
    let line = t.join(" ");
    let out = match &res {
        Err(_) => "panic".to_string(),
        Ok(Err(_)) => "err".to_string(),
        Ok(Ok(v)) => v
            .iter()
            .zip(probes.iter())
            .map(|(r, e)| match r {
                Ok(x) => format!("s {}", x),
                Err(_) => format!("m {}", e),
            })
            .collect::<Vec<_>>()
            .join(" "),
    };
    ctx.emit(idx, line.clone(), out);
    ctx.count(&format!("lookup/{}{}", names[kind], if kind == 3 || kind == 5 { "-unrestricted" } else { "" }));
    ctx.nontrivial(&line);
    // oracle: the consumer's answer for edge e is what line e of the file says; no line, no answer
    match &res {
        Err(_) => ctx.fail(idx, "table/lookup-panic", format!("{} lookup panicked", names[kind])),
        Ok(Err(e)) => ctx.fail(idx, "table/load-error", format!("{} table rejected: {}", names[kind], e)),
        Ok(Ok(v)) => {
            for (r, e) in v.iter().zip(probes.iter()) {
                let want: Result<u64, ()> = match kind {
                    3 => Ok(0f64.to_bits()),
                    5 => Ok(1),
                    4 => payload.get(*e).map(|c| allowed.as_ref().unwrap().contains(&(*c as u8)) as u64).ok_or(()),
                    _ => payload.get(*e).cloned().ok_or(()),
                };
                if *r != want {
                    ctx.fail(idx, "table/consumer-alignment", format!("{} lookup for edge {}: expected {:?} (line {} of {} lines) got {:?}", names[kind], e, want, e, n, r));
                    break;
                }
            }
        }
    }
}

/// a declared vertex count beyond what a vector can hold: a DatasetError (`vec![..; n_vertices]` panicked
/// with "capacity overflow" in EdgeLoader::try_from before the repair).  Only counts above
/// isize::MAX / size_of(entry) are tried: below that limit the allocation itself would be attempted
/// and could abort the process.
fn run_loadcap_case(ctx: &mut Ctx, idx: usize, dir: &Path, rng: &Rng, k: usize) {
    use routee_compass_core::util::compact_ordered_hash_map::CompactOrderedHashMap;
    let size = std::mem::size_of::<CompactOrderedHashMap<EdgeId, VertexId>>();
    let cap = isize::MAX as usize / size;
    let mut case = Case {
        kind: "declared-nv-huge",
        edges: vec![e(0, 0, 1, 7.0), e(1, 1, 0, 9.0)],
        vertices: grid_vertices(2),
        n_e: Some(2),
        n_v: Some([usize::MAX, usize::MAX / 2, cap + 1, cap + 2, usize::MAX - 7][k % 5]),
        e_enc: Enc::plain(4),
        v_enc: Enc::plain(3),
        verbose: None,
    };
    match k / 5 {
        1 => case.n_e = None,
        2 => case.e_enc.absent = true, // the count comes first: still the panic with a declared edge count
        3 => {
            // a scanned edge count of a missing file fails before the tables are allocated
            case.e_enc.absent = true;
            case.n_e = None;
        }
        4 => case.n_v = Some(2), // an ordinary count under the same entry point
        _ => {}
    }
    let tag = format!("h{}", idx);
    let w = write_case(dir, &tag, rng, &case, false, false);
    let res = load_v(&w, case.n_e, case.n_v, None);
    let out = match &res {
        Err(p) if p.contains("capacity overflow") => "panic capacity".to_string(),
        _ => outcome_line(&res),
    };
    let mut t: Vec<String> = vec!["loadcap".into(), format!("size{}", size), cap.to_string(), opt_tok(case.n_e), opt_tok(case.n_v)];
    t.extend(file_spec_tokens(&case, &w));
    let line = t.join(" ");
    ctx.emit(idx, line.clone(), out.clone());
    ctx.count("declared-count-beyond-capacity");
    ctx.nontrivial(&line);
    if out.starts_with("panic") {
        ctx.fail(idx, "edge_loader/huge-declared-count-panics", format!("n_vertices = {:?}: Graph::from_files panicked ({}) instead of returning an error", case.n_v, match &res { Err(p) => p.clone(), _ => String::new() }));
    }
    let _ = std::fs::remove_file(&w.e_path);
    let _ = std::fs::remove_file(&w.v_path);
}

pub fn run(ctx: &mut Ctx) -> &'static str {
    let dir = std::env::current_dir().unwrap().join("work").join(format!("c15_scratch_{}", std::process::id()));
    std::fs::create_dir_all(&dir).expect("scratch dir");

    for case in corpus() {
        let Some(idx) = ctx.begin() else { continue };
        let rng = Rng::for_case(ctx.seed, 15, idx as u64);
        run_load_case(ctx, idx, &dir, &case, &rng);
    }
    let n_wf = ctx.n(1500, 24000);
    for k in 0..n_wf {
        let Some(idx) = ctx.begin() else { continue };
        let mut rng = Rng::for_case(ctx.seed, 15, idx as u64);
        let big = !ctx.quick() && k % 4 == 0;
        let case = gen_well_formed(&mut rng, big);
        run_load_case(ctx, idx, &dir, &case, &rng);
    }
    let n_mal = ctx.n(540, 7200);
    for k in 0..n_mal {
        let Some(idx) = ctx.begin() else { continue };
        let mut rng = Rng::for_case(ctx.seed, 15, idx as u64);
        let case = gen_malformed(&mut rng, MALFORMED[k % MALFORMED.len()]);
        run_load_case(ctx, idx, &dir, &case, &rng);
    }
    let n_tab = ctx.n(240, 3000);
    for k in 0..n_tab {
        let Some(idx) = ctx.begin() else { continue };
        let mut rng = Rng::for_case(ctx.seed, 15, idx as u64);
        run_table_case(ctx, idx, &dir, &mut rng, k % 4, (k / 4) % 10);
    }
    let n_graph = ctx.n(300, 6000);
    for k in 0..n_graph {
        let Some(idx) = ctx.begin() else { continue };
        let mut rng = Rng::for_case(ctx.seed, 15, idx as u64);
        run_graph_case(ctx, idx, &mut rng, k % 4 == 0);
    }
    let n_build = ctx.n(240, 3200);
    for k in 0..n_build {
        let Some(idx) = ctx.begin() else { continue };
        let mut rng = Rng::for_case(ctx.seed, 15, idx as u64);
        run_build_case(ctx, idx, &dir, &mut rng, k % 8);
    }
    let n_vrow = ctx.n(600, 12000);
    for k in 0..n_vrow {
        let Some(idx) = ctx.begin() else { continue };
        let mut rng = Rng::for_case(ctx.seed, 15, idx as u64);
        run_vrow_case(ctx, idx, &dir, &mut rng, [0, 0, 0, 2, 0, 2, 1, 3][k % 8]);
    }
    run_ctor_cases(ctx, ctx.seed);
    let n_lookup = ctx.n(180, 2400);
    for k in 0..n_lookup {
        let Some(idx) = ctx.begin() else { continue };
        let mut rng = Rng::for_case(ctx.seed, 15, idx as u64);
        run_lookup_case(ctx, idx, &dir, &mut rng, k % 6);
    }
    for k in 0..25 {
        let Some(idx) = ctx.begin() else { continue };
        let rng = Rng::for_case(ctx.seed, 15, idx as u64);
        run_loadcap_case(ctx, idx, &dir, &rng, k);
    }
    let _ = std::fs::remove_dir_all(&dir);
    "edge/vertex CSV files written by the harness (plain and gzip with one or several members; BOM; permuted and extra columns in both files, padding, quoting, CRLF, missing final newline, trailing blank lines, embedded newlines; lengths and coordinates that are NaN, infinite, negative, zero, out of the f32 range or spelt differently; vertex degrees 0-12 and above, parallel edges, self loops, isolated vertices; explicit and scanned counts; verbose on/off) loaded with the real Graph::from_files, every accessor printed for every edge/vertex id and one id beyond each range; 20 kinds of malformed input (ids not row numbers or at the top of the usize range, endpoints without vertex, wrong declared counts, missing column, undecodable cell, short row, missing or empty file, gzip cut short in its header / first block / body / trailer, lone-CR line endings, compression not matching the file name); Graph values assembled field by field (inconsistent on purpose) for every accessor and error arm; DefaultGraphBuilder::build over configuration sections (valid, keys missing or ill-typed, paths that are not files, ill-typed counts, non-object sections, counts disagreeing with the files); the Vertex deserializer entry by entry (csv with and without header row, JSON); constructors; per-edge tables (speed, grade, road class, heading) read by the real readers with and without callback, with undecodable rows, bytes that are not UTF-8, truncated and multi-member gzip, missing files; the real consumers of those tables (get_speed, get_headings, get_grade with and without a table, RoadClassFrontierModel::valid_frontier with and without a restriction) at edge ids inside and beyond the table; declared vertex counts beyond the capacity of a vector; non-trivial = a network with at least one edge, a malformed input, a Graph value, a configuration, a vertex row, or a table; distinct by full case text"
}
