//! C15 — the loaded network is exactly the one described by the edge/vertex files.
//!
//! The harness WRITES edge and vertex CSV files (plain and gzip; permuted columns, extra columns,
//! padding, quoting, CRLF, missing final newline, trailing blank lines), loads them with the real
//! `Graph::from_files` and prints every accessor for every edge and vertex (and one id beyond each
//! range).  The Lean model (`Compass.Model.Graph`) builds the same graph from the same records.
//! File decoding (csv, gzip, line counting) is not modelled: the case line carries the decoded
//! records, which rows do not decode, and the number of text lines.
//!
//! Oracle (independent of the model): adjacency, endpoints, lengths and coordinates recomputed from the
//! raw rows *by id*; forward and reverse views describe the same edge multiset; gzip/plain parity;
//! explicit/scanned count parity; per-edge tables read with the real readers are aligned by row.  A load
//! that SUCCEEDS must describe the files whatever they are (malformed files may be rejected, never
//! loaded wrongly): the keys `graph_loader/edge-id-not-row-accepted`, `…/vertex-id-not-row-accepted`,
//! `edge_loader/missing-vertex-accepted`, `graph_loader/scan-decides-gzip-by-extension` and
//! `…/scan-misses-cr-line-endings` belong to repaired defects (corpus W1-W7) and fire again on a
//! regression, and so does `graph_loader/endpoint-beyond-vertex-rows-accepted` (W8, W9; /repo c9969cf).
use crate::ctx::{fbits, Ctx};
use crate::rng::Rng;
use routee_compass_core::algorithm::search::direction::Direction;
use routee_compass_core::model::access::default::turn_delays::edge_heading::EdgeHeading;
use routee_compass_core::model::network::{Edge, EdgeId, Graph, NetworkError, Vertex, VertexId};
use routee_compass_core::model::traversal::default::speed_traversal_engine::SpeedTraversalEngine;
use routee_compass_core::model::unit::as_f64::AsF64;
use routee_compass_core::model::unit::{Grade, SpeedUnit};
use routee_compass_core::util::fs::{read_decoders, read_utils};
use std::io::Write;
use std::path::{Path, PathBuf};

// ------------------------------------------------------------------------------------------------
// records and file encodings

#[derive(Clone, Debug)]
struct ERow {
    id: usize,
    src: usize,
    dst: usize,
    dist: f64,
    /// when set, this text replaces one named cell (the row does not decode)
    bad: Option<(usize, String)>,
    /// the row has one field too few
    short: bool,
    /// another spelling of one cell that decodes to the same value ("+3", "007", "1e999" for inf)
    alt: Option<(usize, String)>,
}

#[derive(Clone, Debug)]
struct VRow {
    id: usize,
    x: f32,
    y: f32,
    bad: Option<(usize, String)>,
    short: bool,
    alt: Option<(usize, String)>,
}

#[derive(Clone, Debug)]
struct Enc {
    gz: bool,
    crlf: bool,
    /// classic-Mac line endings: a lone carriage return ends a record (the csv reader accepts it,
    /// `BufRead::lines` does not see a line end)
    cr_only: bool,
    final_newline: bool,
    trailing_blank: usize,
    /// order of the columns: indices < n_named are the named columns, the others are extras
    order: Vec<usize>,
    n_extra: usize,
    pad: bool,
    quote: bool,
    /// named column left out of the file (header and rows)
    drop_col: Option<usize>,
    /// the file name says the opposite of the content: `.gz` on plain text, or no `.gz` on gzip data
    /// (`read_utils` looks at the magic bytes, `graph_loader::get_n_*` at the extension)
    misnamed: bool,
    /// the file is not written at all
    absent: bool,
    /// the file is written with no content at all (not even a header)
    empty: bool,
    /// the text starts with a UTF-8 byte order mark
    bom: bool,
    /// number of gzip members the text is spread over (RFC 1952 allows several; 1 is the usual file)
    members: usize,
    /// the gzip stream is cut short
    cut: Option<Cut>,
    /// the file name is not valid UTF-8
    nonutf8_name: bool,
}

/// where a gzip file is cut short
#[derive(Clone, Copy, Debug, PartialEq)]
enum Cut {
    /// keep this many bytes (2 ..= 9) of the ten-byte gzip header
    Header(usize),
    /// keep the header and this many bytes (0 ..= 10) of the first deflate block
    Early(usize),
    /// keep this many thousandths of the stream
    Frac(usize),
    /// drop this many bytes (1 ..= 8) of the CRC / length trailer
    Trailer(usize),
}

impl Enc {
    fn plain(n_named: usize) -> Enc {
        Enc {
            gz: false,
            crlf: false,
            cr_only: false,
            final_newline: true,
            trailing_blank: 0,
            order: (0..n_named).collect(),
            n_extra: 0,
            pad: false,
            quote: false,
            drop_col: None,
            misnamed: false,
            absent: false,
            empty: false,
            bom: false,
            members: 1,
            cut: None,
            nonutf8_name: false,
        }
    }
    fn random(rng: &mut Rng, n_named: usize, permute: bool) -> Enc {
        let n_extra = if rng.chance(1, 2) { rng.below(4) } else { 0 };
        let mut order: Vec<usize> = (0..n_named + n_extra).collect();
        if permute && rng.chance(2, 3) {
            rng.shuffle(&mut order);
        }
        Enc {
            gz: rng.chance(1, 2),
            crlf: rng.chance(1, 6),
            cr_only: false,
            final_newline: !rng.chance(1, 6),
            trailing_blank: if rng.chance(1, 10) { 1 + rng.below(2) } else { 0 },
            order,
            n_extra,
            pad: rng.chance(1, 5),
            quote: rng.chance(1, 5),
            drop_col: None,
            misnamed: false,
            absent: false,
            empty: false,
            bom: rng.chance(1, 8),
            members: if rng.chance(1, 5) { 2 + rng.below(3) } else { 1 },
            cut: None,
            nonutf8_name: false,
        }
    }
    fn descr(&self) -> String {
        format!(
            "{}{}{}b{}o{}x{}{}{}{}{}{}{}{}{}{}{}",
            if self.gz { "gz" } else { "pl" },
            if self.cr_only { "R" } else if self.crlf { "C" } else { "L" },
            if self.final_newline { "N" } else { "n" },
            self.trailing_blank,
            self.order.iter().map(|c| c.to_string()).collect::<Vec<_>>().join(""),
            self.n_extra,
            if self.pad { "P" } else { "" },
            if self.quote { "Q" } else { "" },
            match self.drop_col {
                Some(c) => format!("D{}", c),
                None => String::new(),
            },
            if self.absent { "A" } else { "" },
            if self.empty { "E" } else { "" },
            if self.misnamed { "M" } else { "" },
            if self.bom { "B" } else { "" },
            if self.members > 1 { format!("m{}", self.members) } else { String::new() },
            match self.cut {
                Some(Cut::Header(k)) => format!("cH{}", k),
                Some(Cut::Early(k)) => format!("cE{}", k),
                Some(Cut::Frac(k)) => format!("cF{}", k),
                Some(Cut::Trailer(k)) => format!("cT{}", k),
                None => String::new(),
            },
            if self.nonutf8_name { "U" } else { "" },
        )
    }
}

const E_COLS: [&str; 4] = ["edge_id", "src_vertex_id", "dst_vertex_id", "distance"];
const V_COLS: [&str; 3] = ["vertex_id", "x", "y"];
const EXTRA_NAMES: [&str; 4] = ["name", "z", "road_class", "comment"];

fn extra_cell(rng: &mut Rng) -> String {
    match rng.below(7) {
        6 => "\"two\nlines\"".to_string(),
        0 => String::new(),
        1 => format!("{}", rng.below(1000)),
        2 => format!("{:.3}", rng.uniform(-500.0, 500.0)),
        3 => "\"a, quoted, cell\"".to_string(),
        4 => "residential".to_string(),
        _ => "\"say \"\"hi\"\"\"".to_string(),
    }
}

/// text of a csv file; `rows[i][c]` is the text of named column `c`
fn render(rng: &mut Rng, cols: &[&str], rows: &[(Vec<String>, bool)], enc: &Enc) -> String {
    if enc.empty {
        return String::new();
    }
    let nl = if enc.cr_only { "\r" } else if enc.crlf { "\r\n" } else { "\n" };
    let n_named = cols.len();
    let mut lines: Vec<String> = vec![];
    let keep = |c: usize| -> bool { !(c < n_named && Some(c) == enc.drop_col) };
    let header: Vec<String> = enc
        .order
        .iter()
        .filter(|c| keep(**c))
        .map(|&c| if c < n_named { cols[c].to_string() } else { EXTRA_NAMES[(c - n_named) % 4].to_string() })
        .collect();
    lines.push(header.join(","));
    for (cells, short) in rows {
        let mut out: Vec<String> = vec![];
        for &c in enc.order.iter().filter(|c| keep(**c)) {
            let mut t = if c < n_named { cells[c].clone() } else { extra_cell(rng) };
            if c < n_named {
                if enc.quote && rng.chance(1, 2) {
                    t = format!("\"{}\"", t);
                } else if enc.pad && rng.chance(1, 2) {
                    t = format!("  {} ", t);
                }
            }
            out.push(t);
        }
        if *short {
            out.pop();
        }
        lines.push(out.join(","));
    }
    let mut text = String::new();
    if enc.bom {
        text.push('\u{feff}');
    }
    text.push_str(&lines.join(nl));
    if enc.final_newline {
        text.push_str(nl);
        for _ in 0..enc.trailing_blank {
            text.push_str(nl);
        }
    }
    text
}

/// what `BufRead::lines().count()` sees, computed from the text alone
fn text_lines(text: &str) -> usize {
    if text.is_empty() {
        return 0;
    }
    let n = text.split('\n').count();
    if text.ends_with('\n') {
        n - 1
    } else {
        n
    }
}

fn gz_member(bytes: &[u8]) -> Vec<u8> {
    let mut enc = flate2::write::GzEncoder::new(Vec::new(), flate2::Compression::default());
    enc.write_all(bytes).expect("gz write");
    enc.finish().expect("gz finish")
}

/// the bytes of a gzip file holding `text` in `members` members (split at arbitrary byte positions,
/// also inside a line), cut short as asked
fn gz_bytes(text: &str, members: usize, cut: Option<Cut>) -> Vec<u8> {
    let raw = text.as_bytes();
    let m = members.max(1);
    let mut out: Vec<u8> = vec![];
    for k in 0..m {
        let a = raw.len() * k / m;
        let b = raw.len() * (k + 1) / m;
        out.extend(gz_member(&raw[a..b]));
    }
    let keep = match cut {
        None => out.len(),
        Some(Cut::Header(k)) => k.min(out.len()),
        Some(Cut::Early(k)) => (10 + k).min(out.len() - 1),
        Some(Cut::Frac(k)) => (out.len() * k / 1000).clamp(2, out.len() - 1),
        Some(Cut::Trailer(k)) => out.len() - k.clamp(1, 8),
    };
    out.truncate(keep);
    out
}

fn write_bytes(path: &Path, bytes: &[u8]) {
    let mut f = std::fs::File::create(path).expect("create scratch file");
    f.write_all(bytes).expect("write");
}

fn write_file(path: &Path, text: &str, gz: bool) {
    if gz {
        write_bytes(path, &gz_bytes(text, 1, None));
    } else {
        write_bytes(path, text.as_bytes());
    }
}

fn write_enc(path: &Path, text: &str, gz: bool, enc: &Enc) {
    if gz {
        write_bytes(path, &gz_bytes(text, enc.members, enc.cut));
    } else {
        write_bytes(path, text.as_bytes());
    }
}

/// the csv reader finds a header row: some byte other than a line terminator (after the BOM)
fn has_header(text: &str) -> bool {
    text.trim_start_matches('\u{feff}').bytes().any(|b| b != b'\n' && b != b'\r')
}

fn f32_text(x: f32) -> String {
    format!("{}", x)
}

fn e_cells(r: &ERow) -> (Vec<String>, bool) {
    let mut c = vec![r.id.to_string(), r.src.to_string(), r.dst.to_string(), format!("{}", r.dist)];
    if let Some((k, t)) = &r.alt {
        c[*k] = t.clone();
    }
    if let Some((k, t)) = &r.bad {
        c[*k] = t.clone();
    }
    (c, r.short)
}

fn v_cells(r: &VRow) -> (Vec<String>, bool) {
    let mut c = vec![r.id.to_string(), f32_text(r.x), f32_text(r.y)];
    if let Some((k, t)) = &r.alt {
        c[*k] = t.clone();
    }
    if let Some((k, t)) = &r.bad {
        c[*k] = t.clone();
    }
    (c, r.short)
}

// ------------------------------------------------------------------------------------------------
// a case

#[derive(Clone, Debug)]
struct Case {
    kind: &'static str,
    edges: Vec<ERow>,
    vertices: Vec<VRow>,
    n_e: Option<usize>,
    n_v: Option<usize>,
    e_enc: Enc,
    v_enc: Enc,
    /// the `verbose` argument of `Graph::from_files` (two log lines; never the result)
    verbose: Option<bool>,
}

impl Case {
    fn e_bad(&self, r: &ERow) -> bool {
        r.bad.is_some() || r.short || self.e_enc.drop_col.is_some()
    }
    fn v_bad(&self, r: &VRow) -> bool {
        r.bad.is_some() || r.short || self.v_enc.drop_col.is_some()
    }
    /// ids are row numbers, endpoints are listed vertices, every row decodes, files exist, counts are
    /// right or scanned: the property's domain
    fn well_formed(&self) -> bool {
        self.data_well_formed() && !self.e_enc.misnamed && !self.v_enc.misnamed
    }
    /// well-formed apart from a file name that does not say how the file is compressed
    fn data_well_formed(&self) -> bool {
        let nv = self.vertices.len();
        self.edges.iter().enumerate().all(|(i, r)| r.id == i && r.src < nv && r.dst < nv && !self.e_bad(r))
            && self.vertices.iter().enumerate().all(|(i, r)| r.id == i && !self.v_bad(r))
            && !self.e_enc.absent
            && !self.v_enc.absent
            && !self.e_enc.empty
            && !self.v_enc.empty
            && !self.e_enc.cr_only
            && !self.v_enc.cr_only
            && self.e_enc.cut.is_none()
            && self.v_enc.cut.is_none()
            && self.n_v.map(|n| n == nv).unwrap_or(true)
    }
}

fn opt_tok(o: Option<usize>) -> String {
    match o {
        Some(n) => format!("s {}", n),
        None => "n".to_string(),
    }
}

struct Written {
    e_path: PathBuf,
    v_path: PathBuf,
    e_lines: usize,
    v_lines: usize,
    e_header: bool,
    v_header: bool,
}

fn scratch_name(dir: &Path, name: String, nonutf8: bool) -> PathBuf {
    if nonutf8 {
        use std::os::unix::ffi::OsStringExt;
        let mut b = name.into_bytes();
        b.insert(0, 0xff);
        b.insert(1, 0xfe);
        dir.join(std::ffi::OsString::from_vec(b))
    } else {
        dir.join(name)
    }
}

/// writes the two files of a case (with the given gzip flags) and returns paths and line counts
fn write_case(dir: &Path, tag: &str, rng_seed: &Rng, case: &Case, e_gz: bool, v_gz: bool) -> Written {
    // the same random stream for every variant of the same case, so that the variants hold the same text
    let mut rng = rng_seed.clone();
    let e_rows: Vec<(Vec<String>, bool)> = case.edges.iter().map(e_cells).collect();
    let v_rows: Vec<(Vec<String>, bool)> = case.vertices.iter().map(v_cells).collect();
    let e_text = render(&mut rng, &E_COLS, &e_rows, &case.e_enc);
    let v_text = render(&mut rng, &V_COLS, &v_rows, &case.v_enc);
    let e_name_gz = e_gz != case.e_enc.misnamed;
    let v_name_gz = v_gz != case.v_enc.misnamed;
    let e_path = scratch_name(dir, format!("{}_edges.csv{}", tag, if e_name_gz { ".gz" } else { "" }), case.e_enc.nonutf8_name);
    let v_path = scratch_name(dir, format!("{}_vertices.csv{}", tag, if v_name_gz { ".gz" } else { "" }), case.v_enc.nonutf8_name);
    let _ = std::fs::remove_file(&e_path);
    let _ = std::fs::remove_file(&v_path);
    if !case.e_enc.absent {
        write_enc(&e_path, &e_text, e_gz, &case.e_enc);
    }
    if !case.v_enc.absent {
        write_enc(&v_path, &v_text, v_gz, &case.v_enc);
    }
    // the scan decides compression by content (like the csv reader), so the text alone fixes the count
    Written {
        e_path,
        v_path,
        e_lines: text_lines(&e_text),
        v_lines: text_lines(&v_text),
        e_header: has_header(&e_text),
        v_header: has_header(&v_text),
    }
}

/// the two files as the model receives them: readable, text lines, header row found, rows
fn file_spec_tokens(case: &Case, w: &Written) -> Vec<String> {
    let mut t: Vec<String> = vec![];
    // edge file
    t.push(if case.e_enc.absent || case.e_enc.cut.is_some() { "0" } else { "1" }.into());
    t.push(w.e_lines.to_string());
    t.push(if w.e_header { "1" } else { "0" }.into());
    let e_rows: Vec<&ERow> = if case.e_enc.empty || case.e_enc.absent { vec![] } else { case.edges.iter().collect() };
    t.push(e_rows.len().to_string());
    for r in e_rows {
        if case.e_bad(r) {
            t.push("b".into());
        } else {
            t.push(format!("r {} {} {} {}", r.id, r.src, r.dst, r.dist.to_bits()));
        }
    }
    // vertex file
    t.push(if case.v_enc.absent || case.v_enc.cut.is_some() { "0" } else { "1" }.into());
    t.push(w.v_lines.to_string());
    t.push(if w.v_header { "1" } else { "0" }.into());
    let v_rows: Vec<&VRow> = if case.v_enc.empty || case.v_enc.absent { vec![] } else { case.vertices.iter().collect() };
    t.push(v_rows.len().to_string());
    for r in v_rows {
        if case.v_bad(r) {
            t.push("b".into());
        } else {
            t.push(format!("r {} {} {}", r.id, (r.x as f64).to_bits(), (r.y as f64).to_bits()));
        }
    }
    t
}

fn case_line(case: &Case, w: &Written) -> String {
    let mut t: Vec<String> = vec!["load".into()];
    t.push(format!(
        "{}:{}:{}:v{}",
        case.kind,
        case.e_enc.descr(),
        case.v_enc.descr(),
        match case.verbose {
            None => "n",
            Some(true) => "t",
            Some(false) => "f",
        }
    ));
    t.push(opt_tok(case.n_e));
    t.push(opt_tok(case.n_v));
    t.extend(file_spec_tokens(case, w));
    t.join(" ")
}

// ------------------------------------------------------------------------------------------------
// canonical output of the real graph

fn nat_list(l: &[EdgeId]) -> String {
    let mut t = vec![l.len().to_string()];
    t.extend(l.iter().map(|e| e.0.to_string()));
    t.join(" ")
}

fn vertex_out(v: &Vertex) -> String {
    format!("{} {} {}", v.vertex_id.0, fbits(v.x() as f64), fbits(v.y() as f64))
}

fn edge_out(e: &Edge) -> String {
    format!("{} {} {} {}", e.edge_id.0, e.src_vertex_id.0, e.dst_vertex_id.0, fbits(e.distance.as_f64()))
}

fn net_err(e: &NetworkError) -> &'static str {
    match e {
        NetworkError::EdgeNotFound(_) => "ne",
        NetworkError::VertexNotFound(_) => "nv",
        _ => "other",
    }
}

fn ex_out<T>(r: Result<T, NetworkError>, f: impl Fn(T) -> String) -> String {
    match r {
        Ok(t) => format!("s {}", f(t)),
        Err(e) => net_err(&e).to_string(),
    }
}

fn triplets_out(l: Vec<(VertexId, EdgeId, VertexId)>) -> String {
    let mut t = vec![l.len().to_string()];
    t.extend(l.iter().map(|(a, e, b)| format!("{} {} {}", a.0, e.0, b.0)));
    t.join(" ")
}

fn attrs_out(l: Vec<(&Vertex, &Edge, &Vertex)>) -> String {
    let mut t = vec![l.len().to_string()];
    t.extend(l.iter().map(|(a, e, b)| format!("{} {} {}", vertex_out(a), edge_out(e), vertex_out(b))));
    t.join(" ")
}

fn graph_out(g: &Graph) -> String {
    let ne = g.n_edges();
    let nv = g.n_vertices();
    let pv = nv.max(g.adj.len());
    let mut t: Vec<String> = vec![
        "ok".into(),
        ne.to_string(),
        nv.to_string(),
        g.adj.len().to_string(),
        g.rev.len().to_string(),
    ];
    for e in 0..=ne {
        let id = EdgeId(e);
        t.push("e".into());
        t.push(ex_out(g.get_edge(&id), edge_out));
        t.push(ex_out(g.src_vertex_id(&id), |v| v.0.to_string()));
        t.push(ex_out(g.dst_vertex_id(&id), |v| v.0.to_string()));
        t.push(ex_out(g.incident_vertex(&id, &Direction::Forward), |v| v.0.to_string()));
        t.push(ex_out(g.incident_vertex(&id, &Direction::Reverse), |v| v.0.to_string()));
        t.push(ex_out(g.edge_triplet(&id), |(s, ed, d)| {
            format!("{} {} {}", vertex_out(s), edge_out(ed), vertex_out(d))
        }));
    }
    for v in 0..=pv {
        let id = VertexId(v);
        t.push("v".into());
        t.push(ex_out(g.get_vertex(&id), vertex_out));
        t.push(nat_list(&g.out_edges(&id)));
        t.push(nat_list(&g.in_edges(&id)));
        t.push(nat_list(&g.incident_edges(&id, &Direction::Forward)));
        t.push(nat_list(&g.incident_edges(&id, &Direction::Reverse)));
        t.push(ex_out(g.incident_triplet_ids(&id, &Direction::Forward), triplets_out));
        t.push(ex_out(g.incident_triplet_ids(&id, &Direction::Reverse), triplets_out));
        t.push(ex_out(g.incident_triplet_attributes(&id, &Direction::Forward), attrs_out));
        t.push(ex_out(g.incident_triplet_attributes(&id, &Direction::Reverse), attrs_out));
    }
    t.push("ids".into());
    t.push(nat_list(&g.edge_ids().collect::<Vec<_>>()));
    let vids: Vec<EdgeId> = g.vertex_ids().map(|v| EdgeId(v.0)).collect();
    t.push(nat_list(&vids));
    t.join(" ")
}

fn load(w: &Written, n_e: Option<usize>, n_v: Option<usize>) -> Result<Result<Graph, NetworkError>, String> {
    load_v(w, n_e, n_v, Some(false))
}

fn load_v(w: &Written, n_e: Option<usize>, n_v: Option<usize>, verbose: Option<bool>) -> Result<Result<Graph, NetworkError>, String> {
    let e = w.e_path.clone();
    let v = w.v_path.clone();
    std::panic::catch_unwind(move || Graph::from_files(&e, &v, n_e, n_v, verbose)).map_err(|p| {
        if let Some(s) = p.downcast_ref::<String>() {
            s.clone()
        } else if let Some(s) = p.downcast_ref::<&str>() {
            s.to_string()
        } else {
            "panic".to_string()
        }
    })
}

fn outcome_line(r: &Result<Result<Graph, NetworkError>, String>) -> String {
    match r {
        Err(_) => "panic".to_string(),
        Ok(Err(e)) => match e {
            NetworkError::IOError { .. } => "err io".to_string(),
            NetworkError::DatasetError(_) => "err dataset".to_string(),
            NetworkError::CsvError { .. } => "err csv".to_string(),
            _ => "err other".to_string(),
        },
        Ok(Ok(g)) => graph_out(g),
    }
}

// ------------------------------------------------------------------------------------------------
// oracle: the loaded graph against the raw rows, by id (independent of the Lean model)

/// returns the first discrepancy as (aspect, message)
fn check_by_id(g: &Graph, edges: &[ERow], vertices: &[VRow]) -> Option<(&'static str, String)> {
    if g.n_edges() != edges.len() {
        return Some(("n-edges", format!("n_edges() = {} but {} edges are listed", g.n_edges(), edges.len())));
    }
    if g.n_vertices() != vertices.len() {
        return Some(("n-vertices", format!("n_vertices() = {} but {} vertices are listed", g.n_vertices(), vertices.len())));
    }
    for r in vertices {
        match g.get_vertex(&VertexId(r.id)) {
            Ok(v) => {
                if v.vertex_id.0 != r.id || v.x().to_bits() != r.x.to_bits() || v.y().to_bits() != r.y.to_bits() {
                    return Some(("get-vertex", format!("listed vertex {} at ({}, {}) but get_vertex({}) = {}", r.id, r.x, r.y, r.id, v)));
                }
            }
            Err(e) => return Some(("get-vertex", format!("listed vertex {} not retrievable: {}", r.id, e))),
        }
    }
    for r in edges {
        let id = EdgeId(r.id);
        match g.get_edge(&id) {
            Ok(e) => {
                if e.edge_id.0 != r.id
                    || e.src_vertex_id.0 != r.src
                    || e.dst_vertex_id.0 != r.dst
                    || e.distance.as_f64().to_bits() != r.dist.to_bits()
                {
                    return Some((
                        "get-edge",
                        format!("listed edge {}: {}->{} length {} but get_edge({}) = {:?}", r.id, r.src, r.dst, r.dist, r.id, e),
                    ));
                }
            }
            Err(e) => return Some(("get-edge", format!("listed edge {} not retrievable: {}", r.id, e))),
        }
        if g.src_vertex_id(&id).ok().map(|v| v.0) != Some(r.src) || g.dst_vertex_id(&id).ok().map(|v| v.0) != Some(r.dst) {
            return Some(("endpoints", format!("edge {} listed {}->{}", r.id, r.src, r.dst)));
        }
        // the triplet: both endpoints must be listed vertices with the listed coordinates
        let sv = vertices.iter().find(|v| v.id == r.src);
        let dv = vertices.iter().find(|v| v.id == r.dst);
        match (g.edge_triplet(&id), sv, dv) {
            (Ok((s, _, d)), Some(sv), Some(dv)) => {
                if s.x().to_bits() != sv.x.to_bits() || s.y().to_bits() != sv.y.to_bits() || d.x().to_bits() != dv.x.to_bits() || d.y().to_bits() != dv.y.to_bits() {
                    return Some(("edge-triplet", format!("edge {}: triplet vertices {} / {} differ from the listed ones", r.id, s, d)));
                }
            }
            (r2, _, _) => {
                return Some((
                    "edge-triplet",
                    format!(
                        "edge {} ({}->{}) is listed and the load succeeded, but its endpoints are not both available: triplet {}",
                        r.id,
                        r.src,
                        r.dst,
                        match r2 {
                            Ok(_) => "ok although an endpoint is not a listed vertex".to_string(),
                            Err(e) => format!("fails with {}", e),
                        }
                    ),
                ))
            }
        }
    }
    // adjacency, as multisets, for every listed vertex id and every id the graph knows
    let max_v = vertices.iter().map(|v| v.id + 1).max().unwrap_or(0).max(g.n_vertices()).max(g.adj.len()).max(g.rev.len());
    let mut all_out: Vec<usize> = vec![];
    let mut all_in: Vec<usize> = vec![];
    for v in 0..max_v {
        let mut want_out: Vec<usize> = edges.iter().filter(|r| r.src == v).map(|r| r.id).collect();
        let mut want_in: Vec<usize> = edges.iter().filter(|r| r.dst == v).map(|r| r.id).collect();
        let got_out_raw: Vec<usize> = g.out_edges(&VertexId(v)).iter().map(|e| e.0).collect();
        let got_in_raw: Vec<usize> = g.in_edges(&VertexId(v)).iter().map(|e| e.0).collect();
        let mut got_out = got_out_raw.clone();
        let mut got_in = got_in_raw.clone();
        all_out.extend(got_out.iter());
        all_in.extend(got_in.iter());
        want_out.sort();
        want_in.sort();
        got_out.sort();
        got_in.sort();
        if want_out != got_out {
            let aspect = if want_out.len() >= 5 { "adjacency-degree" } else { "adjacency" };
            return Some((aspect, format!("vertex {}: listed out-edges {:?} but out_edges = {:?}", v, want_out, got_out_raw)));
        }
        if want_in != got_in {
            let aspect = if want_in.len() >= 5 { "adjacency-degree" } else { "adjacency" };
            return Some((aspect, format!("vertex {}: listed in-edges {:?} but in_edges = {:?}", v, want_in, got_in_raw)));
        }
        let f: Vec<usize> = g.incident_edges(&VertexId(v), &Direction::Forward).iter().map(|e| e.0).collect();
        let b: Vec<usize> = g.incident_edges(&VertexId(v), &Direction::Reverse).iter().map(|e| e.0).collect();
        if f != got_out_raw || b != got_in_raw {
            return Some(("incident-edges", format!("vertex {}: incident_edges differs from out/in_edges", v)));
        }
    }
    all_out.sort();
    all_in.sort();
    let mut ids: Vec<usize> = edges.iter().map(|r| r.id).collect();
    ids.sort();
    if all_out != all_in || all_out != ids {
        return Some((
            "fwd-rev-edge-set",
            format!("edge ids {:?}; union of out_edges {:?}; union of in_edges {:?}", ids, all_out, all_in),
        ));
    }
    for r in edges {
        let o = g.out_edges(&VertexId(r.src)).contains(&EdgeId(r.id));
        let i = g.in_edges(&VertexId(r.dst)).contains(&EdgeId(r.id));
        if !o || !i {
            return Some(("fwd-rev-edge-set", format!("edge {}: in out_edges({}) = {}, in in_edges({}) = {}", r.id, r.src, o, r.dst, i)));
        }
    }
    None
}

// ------------------------------------------------------------------------------------------------
// generators

fn nice_dist(rng: &mut Rng) -> f64 {
    match rng.below(4) {
        0 => (1 + rng.below(500)) as f64,
        1 => rng.small_decimal(1000, 2) + 0.01,
        2 => rng.uniform(0.001, 100000.0),
        _ => rng.small_decimal(50, 3) + 0.001,
    }
}

fn coord(rng: &mut Rng) -> (f32, f32) {
    match rng.below(3) {
        0 => (rng.uniform(-180.0, 180.0) as f32, rng.uniform(-90.0, 90.0) as f32),
        1 => (-105.0 - rng.small_decimal(1, 5) as f32, 39.0 + rng.small_decimal(1, 5) as f32),
        _ => (rng.range(-180, 180) as f32, rng.range(-90, 90) as f32),
    }
}

fn mk_vertices(rng: &mut Rng, n: usize) -> Vec<VRow> {
    (0..n)
        .map(|i| {
            let (x, y) = coord(rng);
            VRow { id: i, x, y, bad: None, short: false, alt: None }
        })
        .collect()
}

fn mk_edges(rng: &mut Rng, pairs: &[(usize, usize)]) -> Vec<ERow> {
    pairs
        .iter()
        .enumerate()
        .map(|(i, &(s, d))| ERow { id: i, src: s, dst: d, dist: nice_dist(rng), bad: None, short: false, alt: None })
        .collect()
}

const DEGREES: [usize; 16] = [0, 1, 2, 3, 4, 5, 5, 6, 6, 7, 7, 8, 10, 12, 12, 20];

/// a well-formed random network
fn gen_pairs(rng: &mut Rng, nv: usize, big: bool) -> Vec<(usize, usize)> {
    let mut pairs: Vec<(usize, usize)> = vec![];
    if nv == 0 {
        return pairs;
    }
    // hubs with chosen out- and in-degrees
    let hubs = rng.below(3);
    for _ in 0..hubs {
        let h = rng.below(nv);
        let mut dout = *rng.pick(&DEGREES);
        let mut din = *rng.pick(&DEGREES);
        if big && rng.chance(1, 6) {
            dout = 20 + rng.below(60);
        }
        if big && rng.chance(1, 6) {
            din = 20 + rng.below(60);
        }
        for _ in 0..dout {
            pairs.push((h, rng.below(nv)));
        }
        for _ in 0..din {
            pairs.push((rng.below(nv), h));
        }
    }
    // background edges among a subset of the vertices (so that isolated vertices exist)
    let active = 1 + rng.below(nv);
    let nbg = rng.below(if big { 4 * nv + 1 } else { 2 * nv + 1 });
    for _ in 0..nbg {
        pairs.push((rng.below(active), rng.below(active)));
    }
    // parallel edges and self loops
    if rng.chance(1, 3) {
        let a = rng.below(nv);
        let b = rng.below(nv);
        for _ in 0..(2 + rng.below(6)) {
            pairs.push((a, b));
        }
    }
    if rng.chance(1, 3) {
        let a = rng.below(nv);
        for _ in 0..(1 + rng.below(6)) {
            pairs.push((a, a));
        }
    }
    rng.shuffle(&mut pairs);
    pairs
}

/// lengths and coordinates that no road has but the number parsers accept (the loader stores what the
/// file says: not-a-number, infinities, negative and zero lengths, values beyond the f32 range), and
/// other spellings of ordinary numbers
fn special_numbers(rng: &mut Rng, edges: &mut [ERow], vertices: &mut [VRow]) {
    let dists: [(f64, Option<&str>); 12] = [
        (f64::NAN, None),
        (f64::INFINITY, None),
        (f64::NEG_INFINITY, None),
        (f64::INFINITY, Some("1e999")),
        (0.0, Some("1e-999")),
        (-5.25, None),
        (0.0, None),
        (-0.0, None),
        (5e-324, None),
        (1.7976931348623157e308, None),
        (12.5, Some("+12.5")),
        (1250.0, Some("1.25E3")),
    ];
    let coords: [(f32, Option<&str>); 10] = [
        (f32::NAN, None),
        (f32::INFINITY, None),
        (f32::NEG_INFINITY, Some("-inf")),
        (f32::INFINITY, Some("1e39")),
        (0.0, Some("1e-50")),
        (-0.0, None),
        (-180.0, None),
        (540.5, None),
        (3.4028235e38, None),
        (1.5, Some("+1.5")),
    ];
    let ids: [&str; 3] = ["+", "00", "0"];
    for _ in 0..(1 + rng.below(4)) {
        if !edges.is_empty() && rng.chance(2, 3) {
            let a = rng.below(edges.len());
            match rng.below(4) {
                0 => {
                    // another spelling of the id or of an endpoint
                    let col = rng.below(3);
                    let val = [edges[a].id, edges[a].src, edges[a].dst][col];
                    edges[a].alt = Some((col, format!("{}{}", ids[rng.below(3)], val)));
                }
                _ => {
                    let (d, t) = dists[rng.below(dists.len())];
                    edges[a].dist = d;
                    edges[a].alt = t.map(|t| (3, t.to_string()));
                }
            }
        } else if !vertices.is_empty() {
            let a = rng.below(vertices.len());
            match rng.below(4) {
                0 => {
                    vertices[a].alt = Some((0, format!("{}{}", ids[rng.below(3)], vertices[a].id)));
                }
                k => {
                    let (c, t) = coords[rng.below(coords.len())];
                    if k == 1 {
                        vertices[a].x = c;
                        vertices[a].alt = t.map(|t| (1, t.to_string()));
                    } else {
                        vertices[a].y = c;
                        vertices[a].alt = t.map(|t| (2, t.to_string()));
                    }
                }
            }
        }
    }
}

fn gen_well_formed(rng: &mut Rng, big: bool) -> Case {
    let nv = match rng.below(10) {
        0 => 0,
        1 => 1,
        2 => 2,
        _ => 3 + rng.below(if big { 40 } else { 12 }),
    };
    let pairs = gen_pairs(rng, nv, big);
    let mut vertices = mk_vertices(rng, nv);
    let mut edges = mk_edges(rng, &pairs);
    if rng.chance(1, 6) {
        special_numbers(rng, &mut edges, &mut vertices);
    }
    let n_e = if rng.chance(1, 2) { None } else { Some(edges.len()) };
    let n_v = if rng.chance(1, 2) { None } else { Some(nv) };
    let verbose = [None, Some(true), Some(false)][rng.below(3)];
    Case { kind: "wf", n_e, n_v, e_enc: Enc::random(rng, 4, true), v_enc: Enc::random(rng, 3, true), edges, vertices, verbose }
}

const MALFORMED: [&str; 20] = [
    "edge-id-permuted",
    "edge-id-offset",
    "edge-id-duplicate",
    "endpoint-out-of-range",
    "declared-nv-small",
    "declared-nv-large",
    "declared-ne-wrong",
    "vertex-id-not-row",
    "edge-missing-column",
    "vertex-missing-column",
    "edge-bad-cell",
    "vertex-bad-cell",
    "short-row",
    "missing-file",
    "empty-file",
    "fewer-vertex-rows",
    "cr-line-endings",
    "compression-misnamed",
    "gzip-truncated",
    "huge-id",
];

fn bad_text(rng: &mut Rng, col_is_float: bool) -> String {
    if col_is_float {
        ["abc", "", "1,5", "--3"][rng.below(2)].to_string()
    } else {
        ["-1", "1.5", "abc", "", "18446744073709551616"][rng.below(5)].to_string()
    }
}

fn gen_malformed(rng: &mut Rng, which: &'static str) -> Case {
    let mut c = gen_well_formed(rng, false);
    // make sure there is something to break
    if c.vertices.len() < 3 || c.edges.len() < 3 {
        let nv = 3 + rng.below(6);
        let mut pairs = gen_pairs(rng, nv, false);
        for _ in 0..3 {
            pairs.push((rng.below(nv), rng.below(nv)));
        }
        c.vertices = mk_vertices(rng, nv);
        c.edges = mk_edges(rng, &pairs);
        c.n_e = c.n_e.map(|_| c.edges.len());
        c.n_v = c.n_v.map(|_| nv);
    }
    c.kind = which;
    let ne = c.edges.len();
    let nv = c.vertices.len();
    match which {
        "edge-id-permuted" => {
            // same edges, listed in another order than their ids
            let mut tries = 0;
            loop {
                rng.shuffle(&mut c.edges);
                tries += 1;
                if c.edges.iter().enumerate().any(|(i, r)| r.id != i) || tries > 20 {
                    break;
                }
            }
        }
        "edge-id-offset" => {
            let k = 1 + rng.below(3);
            for r in c.edges.iter_mut() {
                r.id += k;
            }
        }
        "edge-id-duplicate" => {
            let a = rng.below(ne);
            let mut b = rng.below(ne);
            if a == b {
                b = (a + 1) % ne;
            }
            c.edges[b].id = c.edges[a].id;
            if rng.chance(1, 2) {
                // the duplicate also leaves / enters the same vertex: the adjacency entry is overwritten
                c.edges[b].src = c.edges[a].src;
            }
        }
        "endpoint-out-of-range" => {
            let k = 1 + rng.below(3);
            for _ in 0..k {
                let a = rng.below(ne);
                if rng.chance(1, 2) {
                    c.edges[a].src = nv + rng.below(3);
                } else {
                    c.edges[a].dst = nv + rng.below(3);
                }
            }
        }
        "declared-nv-small" => {
            c.n_v = Some(rng.below(nv));
        }
        "declared-nv-large" => {
            c.n_v = Some(nv + 1 + rng.below(5));
        }
        "declared-ne-wrong" => {
            c.n_e = Some(if rng.chance(1, 2) { rng.below(ne) } else { ne + 1 + rng.below(5) });
        }
        "vertex-id-not-row" => {
            if rng.chance(1, 2) {
                c.vertices.swap(0, nv - 1);
            } else {
                for r in c.vertices.iter_mut() {
                    r.id += 1;
                }
            }
        }
        "edge-missing-column" => {
            c.e_enc.drop_col = Some(rng.below(4));
        }
        "vertex-missing-column" => {
            c.v_enc.drop_col = Some(rng.below(3));
        }
        "edge-bad-cell" => {
            let a = rng.below(ne);
            let col = rng.below(4);
            let t = bad_text(rng, col == 3);
            c.edges[a].bad = Some((col, t));
        }
        "vertex-bad-cell" => {
            let a = rng.below(nv);
            let col = rng.below(3);
            let t = bad_text(rng, col != 0);
            c.vertices[a].bad = Some((col, t));
        }
        "short-row" => {
            if rng.chance(1, 2) {
                let a = rng.below(ne);
                c.edges[a].short = true;
            } else {
                let a = rng.below(nv);
                c.vertices[a].short = true;
            }
        }
        "missing-file" => {
            if rng.chance(1, 2) {
                c.e_enc.absent = true;
            } else {
                c.v_enc.absent = true;
            }
        }
        "empty-file" => {
            if rng.chance(1, 2) {
                c.e_enc.empty = true;
            } else {
                c.v_enc.empty = true;
            }
        }
        "cr-line-endings" => {
            // the rows are fine; only the line terminator is a lone CR (no embedded LF in extra cells)
            c.e_enc.n_extra = 0;
            c.e_enc.order = (0..4).collect();
            c.v_enc.n_extra = 0;
            c.v_enc.order = (0..3).collect();
            c.e_enc.crlf = false;
            c.v_enc.crlf = false;
            match rng.below(3) {
                0 => c.e_enc.cr_only = true,
                1 => c.v_enc.cr_only = true,
                _ => {
                    c.e_enc.cr_only = true;
                    c.v_enc.cr_only = true;
                }
            }
        }
        "compression-misnamed" => {
            match rng.below(3) {
                0 => c.e_enc.misnamed = true,
                1 => c.v_enc.misnamed = true,
                _ => {
                    c.e_enc.misnamed = true;
                    c.v_enc.misnamed = true;
                }
            }
        }
        "gzip-truncated" => {
            let cut = match rng.below(6) {
                0 => Cut::Header(2 + rng.below(8)),
                1 => Cut::Early(rng.below(11)),
                2 => Cut::Trailer(1 + rng.below(8)),
                _ => Cut::Frac(1 + rng.below(999)),
            };
            if rng.chance(1, 2) {
                c.e_enc.gz = true;
                c.e_enc.cut = Some(cut);
            } else {
                c.v_enc.gz = true;
                c.v_enc.cut = Some(cut);
            }
        }
        "huge-id" => {
            // ids at the top of the usize range (they parse; one more digit would not)
            let big = [usize::MAX, usize::MAX - 1, (1usize << 63), u32::MAX as usize + 1][rng.below(4)];
            match rng.below(4) {
                0 => c.edges[rng.below(ne)].id = big,
                1 => c.edges[rng.below(ne)].src = big,
                2 => c.edges[rng.below(ne)].dst = big,
                _ => c.vertices[rng.below(nv)].id = big,
            }
        }
        "fewer-vertex-rows" => {
            let keep = rng.below(nv);
            c.vertices.truncate(keep);
            // the declared count (if any) still names the original number
        }
        _ => unreachable!(),
    }
    c
}

fn e(id: usize, src: usize, dst: usize, dist: f64) -> ERow {
    ERow { id, src, dst, dist, bad: None, short: false, alt: None }
}

fn v(id: usize, x: f32, y: f32) -> VRow {
    VRow { id, x, y, bad: None, short: false, alt: None }
}

fn grid_vertices(n: usize) -> Vec<VRow> {
    (0..n).map(|i| v(i, -105.0 + 0.01 * i as f32, 39.5 + 0.003 * i as f32)).collect()
}

/// hand-written cases: degrees 5, 6, 7, 12 out and in (the container's hash-map representation),
/// parallel edges, self loops, isolated vertices, empty networks, and the witnesses of the findings
fn corpus() -> Vec<Case> {
    let mut out = vec![];
    // vertices 0..3 have out-degree 5, 6, 7, 12; vertices 4..7 have in-degree 5, 6, 7, 12; 8..11 are
    // the other ends, 12 and 13 are isolated; edges interleaved so that ids at one vertex are not contiguous
    let mut pairs: Vec<(usize, usize)> = vec![];
    let outs = [5usize, 6, 7, 12];
    let ins = [5usize, 6, 7, 12];
    for k in 0..12 {
        for (h, d) in outs.iter().enumerate() {
            if k < *d {
                pairs.push((h, 8 + (k % 4)));
            }
        }
        for (h, d) in ins.iter().enumerate() {
            if k < *d {
                pairs.push((8 + ((k + 1) % 4), 4 + h));
            }
        }
    }
    let edges: Vec<ERow> = pairs.iter().enumerate().map(|(i, &(s, d))| e(i, s, d, 10.0 + i as f64 * 0.25)).collect();
    for (gz, scan) in [(false, false), (true, true), (true, false), (false, true)] {
        let mut e_enc = Enc::plain(4);
        let mut v_enc = Enc::plain(3);
        e_enc.gz = gz;
        v_enc.gz = gz;
        if scan {
            v_enc.order = vec![4, 2, 0, 3, 1];
            v_enc.n_extra = 2;
        }
        out.push(Case {
            kind: "wf",
            edges: edges.clone(),
            vertices: grid_vertices(14),
            n_e: if scan { None } else { Some(edges.len()) },
            n_v: if scan { None } else { Some(14) },
            e_enc,
            v_enc,
            verbose: if scan { Some(true) } else { None },
        });
    }
    // six parallel edges 0->1, six self loops on 2, vertex 3 isolated
    let mut pe: Vec<ERow> = vec![];
    for k in 0..6 {
        pe.push(e(2 * k, 0, 1, 1.5 + k as f64));
        pe.push(e(2 * k + 1, 2, 2, 0.5 + k as f64));
    }
    out.push(Case { kind: "wf", edges: pe, vertices: grid_vertices(4), n_e: None, n_v: None, e_enc: Enc::plain(4), v_enc: Enc::plain(3), verbose: Some(false) });
    // empty network, header only
    out.push(Case { kind: "wf", edges: vec![], vertices: vec![], n_e: None, n_v: None, e_enc: Enc::plain(4), v_enc: Enc::plain(3), verbose: Some(false) });
    out.push(Case { kind: "wf", edges: vec![], vertices: vec![], n_e: Some(0), n_v: Some(0), e_enc: Enc::plain(4), v_enc: Enc::plain(3), verbose: Some(false) });
    // vertices only
    out.push(Case { kind: "wf", edges: vec![], vertices: grid_vertices(3), n_e: None, n_v: Some(3), e_enc: Enc::plain(4), v_enc: Enc::plain(3), verbose: Some(false) });
    // one self loop on a single vertex, no final newline
    let mut nonl = Enc::plain(4);
    nonl.final_newline = false;
    let mut nonl_v = Enc::plain(3);
    nonl_v.final_newline = false;
    out.push(Case { kind: "wf", edges: vec![e(0, 0, 0, 3.25)], vertices: grid_vertices(1), n_e: None, n_v: None, e_enc: nonl, v_enc: nonl_v, verbose: Some(false) });

    // --- witnesses of the findings: files that do not describe a network.  W1-W5 were accepted silently
    // and are rejected with a DatasetError since /repo 0316a94 and c6cac08; W6 was loaded with empty
    // adjacency and is rejected since 0316a94; W7 was loaded with empty adjacency and loads correctly
    // since 12d5de8; W8 and W9 were accepted and are rejected since c9969cf.  The oracle keys are unchanged, so a regression of a
    // repair is reported under the key of the original finding. ---
    // W1: two edges listed in the reverse order of their ids
    out.push(Case {
        kind: "edge-id-permuted",
        edges: vec![e(1, 0, 1, 7.0), e(0, 1, 0, 9.0)],
        vertices: grid_vertices(2),
        n_e: Some(2),
        n_v: Some(2),
        e_enc: Enc::plain(4),
        v_enc: Enc::plain(3),
        verbose: Some(false),
    });
    // W2: an edge ends at a vertex that is not in the vertex file
    out.push(Case {
        kind: "endpoint-out-of-range",
        edges: vec![e(0, 0, 1, 7.0), e(1, 1, 5, 9.0)],
        vertices: grid_vertices(2),
        n_e: None,
        n_v: None,
        e_enc: Enc::plain(4),
        v_enc: Enc::plain(3),
        verbose: Some(false),
    });
    // W3: the declared vertex count is smaller than the vertex file
    out.push(Case {
        kind: "declared-nv-small",
        edges: vec![e(0, 0, 1, 7.0), e(1, 1, 2, 9.0), e(2, 2, 0, 4.0)],
        vertices: grid_vertices(3),
        n_e: Some(3),
        n_v: Some(2),
        e_enc: Enc::plain(4),
        v_enc: Enc::plain(3),
        verbose: Some(false),
    });
    // W4: vertex rows listed in another order than their ids
    out.push(Case {
        kind: "vertex-id-not-row",
        edges: vec![e(0, 0, 1, 7.0)],
        vertices: vec![v(1, 10.0, 20.0), v(0, 30.0, 40.0)],
        n_e: None,
        n_v: None,
        e_enc: Enc::plain(4),
        v_enc: Enc::plain(3),
        verbose: Some(false),
    });
    // W5: a duplicated edge id leaving the same vertex overwrites the adjacency entry
    out.push(Case {
        kind: "edge-id-duplicate",
        edges: vec![e(0, 0, 1, 7.0), e(0, 0, 2, 9.0), e(2, 1, 2, 1.0)],
        vertices: grid_vertices(3),
        n_e: None,
        n_v: None,
        e_enc: Enc::plain(4),
        v_enc: Enc::plain(3),
        verbose: Some(false),
    });
    // W6: a well-formed vertex file with classic-Mac (lone CR) line endings and a scanned vertex count
    let mut cr = Enc::plain(3);
    cr.cr_only = true;
    out.push(Case {
        kind: "cr-line-endings",
        edges: vec![e(0, 0, 1, 7.0), e(1, 1, 0, 9.0)],
        vertices: grid_vertices(2),
        n_e: None,
        n_v: None,
        e_enc: Enc::plain(4),
        v_enc: cr,
        verbose: Some(false),
    });
    // W8: the declared vertex count (3) covers an endpoint for which the vertex file (2 rows) has no row
    out.push(Case {
        kind: "fewer-vertex-rows",
        edges: vec![e(0, 0, 1, 7.0), e(1, 1, 2, 9.0)],
        vertices: grid_vertices(2),
        n_e: Some(2),
        n_v: Some(3),
        e_enc: Enc::plain(4),
        v_enc: Enc::plain(3),
        verbose: Some(false),
    });
    // W9: the same with a scanned count: a trailing blank line makes the scan see one vertex more
    let mut blank = Enc::plain(3);
    blank.trailing_blank = 1;
    out.push(Case {
        kind: "fewer-vertex-rows",
        edges: vec![e(0, 0, 1, 7.0), e(1, 1, 2, 9.0)],
        vertices: grid_vertices(2),
        n_e: None,
        n_v: None,
        e_enc: Enc::plain(4),
        v_enc: blank,
        verbose: Some(false),
    });
    // W7: a gzip-compressed vertex file that is not named *.gz, scanned vertex count
    let mut mis = Enc::plain(3);
    mis.gz = true;
    mis.misnamed = true;
    out.push(Case {
        kind: "compression-misnamed",
        edges: vec![e(0, 0, 1, 7.0), e(1, 1, 0, 9.0)],
        vertices: grid_vertices(2),
        n_e: None,
        n_v: None,
        e_enc: Enc::plain(4),
        v_enc: mis,
        verbose: Some(false),
    });
    // --- error kinds ---
    let base = Case {
        kind: "wf",
        edges: vec![e(0, 0, 1, 7.0), e(1, 1, 0, 9.0)],
        vertices: grid_vertices(2),
        n_e: None,
        n_v: None,
        e_enc: Enc::plain(4),
        v_enc: Enc::plain(3),
        verbose: Some(false),
    };
    for (kind, f) in [
        ("missing-file", Box::new(|c: &mut Case| c.e_enc.absent = true) as Box<dyn Fn(&mut Case)>),
        ("missing-file", Box::new(|c: &mut Case| c.v_enc.absent = true)),
        ("missing-file", Box::new(|c: &mut Case| { c.e_enc.absent = true; c.n_e = Some(2); c.n_v = Some(2) })),
        ("missing-file", Box::new(|c: &mut Case| { c.v_enc.absent = true; c.n_e = Some(2); c.n_v = Some(2) })),
        ("empty-file", Box::new(|c: &mut Case| c.e_enc.empty = true)),
        ("empty-file", Box::new(|c: &mut Case| c.v_enc.empty = true)),
        ("empty-file", Box::new(|c: &mut Case| { c.e_enc.empty = true; c.n_e = Some(2); c.n_v = Some(2) })),
        ("empty-file", Box::new(|c: &mut Case| { c.v_enc.empty = true; c.v_enc.gz = true; })),
        ("edge-missing-column", Box::new(|c: &mut Case| c.e_enc.drop_col = Some(3))),
        ("edge-missing-column", Box::new(|c: &mut Case| { c.e_enc.drop_col = Some(0); c.edges.clear() })),
        ("vertex-missing-column", Box::new(|c: &mut Case| c.v_enc.drop_col = Some(1))),
        ("edge-bad-cell", Box::new(|c: &mut Case| c.edges[1].bad = Some((1, "-1".into())))),
        ("vertex-bad-cell", Box::new(|c: &mut Case| c.vertices[0].bad = Some((2, "north".into())))),
        ("short-row", Box::new(|c: &mut Case| c.edges[0].short = true)),
    ] {
        let mut c = base.clone();
        c.kind = kind;
        f(&mut c);
        out.push(c);
    }
    out
}

// ------------------------------------------------------------------------------------------------

fn degree_bucket(d: usize) -> &'static str {
    match d {
        0 => "0",
        1..=4 => "1-4",
        5 => "5",
        6 => "6",
        7 => "7",
        8..=12 => "8-12",
        _ => "13+",
    }
}

/// the key under which a silently accepted inconsistent file is reported
fn finding_key(case: &Case, edges: &[ERow], vertices: &[VRow], table: usize) -> &'static str {
    let nv = vertices.len();
    // `table` is the size of the adjacency table the loader built (declared or scanned vertex count)
    if case.e_enc.cr_only || case.v_enc.cr_only {
        "graph_loader/scan-misses-cr-line-endings"
    } else if case.e_enc.misnamed || case.v_enc.misnamed {
        "graph_loader/scan-decides-gzip-by-extension"
    } else if edges.iter().enumerate().any(|(i, r)| r.id != i) {
        "graph_loader/edge-id-not-row-accepted"
    } else if vertices.iter().enumerate().any(|(i, r)| r.id != i) {
        "graph_loader/vertex-id-not-row-accepted"
    } else if edges.iter().any(|r| r.src >= table || r.dst >= table) {
        // an endpoint outside the adjacency table (declared / scanned vertex count)
        "edge_loader/missing-vertex-accepted"
    } else if edges.iter().any(|r| r.src >= nv || r.dst >= nv) {
        // inside the table, but the vertex file has no such row
        "graph_loader/endpoint-beyond-vertex-rows-accepted"
    } else {
        "graph_loader/inconsistent-files-accepted"
    }
}

fn run_load_case(ctx: &mut Ctx, idx: usize, dir: &Path, case: &Case, rng: &Rng) {
    let tag = format!("c{}", idx);
    let w = write_case(dir, &tag, rng, case, case.e_enc.gz, case.v_enc.gz);
    let line = case_line(case, &w);
    let res = load_v(&w, case.n_e, case.n_v, case.verbose);
    let out = outcome_line(&res);
    ctx.emit(idx, line.clone(), out.clone());

    // distribution
    let wf = case.well_formed();
    ctx.count(if wf { "files/well-formed" } else { "files/malformed" });
    if !wf {
        ctx.count(&format!("malformed/{}", case.kind));
    }
    ctx.count(match &res {
        Err(_) => "outcome/panic",
        Ok(Err(NetworkError::IOError { .. })) => "outcome/err-io",
        Ok(Err(NetworkError::DatasetError(_))) => "outcome/err-dataset",
        Ok(Err(NetworkError::CsvError { .. })) => "outcome/err-csv",
        Ok(Err(_)) => "outcome/err-other",
        Ok(Ok(_)) => "outcome/ok",
    });
    if case.e_enc.gz {
        ctx.count("encoding/edge-file-gzip");
    }
    if case.v_enc.gz {
        ctx.count("encoding/vertex-file-gzip");
    }
    if case.n_e.is_none() {
        ctx.count("counts/edges-scanned");
    }
    if case.n_v.is_none() {
        ctx.count("counts/vertices-scanned");
    }
    if case.v_enc.order.iter().enumerate().any(|(i, c)| i != *c) {
        ctx.count("encoding/vertex-columns-permuted");
    }
    if case.v_enc.n_extra > 0 {
        ctx.count("encoding/vertex-extra-columns");
    }
    if case.e_enc.order.iter().enumerate().any(|(i, c)| i != *c) {
        ctx.count("encoding/edge-columns-permuted");
    }
    if case.e_enc.crlf || case.v_enc.crlf {
        ctx.count("encoding/crlf");
    }
    if !case.e_enc.final_newline || !case.v_enc.final_newline {
        ctx.count("encoding/no-final-newline");
    }
    if wf {
        let nv = case.vertices.len();
        let mut dout = vec![0usize; nv];
        let mut din = vec![0usize; nv];
        let mut selfloop = false;
        let mut parallel = false;
        let mut seen = std::collections::BTreeSet::new();
        for r in &case.edges {
            dout[r.src] += 1;
            din[r.dst] += 1;
            selfloop |= r.src == r.dst;
            parallel |= !seen.insert((r.src, r.dst));
        }
        ctx.count(&format!("max-out-degree/{}", degree_bucket(dout.iter().cloned().max().unwrap_or(0))));
        ctx.count(&format!("max-in-degree/{}", degree_bucket(din.iter().cloned().max().unwrap_or(0))));
        if selfloop {
            ctx.count("shape/self-loop");
        }
        if parallel {
            ctx.count("shape/parallel-edges");
        }
        if (0..nv).any(|i| dout[i] == 0 && din[i] == 0) {
            ctx.count("shape/isolated-vertex");
        }
        ctx.count_n("edges-total", case.edges.len() as u64);
    }
    if !wf || !case.edges.is_empty() {
        ctx.nontrivial(&line);
    }

    // oracle
    match &res {
        Err(p) => ctx.fail(idx, "graph_loader/panic", format!("Graph::from_files panicked: {}", p)),
        Ok(Err(err)) => {
            if wf {
                ctx.fail(idx, "graph/load-error", format!("well-formed files rejected: {}", err));
            } else if case.data_well_formed() {
                ctx.fail(
                    idx,
                    "graph_loader/scan-decides-gzip-by-extension",
                    format!("well-formed files whose names do not say how they are compressed are rejected: {}", err),
                );
            }
        }
        Ok(Ok(g)) => {
            let any_bad = (!case.e_enc.empty && case.edges.iter().any(|r| case.e_bad(r)))
                || (!case.v_enc.empty && case.vertices.iter().any(|r| case.v_bad(r)));
            if case.e_enc.absent || case.v_enc.absent {
                ctx.fail(idx, "graph_loader/missing-file-accepted", "a file is missing but the load succeeded".into());
            } else if case.e_enc.cut.is_some() || case.v_enc.cut.is_some() {
                ctx.fail(
                    idx,
                    "read_utils/truncated-gzip-accepted",
                    format!(
                        "a gzip file is cut short ({:?} / {:?}) but the load succeeded with {} edges and {} vertices ({} and {} are listed)",
                        case.e_enc.cut,
                        case.v_enc.cut,
                        g.n_edges(),
                        g.n_vertices(),
                        case.edges.len(),
                        case.vertices.len()
                    ),
                );
            } else if case.e_enc.empty || case.v_enc.empty {
                ctx.fail(
                    idx,
                    "read_utils/empty-file-accepted",
                    format!("a file has no content at all (counts {:?}/{:?}) but the load succeeded", case.n_e, case.n_v),
                );
            } else if any_bad {
                ctx.fail(idx, "graph_loader/undecodable-row-accepted", "a row does not decode but the load succeeded".into());
            } else {
                let edges: Vec<ERow> = if case.e_enc.empty { vec![] } else { case.edges.clone() };
                let vertices: Vec<VRow> = if case.v_enc.empty { vec![] } else { case.vertices.clone() };
                if let Some((aspect, msg)) = check_by_id(g, &edges, &vertices) {
                    if wf && (case.e_enc.gz && case.e_enc.members > 1 || case.v_enc.gz && case.v_enc.members > 1) {
                        ctx.fail(idx, "read_utils/gzip-later-members-dropped", format!("[gzip members {}/{}] {}", case.e_enc.members, case.v_enc.members, msg));
                    } else if wf {
                        ctx.fail(idx, &format!("graph/{}", aspect), msg);
                    } else {
                        ctx.fail(idx, finding_key(case, &edges, &vertices, g.adj.len()), format!("[{}; {}] the load succeeds but {}", case.kind, aspect, msg));
                    }
                }
            }
        }
    }
    if wf {
        // gzip / plain parity: the other compression of the same text loads to the same network
        let w2 = write_case(dir, &format!("{}t", tag), rng, case, !case.e_enc.gz, !case.v_enc.gz);
        let out2 = outcome_line(&load(&w2, case.n_e, case.n_v));
        if out2 != out {
            ctx.fail(idx, "graph/gzip-parity", format!("edge file gzip={} vertex file gzip={} loads differently from the other compression", case.e_enc.gz, case.v_enc.gz));
        }
        // explicit / scanned parity: the other way of giving the counts loads a network that matches the rows
        let n_e2 = if case.n_e.is_some() { None } else { Some(case.edges.len()) };
        let n_v2 = if case.n_v.is_some() { None } else { Some(case.vertices.len()) };
        match load(&w, n_e2, n_v2) {
            Ok(Ok(g2)) => {
                if let Some((aspect, msg)) = check_by_id(&g2, &case.edges, &case.vertices) {
                    ctx.fail(idx, "graph/count-parity", format!("with counts {:?}/{:?}: {} {}", n_e2, n_v2, aspect, msg));
                }
            }
            Ok(Err(err)) => ctx.fail(idx, "graph/count-parity", format!("with counts {:?}/{:?}: {}", n_e2, n_v2, err)),
            Err(p) => ctx.fail(idx, "graph_loader/panic", format!("with counts {:?}/{:?}: panic {}", n_e2, n_v2, p)),
        }
        let _ = std::fs::remove_file(&w2.e_path);
        let _ = std::fs::remove_file(&w2.v_path);
    }
    let _ = std::fs::remove_file(&w.e_path);
    let _ = std::fs::remove_file(&w.v_path);
}

// ------------------------------------------------------------------------------------------------
// per-edge tables through the real readers

fn run_table_case(ctx: &mut Ctx, idx: usize, dir: &Path, rng: &mut Rng, kind: usize) {
    let n = 1 + rng.below(if ctx.quick() { 40 } else { 400 });
    let gz = rng.chance(1, 2);
    let final_newline = !rng.chance(1, 5);
    let names = ["speed", "grade", "class", "heading"];
    let path = dir.join(format!("t{}_{}.{}{}", idx, names[kind], if kind == 3 { "csv" } else { "txt" }, if gz { ".gz" } else { "" }));
    // payloads as 64-bit integers: f64 bits, the class, or the two headings packed
    let mut payload: Vec<u64> = vec![];
    let mut lines: Vec<String> = vec![];
    if kind == 3 {
        lines.push("arrival_heading,departure_heading".into());
    }
    for _ in 0..n {
        match kind {
            0 => {
                let x = if rng.chance(1, 2) { (5 + rng.below(120)) as f64 } else { rng.small_decimal(130, 2) + 0.5 };
                payload.push(x.to_bits());
                lines.push(format!("{}", x));
            }
            1 => {
                let x = if rng.chance(1, 5) { 0.0 } else { rng.uniform(-0.3, 0.3) };
                payload.push(x.to_bits());
                lines.push(format!("{}", x));
            }
            2 => {
                let x = rng.below(256) as u64;
                payload.push(x);
                lines.push(format!("{}", x));
            }
            _ => {
                let a = rng.range(0, 359) as i16;
                let b = rng.range(0, 359) as i16;
                if rng.chance(1, 5) {
                    // no departure heading: it is the arrival heading
                    payload.push(((a as u16 as u64) << 16) | (a as u16 as u64));
                    lines.push(format!("{},", a));
                } else {
                    payload.push(((a as u16 as u64) << 16) | (b as u16 as u64));
                    lines.push(format!("{},{}", a, b));
                }
            }
        }
    }
    let mut text = lines.join("\n");
    if final_newline {
        text.push('\n');
    }
    write_file(&path, &text, gz);
    let p2 = path.clone();
    let loaded: Result<Result<Vec<u64>, String>, ()> = std::panic::catch_unwind(move || match kind {
        0 => SpeedTraversalEngine::new(&p2, SpeedUnit::KilometersPerHour, None, None)
            .map(|e| e.speed_table.iter().map(|s| s.as_f64().to_bits()).collect())
            .map_err(|e| e.to_string()),
        1 => read_utils::read_raw_file(&p2, read_decoders::default::<Grade>, None)
            .map(|t| t.iter().map(|g| g.as_f64().to_bits()).collect())
            .map_err(|e| e.to_string()),
        2 => read_utils::read_raw_file(&p2, read_decoders::u8, None)
            .map(|t| t.iter().map(|c| *c as u64).collect())
            .map_err(|e| e.to_string()),
        _ => read_utils::from_csv::<EdgeHeading>(&p2, true, None)
            .map(|t| t.iter().map(|h| ((h.start_heading() as u16 as u64) << 16) | (h.end_heading() as u16 as u64)).collect())
            .map_err(|e| e.to_string()),
    })
    .map_err(|_| ());
    let _ = std::fs::remove_file(&path);
    // probes: every edge id, one beyond, in a shuffled order
    let mut probes: Vec<usize> = (0..=n).collect();
    rng.shuffle(&mut probes);
    probes.truncate(12);
    let mut t: Vec<String> = vec!["table".into(), format!("{}:{}{}", names[kind], if gz { "gz" } else { "pl" }, if final_newline { "N" } else { "n" })];
    t.push(n.to_string());
    t.extend(payload.iter().map(|p| p.to_string()));
    t.push(probes.len().to_string());
    t.extend(probes.iter().map(|p| p.to_string()));
    let line = t.join(" ");
    let out = match &loaded {
        Ok(Ok(tab)) => {
            let mut o = vec![tab.len().to_string()];
            for p in &probes {
                o.push(match tab.get(*p) {
                    Some(x) => format!("some {}", x),
                    None => "none".to_string(),
                });
            }
            o.join(" ")
        }
        Ok(Err(_)) => "err".to_string(),
        Err(_) => "panic".to_string(),
    };
    ctx.emit(idx, line.clone(), out);
    ctx.count(&format!("table/{}", names[kind]));
    ctx.nontrivial(&line);
    match &loaded {
        Ok(Ok(tab)) => {
            if tab.len() != n {
                ctx.fail(idx, "table/alignment", format!("{} table: {} rows written, {} loaded", names[kind], n, tab.len()));
            } else if let Some(i) = (0..n).find(|&i| tab[i] != payload[i]) {
                ctx.fail(idx, "table/alignment", format!("{} table: row {} written {} loaded {}", names[kind], i, payload[i], tab[i]));
            }
        }
        Ok(Err(e)) => ctx.fail(idx, "table/load-error", format!("{} table rejected: {}", names[kind], e)),
        Err(_) => ctx.fail(idx, "table/panic", format!("{} table reader panicked", names[kind])),
    }
}

pub fn run(ctx: &mut Ctx) -> &'static str {
    let dir = std::env::current_dir().unwrap().join("work").join(format!("c15_scratch_{}", std::process::id()));
    std::fs::create_dir_all(&dir).expect("scratch dir");

    for case in corpus() {
        let Some(idx) = ctx.begin() else { continue };
        let rng = Rng::for_case(ctx.seed, 15, idx as u64);
        run_load_case(ctx, idx, &dir, &case, &rng);
    }
    let n_wf = ctx.n(1500, 24000);
    for k in 0..n_wf {
        let Some(idx) = ctx.begin() else { continue };
        let mut rng = Rng::for_case(ctx.seed, 15, idx as u64);
        let big = !ctx.quick() && k % 4 == 0;
        let case = gen_well_formed(&mut rng, big);
        run_load_case(ctx, idx, &dir, &case, &rng);
    }
    let n_mal = ctx.n(540, 7200);
    for k in 0..n_mal {
        let Some(idx) = ctx.begin() else { continue };
        let mut rng = Rng::for_case(ctx.seed, 15, idx as u64);
        let case = gen_malformed(&mut rng, MALFORMED[k % MALFORMED.len()]);
        run_load_case(ctx, idx, &dir, &case, &rng);
    }
    let n_tab = ctx.n(160, 2000);
    for k in 0..n_tab {
        let Some(idx) = ctx.begin() else { continue };
        let mut rng = Rng::for_case(ctx.seed, 15, idx as u64);
        run_table_case(ctx, idx, &dir, &mut rng, k % 4);
    }
    let _ = std::fs::remove_dir_all(&dir);
    "edge/vertex CSV files written by the harness (plain and gzip; permuted and extra columns in both files, padding, quoting, CRLF, missing final newline, trailing blank lines; vertex degrees 0-12 and above, parallel edges, self loops, isolated vertices; explicit and scanned counts) loaded with the real Graph::from_files, every accessor printed for every edge/vertex id and one id beyond each range; 20 kinds of malformed input (ids not row numbers, endpoints without vertex, wrong declared counts, missing column, undecodable cell, short row, missing or empty file, lone-CR line endings, compression not matching the file name); per-edge tables (speed, grade, road class, heading) read by the real readers; non-trivial = a network with at least one edge, a malformed input, or a table; distinct by full case text"
}
