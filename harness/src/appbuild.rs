//! The `bld` streams of the search properties (C01 C02 C03 C04 C10): the application's builders,
//! services and query parsers, called directly with well-formed and malformed configurations, files
//! and query fields.  One case per call; the case line starts with `bld <op>` and is answered by
//! `lean/Compass/Drv/Build.lean` (model: `lean/Compass/Model/Build.lean`).
//!
//!   C02  speng  SpeedLookupBuilder + SpeedTraversalEngine::new over a speed table FILE (max speed,
//!               default units, "no entries" / "max speed zero"), probed through the service's model
//!        dist   DistanceTraversalBuilder
//!        wf     the `weight_factor` query field of SearchAlgorithm::AStarAlgorithm
//!   C03  speng, heads (TurnDelayAccessModelBuilder over an edge-headings FILE + delay table)
//!   C04  vp     VehicleParameters::from_query
//!        rc     RoadClassBuilder (file, parser mapping) + `road_classes` of the query
//!        tr     TurnRestrictionBuilder (file)
//!        vr     VehicleRestrictionBuilder (file) + vehicle parameters of the query
//!        comb   CombinedBuilder
//!   C10  term   TerminationModelBuilder
//!   C01  kspnd  k-shortest-path algorithms without destination; aeo: a_star_algorithm::
//!               run_a_star_edge_oriented + backtrack::edge_oriented_route called directly
//!
//! Oracle (independent of the Lean model): a malformed input is a clean `Err` — never accepted
//! (`build/accepts-malformed`, `query/vehicle-parameters-accepts-malformed`), never a panic
//! (`build/panic`, `query/vehicle-parameters-panic`) — and a well-formed one is accepted
//! (`build/valid-configuration-refused`) with exactly the values written.
use crate::ctx::{fbits, Ctx};
use crate::jsonproto::{enc, hex};
use crate::rng::Rng;
use crate::search::*;
use crate::searchprops::Prop;
use routee_compass::app::compass::config::compass_configuration_error::CompassConfigurationError;
use routee_compass::app::compass::config::frontier_model::vehicle_restrictions::vehicle_parameters::VehicleParameters;
use routee_compass::app::compass::config::termination_model_builder::TerminationModelBuilder;
use routee_compass_core::model::frontier::frontier_model_builder::FrontierModelBuilder;
use routee_compass_core::model::network::{Edge, Vertex};
use routee_compass_core::model::state::state_feature::StateFeature;
use routee_compass_core::model::state::state_model::StateModel;
use routee_compass_core::model::termination::termination_model::TerminationModel;
use routee_compass_core::model::traversal::default::speed_traversal_engine::SpeedTraversalEngine;
use routee_compass_core::model::traversal::traversal_model::TraversalModel;
use routee_compass_core::model::traversal::traversal_model_builder::TraversalModelBuilder;
use routee_compass_core::model::unit::as_f64::AsF64;
use routee_compass_core::model::unit::*;
use serde_json::{json, Value};
use std::panic::{catch_unwind, AssertUnwindSafe};
use std::sync::Arc;

const FILE: &str = "@FILE";

/// what the generator knows about the input it made
#[derive(Clone, Copy, PartialEq, Eq, Debug)]
enum Expect {
    /// well-formed: must be accepted
    Ok,
    /// malformed (ill-typed, missing, unknown name, unparsable, empty): must be a clean `Err`
    Err,
    /// no verdict (a semantic corner recorded under its own key, or decided by the model only)
    Open,
}

fn panic_text(p: Box<dyn std::any::Any + Send>) -> String {
    p.downcast_ref::<String>().cloned().or_else(|| p.downcast_ref::<&str>().map(|s| s.to_string())).unwrap_or_default()
}

/// a JSON value of the wrong type for about any field
fn ill_typed(rng: &mut Rng) -> Value {
    match rng.below(7) {
        0 => Value::Null,
        1 => json!(true),
        2 => json!(17),
        3 => json!("zzz"),
        4 => json!([]),
        5 => json!({}),
        _ => json!(-2.5),
    }
}

/// serde's other spellings of a unit-only enum variant `name` (the usual one is the string): the
/// externally tagged form `{name: null}` is accepted everywhere; `{name: {}}` only where the value is
/// deserialised from serde's buffered content (inside an internally tagged enum); anything else is
/// refused.  Returns (value, accepted).
fn unit_forms(rng: &mut Rng, name: &str, buffered: bool) -> (Value, bool) {
    match rng.below(8) {
        0 | 1 | 2 | 3 => (json!({ name: null }), true),
        4 => (json!({ name: {} }), buffered),
        5 => (json!({ name: null, "other": null }), false),
        6 => (json!({ name: 1 }), false),
        _ => (json!([name]), false),
    }
}

fn put_path(cfg: &Value, path: &str) -> Value {
    match cfg {
        Value::String(s) if s == FILE => Value::String(path.to_string()),
        Value::Object(m) => Value::Object(m.iter().map(|(k, v)| (k.clone(), put_path(v, path))).collect()),
        Value::Array(a) => Value::Array(a.iter().map(|v| put_path(v, path)).collect()),
        other => other.clone(),
    }
}

fn verdict(ctx: &mut Ctx, idx: usize, site: &str, expect: Expect, ok: bool, panicked: Option<&str>, what: &str) {
    if let Some(msg) = panicked {
        ctx.fail(idx, "build/panic", format!("{}: panic '{}' on {}", site, msg, what));
        return;
    }
    match (expect, ok) {
        (Expect::Err, true) => ctx.fail(idx, "build/accepts-malformed", format!("{}: accepted {}", site, what)),
        (Expect::Ok, false) => ctx.fail(idx, "build/valid-configuration-refused", format!("{}: refused {}", site, what)),
        _ => {}
    }
}

// ---------------------------------------------------------------------------------------------
// rows of the per-edge files

#[derive(Clone, Debug)]
enum NumRow {
    /// a line holding a text of this double
    V(f64, u8),
    Nan,
    Junk(&'static str),
}

fn num_text(x: f64, style: u8) -> String {
    match style {
        1 => format!("{:e}", x),
        2 if x >= 0.0 => format!("+{}", x),
        3 if x.fract() == 0.0 && x.abs() < 1e15 => format!("{:.1}", x),
        _ => format!("{}", x),
    }
}

impl NumRow {
    fn text(&self) -> String {
        match self {
            NumRow::V(x, st) => num_text(*x, *st),
            NumRow::Nan => "NaN".into(),
            NumRow::Junk(s) => s.to_string(),
        }
    }
    fn tok(&self) -> String {
        match self {
            NumRow::V(x, _) => format!("v {}", fbits(*x)),
            NumRow::Nan => "nan".into(),
            NumRow::Junk(_) => "j".into(),
        }
    }
}

const JUNK_NUM: [&str; 8] = ["", "abc", "12,5", " 7", "7 ", "1e", "--3", "0x10"];

/// an integer cell of a CSV / row file
#[derive(Clone, Debug)]
enum IntCell {
    I(i128, u8),
    Empty,
    Junk(&'static str),
}

impl IntCell {
    fn text(&self) -> String {
        match self {
            IntCell::I(z, 1) if *z >= 0 => format!("0{}", z),
            IntCell::I(z, _) => z.to_string(),
            IntCell::Empty => String::new(),
            IntCell::Junk(s) => s.to_string(),
        }
    }
    fn tok(&self) -> String {
        match self {
            IntCell::I(z, _) => format!("i {}", z),
            IntCell::Empty => "e".into(),
            IntCell::Junk(_) => "j".into(),
        }
    }
}

// (the csv crate reads `0x1f` as a hexadecimal integer: not junk there)
const JUNK_INT: [&str; 6] = ["x", "1.5", "1e2", "1 2", "--1", "1_0"];

fn file_tok(rows: Option<Vec<String>>) -> String {
    match rows {
        None => "n".into(),
        Some(r) => {
            let mut t = format!("s {}", r.len());
            for x in r {
                t.push(' ');
                t.push_str(&x);
            }
            t
        }
    }
}

// ---------------------------------------------------------------------------------------------
// C02 / C03: speed table

fn time_dist_model(tu: TimeUnit, du: DistanceUnit) -> StateModel {
    StateModel::empty()
        .extend(vec![
            ("time".to_string(), StateFeature::Time { time_unit: tu, initial: Time::ZERO }),
            ("distance".to_string(), StateFeature::Distance { distance_unit: du, initial: Distance::ZERO }),
        ])
        .expect("state model")
}

fn state_out(st: &[routee_compass_core::model::traversal::state::state_variable::StateVar]) -> String {
    let mut s = String::from("some");
    for x in st {
        s.push(' ');
        s.push_str(&fbits(x.0));
    }
    s
}

fn features_out(fs: &[(String, StateFeature)]) -> String {
    let mut s = format!("sf {}", fs.len());
    for (n, f) in fs {
        match f {
            StateFeature::Time { time_unit, initial } => s.push_str(&format!(" {} T {} {}", n, time_unit, fbits(initial.as_f64()))),
            StateFeature::Distance { distance_unit, initial } => s.push_str(&format!(" {} D {} {}", n, distance_unit, fbits(initial.as_f64()))),
            _ => s.push_str(&format!(" {} X", n)),
        }
    }
    s
}

/// the two end points of the estimate probe: `far` metres apart or out of the coordinate range
fn probe_points(rng: &mut Rng) -> (Vertex, Vertex, Option<f64>) {
    let a = Vertex::new(0, -105.0 + 0.05 * rng.unit() as f32, 39.7 + 0.05 * rng.unit() as f32);
    let b = match rng.below(6) {
        0 => Vertex::new(1, a.x(), a.y()),
        1 => Vertex::new(1, -105.0, 95.0),
        _ => Vertex::new(1, -105.0 + 0.05 * rng.unit() as f32, 39.7 + 0.05 * rng.unit() as f32),
    };
    let gc = routee_compass_core::util::geo::haversine::coord_distance_meters(&a.coordinate.0, &b.coordinate.0).ok().map(|d| d.as_f64());
    (a, b, gc)
}

fn speed_err_kind(msg: &str) -> &'static str {
    if msg.contains("cannot read") {
        "read"
    } else if msg.contains("parsed 0 entries") {
        "empty"
    } else if msg.contains("max speed was zero") {
        "zero"
    } else {
        "config"
    }
}

fn op_speng(ctx: &mut Ctx, idx: usize, rng: &mut Rng, corpus: Option<Vec<NumRow>>) {
    use routee_compass::app::compass::config::traversal_model::speed_lookup_builder::SpeedLookupBuilder;
    let su = *rng.pick(&SU);
    let du = if rng.chance(1, 3) { None } else { Some(*rng.pick(&DU)) };
    let tu = if rng.chance(1, 3) { None } else { Some(*rng.pick(&TU)) };
    // rows
    let n = match rng.below(8) {
        0 => 0,
        k => k,
    };
    let flavour = rng.below(10);
    let mut rows: Vec<NumRow> = (0..n)
        .map(|_| {
            let x = if rng.chance(1, 3) { (5 * (1 + rng.below(20))) as f64 } else { 5.0 + 80.0 * rng.unit() };
            NumRow::V(x, rng.below(5) as u8)
        })
        .collect();
    let mut expect = if n == 0 { Expect::Err } else { Expect::Ok };
    let mut nan_row = false;
    if n > 0 {
        let k = rng.below(n);
        match flavour {
            0 => {
                rows[k] = NumRow::Junk(*rng.pick(&JUNK_NUM));
                expect = Expect::Err;
            }
            1 => {
                rows[k] = NumRow::V(-(1.0 + 50.0 * rng.unit()), 0);
                expect = Expect::Err;
            }
            2 => {
                // every speed zero: nothing can be traversed and the maximum is useless
                for r in rows.iter_mut() {
                    *r = NumRow::V(0.0, 0);
                }
                expect = Expect::Err;
            }
            3 => rows[k] = NumRow::V(0.0, rng.below(4) as u8), // a zero among positive speeds is loaded
            4 => rows[k] = NumRow::V(f64::INFINITY, 0),          // "(0, +inf]" says the parser
            5 if rng.chance(1, 2) => {
                rows[k] = NumRow::Nan;
                nan_row = true;
                expect = Expect::Open;
            }
            _ => {}
        }
        if flavour == 3 && n == 1 {
            expect = Expect::Err;
        }
    }
    let mut file_present = !rng.chance(1, 12);
    if !file_present {
        expect = Expect::Err;
    }
    let is_corpus = corpus.is_some();
    if let Some(r) = corpus {
        // a witness: the rows as given, a well-formed configuration
        nan_row = r.iter().any(|x| matches!(x, NumRow::Nan));
        rows = r;
        expect = Expect::Open;
        file_present = true;
    }
    let n = rows.len();
    // configuration
    let mut cfg = serde_json::Map::new();
    cfg.insert("type".into(), json!("speed_table"));
    cfg.insert("speed_table_input_file".into(), json!(FILE));
    cfg.insert("speed_unit".into(), json!(su.to_string()));
    if let Some(du) = du {
        cfg.insert("distance_unit".into(), json!(du.to_string()));
    }
    if let Some(tu) = tu {
        cfg.insert("time_unit".into(), json!(tu.to_string()));
    }
    let mut cfg_ok = true;
    if rng.chance(1, 5) && !is_corpus {
        cfg_ok = false;
        match rng.below(7) {
            0 => {
                cfg.remove("speed_table_input_file");
            }
            1 => {
                cfg.insert("speed_table_input_file".into(), json!(12));
            }
            2 => {
                cfg.remove("speed_unit");
            }
            3 => {
                cfg.insert("speed_unit".into(), json!(*rng.pick(&["kph", "KilometersPerHour", "meters", ""])));
            }
            4 => {
                cfg.insert("speed_unit".into(), ill_typed(rng));
            }
            5 => {
                cfg.insert("distance_unit".into(), if rng.chance(1, 2) { json!("furlongs") } else { ill_typed(rng) });
            }
            _ => {
                cfg.insert("time_unit".into(), if rng.chance(1, 2) { json!("fortnights") } else { ill_typed(rng) });
            }
        }
        expect = Expect::Err;
    }
    if cfg_ok && !is_corpus && rng.chance(1, 6) {
        // a unit written in serde's other form
        let keys: Vec<&str> = ["speed_unit", "distance_unit", "time_unit"].into_iter().filter(|k| cfg.contains_key(*k)).collect();
        let key = *rng.pick(&keys);
        let name = cfg[key].as_str().unwrap_or("").to_string();
        let (v, accepted) = unit_forms(rng, &name, false);
        cfg.insert(key.into(), v);
        ctx.count("bld_unit_as_map");
        if !accepted {
            cfg_ok = false;
            expect = Expect::Err;
        }
    }
    let cfg = Value::Object(cfg);
    let gzip = rng.chance(1, 5);
    let sc = Scratch::new();
    let text: String = rows.iter().map(|r| format!("{}\n", r.text())).collect();
    let path = if file_present { sc.file("speeds.txt", &text, gzip) } else { sc.path("no_such_file.txt") };
    let real_cfg = put_path(&cfg, &path);
    // probes
    let len_m = 50.0 + 3000.0 * rng.unit();
    let (pa, pb, gc) = probe_points(rng);
    let fdu = *rng.pick(&DU);
    let ftu = *rng.pick(&TU);
    // the state model of the probes: now and then without the feature the model writes to
    let lacking = match rng.below(12) {
        0 => 1, // no "time"
        1 => 2, // no "distance"
        _ => 0,
    };
    let res = catch_unwind(AssertUnwindSafe(|| -> Result<String, String> {
        let service = SpeedLookupBuilder {}.build(&real_cfg).map_err(|e| e.to_string())?;
        let model = service.build(&json!({})).map_err(|e| e.to_string())?;
        let sf = model.state_features();
        let mut out = features_out(&sf);
        let sm = match lacking {
            1 => StateModel::empty()
                .extend(vec![
                    ("trip_time".to_string(), StateFeature::Time { time_unit: ftu, initial: Time::ZERO }),
                    ("distance".to_string(), StateFeature::Distance { distance_unit: fdu, initial: Distance::ZERO }),
                ])
                .map_err(|e| e.to_string())?,
            2 => StateModel::empty()
                .extend(vec![
                    ("time".to_string(), StateFeature::Time { time_unit: ftu, initial: Time::ZERO }),
                    ("trip_distance".to_string(), StateFeature::Distance { distance_unit: fdu, initial: Distance::ZERO }),
                ])
                .map_err(|e| e.to_string())?,
            _ => time_dist_model(ftu, fdu),
        };
        out.push_str(&format!(" trav {}", n + 1));
        for e in 0..=n {
            let mut st = sm.initial_state().map_err(|e| e.to_string())?;
            let edge = Edge::new(e, 0, 1, len_m);
            match model.traverse_edge((&pa, &edge, &pb), &mut st, &sm) {
                Ok(()) => out.push_str(&format!(" {}", state_out(&st))),
                Err(_) => out.push_str(" none"),
            }
        }
        let mut st = sm.initial_state().map_err(|e| e.to_string())?;
        match model.estimate_traversal((&pa, &pb), &mut st, &sm) {
            Ok(()) => out.push_str(&format!(" est {}", state_out(&st))),
            Err(_) => out.push_str(" est none"),
        }
        Ok(out)
    }));
    // the same constructor called directly (its fields are public)
    let direct = if cfg_ok { Some(catch_unwind(AssertUnwindSafe(|| SpeedTraversalEngine::new(&path, su, du, tu)))) } else { None };
    drop(sc);
    let case = format!(
        "bld speng {} {} {} {} {} {} {}",
        enc(&cfg),
        file_tok(if file_present { Some(rows.iter().map(|r| r.tok()).collect()) } else { None }),
        fbits(len_m),
        match gc {
            Some(g) => format!("s {}", fbits(g)),
            None => "n".into(),
        },
        ftu,
        fdu,
        lacking
    );
    let _ = gzip;
    ctx.count("bld_speng");
    let what = format!("config {} rows {:?}", cfg, rows.iter().map(|r| r.text()).collect::<Vec<_>>());
    match res {
        Err(p) => {
            let msg = panic_text(p);
            ctx.emit(idx, case, format!("panic {}", msg.replace(' ', "_")));
            verdict(ctx, idx, "SpeedLookupBuilder", expect, false, Some(&msg), &what);
        }
        Ok(Err(e)) => {
            ctx.count("bld_speng_err");
            ctx.emit(idx, case.clone(), format!("err {}", speed_err_kind(&e)));
            ctx.nontrivial(&case);
            verdict(ctx, idx, "SpeedLookupBuilder", expect, false, None, &what);
        }
        Ok(Ok(out)) => {
            ctx.count("bld_speng_ok");
            ctx.emit(idx, case.clone(), format!("ok {}", out));
            ctx.nontrivial(&case);
            verdict(ctx, idx, "SpeedLookupBuilder", expect, true, None, &what);
            if nan_row {
                ctx.fail(idx, "speed_engine/nan-speed-accepted", format!("a speed table with a NaN row was loaded: {}", what));
            }
        }
    }
    if let Some(d) = direct {
        match d {
            Err(p) => ctx.fail(idx, "build/panic", format!("SpeedTraversalEngine::new: panic '{}' on {}", panic_text(p), what)),
            Ok(Err(_)) => {
                if expect == Expect::Ok {
                    ctx.fail(idx, "build/valid-configuration-refused", format!("SpeedTraversalEngine::new refused {}", what));
                }
            }
            Ok(Ok(eng)) => {
                if expect == Expect::Err {
                    ctx.fail(idx, "build/accepts-malformed", format!("SpeedTraversalEngine::new accepted {}", what));
                }
                // the engine holds the file's rows in order, the maximum of them, the given or default units
                let vals: Vec<f64> = rows.iter().map(|r| if let NumRow::V(x, _) = r { *x } else { f64::NAN }).collect();
                let got: Vec<f64> = eng.speed_table.iter().map(|s| s.as_f64()).collect();
                if !nan_row {
                    if got.len() != vals.len() || got.iter().zip(&vals).any(|(a, b)| a.to_bits() != b.to_bits()) {
                        ctx.fail(idx, "speed_engine/table-not-the-file", format!("loaded {:?} from rows {:?}", got, vals));
                    }
                    let m = vals.iter().cloned().fold(f64::NEG_INFINITY, f64::max);
                    if eng.max_speed.as_f64() != m {
                        ctx.fail(idx, "speed_engine/max-speed-not-maximum", format!("max_speed {} but the largest row is {}", eng.max_speed, m));
                    }
                    if !(eng.max_speed.as_f64() > 0.0) {
                        ctx.fail(idx, "speed_engine/max-speed-not-positive", format!("max_speed {}", eng.max_speed));
                    }
                }
                if eng.distance_unit != du.unwrap_or(DistanceUnit::Meters) || eng.time_unit != tu.unwrap_or(TimeUnit::Seconds) || eng.speed_unit.to_string() != su.to_string() {
                    ctx.fail(idx, "speed_engine/units", format!("units {} {} {} for {:?} {:?} {}", eng.distance_unit, eng.time_unit, eng.speed_unit, du, tu, su));
                }
            }
        }
    }
}

fn op_dist(ctx: &mut Ctx, idx: usize, rng: &mut Rng) {
    use routee_compass::app::compass::config::traversal_model::distance_traversal_builder::DistanceTraversalBuilder;
    let mut cfg = serde_json::Map::new();
    cfg.insert("type".into(), json!("distance"));
    let mut expect = Expect::Ok;
    match rng.below(6) {
        0 => {}
        1 => {
            cfg.insert("distance_unit".into(), if rng.chance(1, 2) { json!(*rng.pick(&["km", "Meters", "seconds", ""])) } else { ill_typed(rng) });
            expect = Expect::Err;
        }
        2 => {
            // serde's other form of a unit variant: {"miles": null}
            let name = rng.pick(&DU).to_string();
            let (v, accepted) = unit_forms(rng, &name, false);
            cfg.insert("distance_unit".into(), v);
            ctx.count("bld_unit_as_map");
            if !accepted {
                expect = Expect::Err;
            }
        }
        _ => {
            cfg.insert("distance_unit".into(), json!(rng.pick(&DU).to_string()));
        }
    }
    let cfg = Value::Object(cfg);
    let len_m = 50.0 + 3000.0 * rng.unit();
    let (pa, pb, gc) = probe_points(rng);
    let fdu = *rng.pick(&DU);
    let lacking = rng.chance(1, 10);
    let res = catch_unwind(AssertUnwindSafe(|| -> Result<String, String> {
        let service = DistanceTraversalBuilder {}.build(&cfg).map_err(|e| e.to_string())?;
        let model = service.build(&json!({})).map_err(|e| e.to_string())?;
        let mut out = features_out(&model.state_features());
        let sm = StateModel::empty()
            .extend(vec![((if lacking { "trip_distance" } else { "distance" }).to_string(), StateFeature::Distance { distance_unit: fdu, initial: Distance::ZERO })])
            .map_err(|e| e.to_string())?;
        let mut st = sm.initial_state().map_err(|e| e.to_string())?;
        let edge = Edge::new(0, 0, 1, len_m);
        match model.traverse_edge((&pa, &edge, &pb), &mut st, &sm) {
            Ok(()) => out.push_str(&format!(" trav {}", state_out(&st))),
            Err(_) => out.push_str(" trav none"),
        }
        let mut st = sm.initial_state().map_err(|e| e.to_string())?;
        match model.estimate_traversal((&pa, &pb), &mut st, &sm) {
            Ok(()) => out.push_str(&format!(" est {}", state_out(&st))),
            Err(_) => out.push_str(" est none"),
        }
        Ok(out)
    }));
    let case = format!(
        "bld dist {} {} {} {} {}",
        enc(&cfg),
        fbits(len_m),
        match gc {
            Some(g) => format!("s {}", fbits(g)),
            None => "n".into(),
        },
        fdu,
        if lacking { 1 } else { 0 }
    );
    ctx.count("bld_dist");
    let what = format!("config {}", cfg);
    match res {
        Err(p) => {
            let msg = panic_text(p);
            ctx.emit(idx, case, format!("panic {}", msg.replace(' ', "_")));
            verdict(ctx, idx, "DistanceTraversalBuilder", expect, false, Some(&msg), &what);
        }
        Ok(Err(_)) => {
            ctx.emit(idx, case.clone(), "err config".into());
            ctx.nontrivial(&case);
            verdict(ctx, idx, "DistanceTraversalBuilder", expect, false, None, &what);
        }
        Ok(Ok(out)) => {
            ctx.emit(idx, case.clone(), format!("ok {}", out));
            ctx.nontrivial(&case);
            verdict(ctx, idx, "DistanceTraversalBuilder", expect, true, None, &what);
        }
    }
}

/// a one-edge instance for the calls that need a `SearchInstance`
fn tiny_case() -> SCase {
    SCase {
        coords: vec![(-105.0, 39.7), (-105.01, 39.7)],
        edges: vec![(0, 1, 100.0)],
        feats: vec![("distance".into(), FeatK::D(DistanceUnit::Meters), 0.0)],
        trav: Trav::Dist(DistanceUnit::Meters),
        access: Acc::None,
        weights: vec![("distance".into(), 1.0)],
        vrates: vec![("distance".into(), VR::Raw)],
        nrates: vec![],
        agg_mul: false,
        frontier: vec![],
        term: Term::Combined(vec![]),
        reverse: false,
        edge_oriented: false,
        source: 0,
        target: Some(1),
        astar: Some(None),
        query_wf: None,
        svc: None,
        term_via_builder: false,
        svc_unknown_weight: false,
        app: Default::default(),
    }
}

fn op_wf(ctx: &mut Ctx, idx: usize, rng: &mut Rng) {
    use routee_compass_core::algorithm::search::direction::Direction;
    use routee_compass_core::algorithm::search::search_algorithm::SearchAlgorithm;
    use routee_compass_core::model::network::vertex_id::VertexId;
    let (v, expect): (Option<Value>, Expect) = match rng.below(9) {
        0 => (None, Expect::Ok),
        1 => (Some(json!(rng.below(4))), Expect::Ok),
        2 => (Some(json!(rng.small_decimal(3, 2))), Expect::Ok),
        3 => (Some(json!(-(rng.below(3) as i64))), Expect::Ok),
        4 => (Some(json!("1.0")), Expect::Err),
        5 => (Some(Value::Null), Expect::Err),
        6 => (Some(json!([1.0])), Expect::Err),
        7 => (Some(json!({"weight_factor": 1.0})), Expect::Err),
        _ => (Some(json!(true)), Expect::Err),
    };
    let mut q = serde_json::Map::new();
    if rng.chance(1, 2) {
        q.insert("origin_vertex".into(), json!(0));
    }
    if let Some(v) = &v {
        q.insert("weight_factor".into(), v.clone());
    }
    let q = Value::Object(q);
    let c = tiny_case();
    let b = build(&c).expect("tiny case");
    let dijkstra = rng.chance(1, 3);
    let alg = if dijkstra { SearchAlgorithm::Dijkstra } else { SearchAlgorithm::AStarAlgorithm { weight_factor: Some(Cost::new(0.5)) } };
    let res = catch_unwind(AssertUnwindSafe(|| alg.run_vertex_oriented(VertexId(0), Some(VertexId(1)), &q, &Direction::Forward, &b.si)));
    let case = format!("bld wf {}", enc(&q));
    ctx.count("bld_wf");
    let what = format!("query {}", q);
    match res {
        Err(p) => {
            let msg = panic_text(p);
            ctx.emit(idx, case, format!("panic {}", msg.replace(' ', "_")));
            verdict(ctx, idx, "weight_factor", expect, false, Some(&msg), &what);
        }
        Ok(Err(e)) => {
            ctx.emit(idx, case.clone(), format!("err {}", err_kind(&e)));
            ctx.nontrivial(&case);
            verdict(ctx, idx, "weight_factor", expect, false, None, &what);
        }
        Ok(Ok(_)) => {
            ctx.emit(idx, case.clone(), "ok".into());
            verdict(ctx, idx, "weight_factor", expect, true, None, &what);
        }
    }
}

// ---------------------------------------------------------------------------------------------
// C03: edge headings + turn delay table

/// `corpus_neg`: a hand-written witness — an otherwise well-formed configuration whose delay table holds this
/// (negative) number for every turn class
fn op_heads(ctx: &mut Ctx, idx: usize, rng: &mut Rng, corpus_neg: Option<f64>) {
    use routee_compass::app::compass::config::access_model::turn_delay_access_model_builder::TurnDelayAccessModelBuilder;
    use routee_compass_core::model::access::access_model_builder::AccessModelBuilder;
    let is_corpus = corpus_neg.is_some();
    let n = if is_corpus { 3 } else { rng.below(7) };
    let mut expect = Expect::Ok;
    // header: 0 as documented, 1 columns swapped (read by name), 2 a wrong column name
    let header = match rng.below(10) {
        _ if is_corpus => 0,
        0 => 1,
        1 => 2,
        _ => 0,
    };
    if header == 2 && n > 0 {
        expect = Expect::Err;
    }
    let mut rows: Vec<Option<(IntCell, IntCell)>> = (0..n)
        .map(|_| {
            let a = IntCell::I(if rng.chance(1, 8) { rng.range(-720, 720) as i128 } else { rng.range(0, 359) as i128 }, rng.below(3) as u8);
            let d = if rng.chance(1, 3) { IntCell::Empty } else { IntCell::I(rng.range(0, 359) as i128, rng.below(3) as u8) };
            Some((a, d))
        })
        .collect();
    if n > 0 && !is_corpus && rng.chance(1, 5) {
        let k = rng.below(n);
        expect = Expect::Err;
        match rng.below(5) {
            0 => rows[k] = None, // a record with one field only
            1 => rows[k].as_mut().unwrap().0 = IntCell::Junk(*rng.pick(&JUNK_INT)),
            2 => rows[k].as_mut().unwrap().1 = IntCell::Junk(*rng.pick(&JUNK_INT)),
            3 => rows[k].as_mut().unwrap().0 = IntCell::Empty,
            _ => rows[k].as_mut().unwrap().0 = IntCell::I(*rng.pick(&[32768i128, -32769, 40000, 100000]), 0), // not an i16
        }
    }
    let file_present = is_corpus || !rng.chance(1, 12);
    if !file_present {
        expect = Expect::Err;
    }
    // delay table
    let tu = *rng.pick(&TU);
    let mut table = serde_json::Map::new();
    for name in TURN_NAMES.iter() {
        if !rng.chance(1, 8) {
            table.insert(name.to_string(), if rng.chance(1, 3) { json!(rng.below(30)) } else { json!(rng.small_decimal(30, 1)) });
        }
    }
    // a negative delay would make the reported time run backwards along a route: the builder must refuse it
    // (its own generator, so that the other choices of a case do not move)
    let mut rng_neg = Rng::for_case(ctx.seed, 9103, idx as u64);
    let mut has_negative = false;
    if let Some(v) = corpus_neg {
        for name in TURN_NAMES.iter() {
            table.insert(name.to_string(), json!(v));
        }
        has_negative = true;
    } else if rng_neg.chance(1, 8) {
        let name = *rng_neg.pick(&TURN_NAMES);
        let v = -(rng_neg.small_decimal(30, 1) + if rng_neg.chance(1, 2) { 0.5 } else { 1e-9 });
        table.insert(name.to_string(), if rng_neg.chance(1, 4) { json!(-(1 + rng_neg.below(30) as i64)) } else { json!(v) });
        has_negative = true;
    }
    if has_negative {
        expect = Expect::Err;
        ctx.count("bld_heads_negative_delay");
    }
    let mut tdm = json!({"type": "tabular_discrete", "table": table, "time_unit": tu.to_string()});
    let mut cfg = serde_json::Map::new();
    cfg.insert("type".into(), json!("turn_delay"));
    cfg.insert("edge_heading_input_file".into(), json!(FILE));
    let feature_name = if rng.chance(1, 4) { Some(if rng.chance(1, 2) { "time" } else { "trip_time" }) } else { None };
    if let Some(f) = feature_name {
        cfg.insert("time_feature_name".into(), json!(f));
    }
    if !is_corpus && rng.chance(1, 4) {
        expect = Expect::Err;
        match rng.below(9) {
            0 => {
                cfg.remove("edge_heading_input_file");
            }
            1 => {
                cfg.insert("edge_heading_input_file".into(), json!(3));
            }
            2 => tdm["type"] = json!("tabular"),
            3 => {
                tdm.as_object_mut().unwrap().remove("type");
            }
            4 => {
                tdm.as_object_mut().unwrap().remove("time_unit");
            }
            5 => tdm["time_unit"] = if rng.chance(1, 2) { json!("secs") } else { ill_typed(rng) },
            6 => tdm["table"][*rng.pick(&["u-turn", "straight", "NoTurn"])] = json!(1.0),
            7 => tdm["table"]["left"] = if rng.chance(1, 2) { json!("5") } else { Value::Null },
            _ => {
                cfg.insert("time_feature_name".into(), json!(5));
            }
        }
    }
    else if !is_corpus && rng.chance(1, 5) {
        // serde's other forms: the internally tagged enum as a positional array, the unit as a map
        ctx.count("bld_heads_serde_forms");
        let tbl = tdm["table"].clone();
        let (unit, accepted) = if rng.chance(1, 2) { unit_forms(rng, &tu.to_string(), true) } else { (json!(tu.to_string()), true) };
        match rng.below(5) {
            0 | 1 => tdm = json!(["tabular_discrete", tbl, unit]),
            2 => {
                tdm["time_unit"] = unit;
            }
            3 => {
                // wrong arity
                tdm = if rng.chance(1, 2) { json!(["tabular_discrete", tbl]) } else { json!(["tabular_discrete", tbl, unit, 1]) };
                expect = Expect::Err;
            }
            _ => {
                // fields in the wrong order / an unknown tag
                tdm = if rng.chance(1, 2) { json!(["tabular_discrete", unit, tbl]) } else { json!(["tabular", tbl, unit]) };
                expect = Expect::Err;
            }
        }
        if !accepted {
            expect = Expect::Err;
        }
    }
    let tdm_missing = !is_corpus && rng.chance(1, 20);
    if tdm_missing {
        expect = Expect::Err;
    } else {
        cfg.insert("turn_delay_model".into(), tdm);
    }
    let cfg = Value::Object(cfg);
    let gzip = rng.chance(1, 5);
    let sc = Scratch::new();
    let mut text = String::from(match header {
        0 => "arrival_heading,departure_heading\n",
        1 => "departure_heading,arrival_heading\n",
        _ => "arrival,departure_heading\n",
    });
    for r in &rows {
        match r {
            None => text.push_str("17\n"),
            Some((a, d)) => {
                if header == 1 {
                    text.push_str(&format!("{},{}\n", d.text(), a.text()))
                } else {
                    text.push_str(&format!("{},{}\n", a.text(), d.text()))
                }
            }
        }
    }
    let path = if file_present { sc.file("headings.csv", &text, gzip) } else { sc.path("no_such_file.csv") };
    let real_cfg = put_path(&cfg, &path);
    // probes: pairs of edge ids, one beyond the table now and then
    let ftu = *rng.pick(&TU);
    let state_name = if rng.chance(1, 6) { "trip_time" } else { "time" };
    let pairs: Vec<(usize, usize)> = (0..6).map(|_| (rng.below(n + 2), rng.below(n + 2))).collect();
    // the property itself, on what the real access model does: a turn never takes time off the clock
    let time_decreased: std::cell::Cell<Option<f64>> = std::cell::Cell::new(None);
    let res = catch_unwind(AssertUnwindSafe(|| -> Result<String, String> {
        let service = TurnDelayAccessModelBuilder {}.build(&real_cfg).map_err(|e| e.to_string())?;
        let model = service.build(&json!({})).map_err(|e| e.to_string())?;
        let mut out = features_out(&model.state_features());
        let sm = StateModel::empty()
            .extend(vec![(state_name.to_string(), StateFeature::Time { time_unit: ftu, initial: Time::ZERO })])
            .map_err(|e| e.to_string())?;
        let v = Vertex::new(0, -105.0, 39.7);
        out.push_str(&format!(" probes {}", pairs.len()));
        for (pe, ne) in &pairs {
            let mut st = sm.initial_state().map_err(|e| e.to_string())?;
            let e1 = Edge::new(*pe, 0, 1, 10.0);
            let e2 = Edge::new(*ne, 1, 2, 10.0);
            match model.access_edge((&v, &e1, &v, &e2, &v), &mut st, &sm) {
                Ok(()) => {
                    if let Some(x) = st.first() {
                        if x.0 < 0.0 {
                            time_decreased.set(Some(x.0));
                        }
                    }
                    out.push_str(&format!(" {}", state_out(&st)))
                }
                Err(_) => out.push_str(" none"),
            }
        }
        Ok(out)
    }));
    drop(sc);
    let row_toks: Vec<String> = rows
        .iter()
        .map(|r| match r {
            None => "short".to_string(),
            Some((a, d)) => format!("r {} {}", a.tok(), d.tok()),
        })
        .collect();
    let mut case = format!("bld heads {} {} {} {} {} {}", enc(&cfg), header, file_tok(if file_present { Some(row_toks) } else { None }), ftu, hex(state_name), pairs.len());
    for (p, q) in &pairs {
        case.push_str(&format!(" {} {}", p, q));
    }
    ctx.count("bld_heads");
    let what = format!("config {} file {:?}", cfg, text);
    match res {
        Err(p) => {
            let msg = panic_text(p);
            ctx.emit(idx, case, format!("panic {}", msg.replace(' ', "_")));
            verdict(ctx, idx, "TurnDelayAccessModelBuilder", expect, false, Some(&msg), &what);
        }
        Ok(Err(e)) => {
            ctx.count("bld_heads_err");
            let kind = if e.contains("failure reading 'edge_heading_input_file'") {
                "config"
            } else if e.contains("error reading headings from file") {
                "file"
            } else if e.contains("failure reading 'turn_delay_model'") {
                "model"
            } else if e.contains("failure reading 'time_unit'") {
                "name"
            } else {
                "other"
            };
            ctx.emit(idx, case.clone(), format!("err {}", kind));
            ctx.nontrivial(&case);
            verdict(ctx, idx, "TurnDelayAccessModelBuilder", expect, false, None, &what);
        }
        Ok(Ok(out)) => {
            ctx.count("bld_heads_ok");
            ctx.emit(idx, case.clone(), format!("ok {}", out));
            ctx.nontrivial(&case);
            if let Some(x) = time_decreased.get() {
                ctx.fail(
                    idx,
                    "turn_delay/time-decreases",
                    format!("TurnDelayAccessModelBuilder accepted a delay table with a negative delay; access_edge moved the time from 0 to {} on {}", x, what),
                );
            } else {
                verdict(ctx, idx, "TurnDelayAccessModelBuilder", expect, true, None, &what);
            }
        }
    }
}

// ---------------------------------------------------------------------------------------------
// C04: vehicle parameters

const DIM_FIELDS: [&str; 4] = ["height", "width", "total_length", "trailer_length"];

fn gen_vparams(rng: &mut Rng) -> VParams {
    VParams {
        height: (0.5 + rng.small_decimal(5, 1), *rng.pick(&DU)),
        width: (0.5 + rng.small_decimal(4, 1), *rng.pick(&DU)),
        total_length: (1.0 + rng.small_decimal(30, 0), *rng.pick(&DU)),
        trailer_length: (1.0 + rng.small_decimal(20, 0), *rng.pick(&DU)),
        total_weight: (1.0 + rng.small_decimal(40, 0), *rng.pick(&WU)),
        axles: 1 + rng.below(5) as u8,
    }
}

/// a query's `vehicle_parameters`, well-formed or with one defect; returns (query, verdict, label)
fn gen_vp_query(rng: &mut Rng) -> (Value, VParams, Expect, &'static str) {
    let p = gen_vparams(rng);
    let mut vp = vehicle_parameters_json(&p);
    // integers where a user would write them
    if rng.chance(1, 3) {
        vp["total_length"][0] = json!(p.total_length.0 as u64);
    }
    let mut q = json!({"origin_vertex": 0, "destination_vertex": 1});
    let mut expect = Expect::Ok;
    let mut label = "well-formed";
    let pv = |p: &VParams| VParams { total_length: (if p.total_length.0.fract() == 0.0 { p.total_length.0 } else { p.total_length.0 }, p.total_length.1), ..p.clone() };
    let mut p = pv(&p);
    if vp["total_length"][0].is_u64() {
        p.total_length.0 = vp["total_length"][0].as_u64().unwrap() as f64;
    }
    match rng.below(12) {
        0 => {
            // no vehicle_parameters at all, or not an object
            expect = Expect::Err;
            label = "missing";
            if rng.chance(1, 2) {
                return (q, p, expect, label);
            }
            q["vehicle_parameters"] = match rng.below(4) {
                0 => Value::Null,
                1 => json!("truck"),
                2 => json!([1, 2]),
                _ => json!(5),
            };
            return (q, p, expect, "not-an-object");
        }
        1 | 2 | 3 => {
            expect = Expect::Err;
            label = "ill-typed-dimension";
            let f = if rng.chance(1, 5) { "total_weight" } else { *rng.pick(&DIM_FIELDS) };
            let unit = vp[f][1].clone();
            let val = vp[f][0].clone();
            match rng.below(11) {
                0 => {
                    vp.as_object_mut().unwrap().remove(f);
                }
                1 => vp[f] = val,
                2 => vp[f] = json!([val]),
                3 => vp[f] = json!([val, unit, 1]),
                4 => vp[f] = json!(["4.1", unit]),
                5 => vp[f] = json!([val, 3]),
                6 => vp[f] = json!([val, *rng.pick(&["yards", "Feet", "m", ""])]),
                7 => vp[f] = json!([val, if f == "total_weight" { "feet" } else { "kg" }]),
                8 => vp[f] = Value::Null,
                9 => vp[f] = json!({"value": val, "unit": unit}),
                _ => vp[f] = json!([Value::Null, unit]),
            }
        }
        4 | 5 => {
            expect = Expect::Err;
            label = "ill-typed-axles";
            match rng.below(8) {
                0 => {
                    vp.as_object_mut().unwrap().remove("number_of_axles");
                }
                1 => vp["number_of_axles"] = json!("2"),
                2 => vp["number_of_axles"] = json!(2.0),
                3 => vp["number_of_axles"] = json!(2.5),
                4 => vp["number_of_axles"] = json!(-2),
                5 => vp["number_of_axles"] = Value::Null,
                6 => vp["number_of_axles"] = json!([2]),
                _ => vp["number_of_axles"] = json!(true),
            }
        }
        6 => {
            // more axles than the u8 of VehicleParameters can hold: not a vehicle the model can describe
            expect = Expect::Open;
            label = "axles-beyond-u8";
            vp["number_of_axles"] = json!(*rng.pick(&[256u64, 257, 258, 300, 512, 65536, 4294967298]));
        }
        7 => {
            label = "axles-boundary";
            let a = *rng.pick(&[1u8, 2, 9, 200, 255]);
            vp["number_of_axles"] = json!(a);
            p.axles = a;
        }
        8 => {
            // fields a user may add are ignored
            label = "extra-fields";
            vp["colour"] = json!("red");
            q["road_classes"] = json!([1]);
        }
        9 => {
            // a unit in serde's other form: [5.0, {"feet": null}]
            label = "unit-as-map";
            let f = *rng.pick(&["height", "width", "total_length", "trailer_length", "total_weight"]);
            let name = vp[f][1].as_str().unwrap_or("").to_string();
            let (v, accepted) = unit_forms(rng, &name, false);
            vp[f][1] = v;
            if !accepted {
                expect = Expect::Err;
                label = "unit-as-bad-map";
            }
        }
        _ => {}
    }
    q["vehicle_parameters"] = vp;
    (q, p, expect, label)
}

fn vp_err_kind(msg: &str) -> String {
    for f in ["height", "width", "total_length", "trailer_length", "total_weight"] {
        if msg.contains(&format!("Unable to interpret `{}`", f)) {
            return f.to_string();
        }
    }
    if msg.contains("Missing field `vehicle_parameters`") {
        "missing".into()
    } else if msg.contains("Missing field `number_of_axles`") {
        "axles-missing".into()
    } else if msg.contains("`number_of_axles`") && msg.contains("out of range") {
        "axles-range".into()
    } else if msg.contains("`number_of_axles`") {
        "axles-type".into()
    } else {
        "other".into()
    }
}

fn vp_out(v: &VehicleParameters) -> String {
    format!(
        "ok {} {} {} {} {} {} {} {} {} {} {}",
        fbits(v.height.0.as_f64()),
        v.height.1,
        fbits(v.width.0.as_f64()),
        v.width.1,
        fbits(v.total_length.0.as_f64()),
        v.total_length.1,
        fbits(v.trailer_length.0.as_f64()),
        v.trailer_length.1,
        fbits(v.total_weight.0.as_f64()),
        v.total_weight.1,
        v.number_of_axles
    )
}

fn op_vp(ctx: &mut Ctx, idx: usize, rng: &mut Rng, corpus: Option<Value>) {
    let (q, p, expect, label) = match corpus {
        Some(q) => (q, gen_vparams(rng), Expect::Open, "corpus"),
        None => gen_vp_query(rng),
    };
    let res = catch_unwind(AssertUnwindSafe(|| VehicleParameters::from_query(&q)));
    let case = format!("bld vp {}", enc(&q));
    ctx.count("bld_vp");
    ctx.count(&format!("bld_vp_{}", label));
    match res {
        Err(pn) => {
            let msg = panic_text(pn);
            ctx.emit(idx, case, format!("panic {}", msg.replace(' ', "_")));
            ctx.fail(idx, "query/vehicle-parameters-panic", format!("VehicleParameters::from_query panicked '{}' on {}", msg, q));
        }
        Ok(Err(e)) => {
            ctx.emit(idx, case.clone(), format!("err {}", vp_err_kind(&e.to_string())));
            ctx.nontrivial(&case);
            if expect == Expect::Ok {
                ctx.fail(idx, "query/vehicle-parameters-refused", format!("a well-formed query was refused ({}): {}", e, q));
            }
        }
        Ok(Ok(v)) => {
            ctx.emit(idx, case.clone(), vp_out(&v));
            ctx.nontrivial(&case);
            match expect {
                Expect::Err => ctx.fail(idx, "query/vehicle-parameters-accepts-malformed", format!("accepted ({}): {}", label, q)),
                Expect::Open => {
                    if Some(v.number_of_axles as u64) != q["vehicle_parameters"]["number_of_axles"].as_u64() {
                        ctx.fail(
                            idx,
                            "query/vehicle-parameters-axles-truncated",
                            format!("number_of_axles {} was read as {}", q["vehicle_parameters"]["number_of_axles"], v.number_of_axles),
                        );
                    }
                }
                Expect::Ok => {
                    // exactly the given dimensions in the given units
                    let same = |a: (Distance, DistanceUnit), b: (f64, DistanceUnit)| a.0.as_f64().to_bits() == b.0.to_bits() && a.1 == b.1;
                    if !(same(v.height, p.height)
                        && same(v.width, p.width)
                        && same(v.total_length, p.total_length)
                        && same(v.trailer_length, p.trailer_length)
                        && v.total_weight.0.as_f64().to_bits() == p.total_weight.0.to_bits()
                        && v.total_weight.1 == p.total_weight.1
                        && v.number_of_axles == p.axles)
                    {
                        ctx.fail(idx, "query/vehicle-parameters-wrong-value", format!("query {} was read as {}", q, vp_out(&v)));
                    }
                }
            }
        }
    }
}

// ---------------------------------------------------------------------------------------------
// C04: road classes

fn frontier_probe(model: &Arc<dyn routee_compass_core::model::frontier::frontier_model::FrontierModel>, e: usize, prev: Option<usize>) -> &'static str {
    let sm = StateModel::empty();
    let edge = Edge::new(e, 0, 1, 10.0);
    let pe = prev.map(|p| Edge::new(p, 2, 0, 10.0));
    match model.valid_frontier(&edge, &[], pe.as_ref(), &sm) {
        Ok(true) => "t",
        Ok(false) => "f",
        Err(_) => "e",
    }
}

fn op_rc(ctx: &mut Ctx, idx: usize, rng: &mut Rng) {
    let n = rng.below(7);
    let mut expect = Expect::Ok;
    let mut rows: Vec<IntCell> = (0..n).map(|_| IntCell::I(rng.below(6) as i128, rng.below(3) as u8)).collect();
    if n > 0 && rng.chance(1, 6) {
        expect = Expect::Err;
        let k = rng.below(n);
        rows[k] = match rng.below(4) {
            0 => IntCell::Junk(*rng.pick(&JUNK_INT)),
            1 => IntCell::Empty,
            2 => IntCell::I(*rng.pick(&[256i128, 300, 1000]), 0),
            _ => IntCell::I(-1, 0),
        };
    } else if n > 0 && rng.chance(1, 10) {
        let k = rng.below(n);
        rows[k] = IntCell::I(255, 0);
    }
    let file_present = !rng.chance(1, 12);
    if !file_present {
        expect = Expect::Err;
    }
    let mut cfg = serde_json::Map::new();
    cfg.insert("type".into(), json!("road_class"));
    cfg.insert("road_class_input_file".into(), json!(FILE));
    // parser mapping
    let mapping_mode = rng.below(10);
    let mut has_mapping = false;
    match mapping_mode {
        0..=3 => {
            has_mapping = true;
            if rng.chance(1, 4) {
                // the struct in serde's positional form: a sequence of exactly its one field
                ctx.count("bld_rc_parser_as_sequence");
                cfg.insert("road_class_parser".into(), json!([road_class_mapping_json()]));
            } else {
                cfg.insert("road_class_parser".into(), json!({"mapping": road_class_mapping_json()}));
            }
        }
        4 if rng.chance(1, 3) => {
            expect = Expect::Err;
            cfg.insert(
                "road_class_parser".into(),
                match rng.below(3) {
                    0 => json!([]),
                    1 => json!([road_class_mapping_json(), road_class_mapping_json()]),
                    _ => json!([{"a": 300}]),
                },
            );
        }
        4 => {
            expect = Expect::Err;
            cfg.insert(
                "road_class_parser".into(),
                match rng.below(5) {
                    0 => json!({"mapping": {"a": 300}}),
                    1 => json!({"mapping": "x"}),
                    2 => json!({}),
                    3 => Value::Null,
                    _ => json!({"mapping": {"a": "1"}}),
                },
            );
        }
        5 => {
            // an empty mapping is no mapping
            cfg.insert("road_class_parser".into(), json!({"mapping": {}}));
        }
        _ => {}
    }
    if rng.chance(1, 15) {
        expect = Expect::Err;
        if rng.chance(1, 2) {
            cfg.remove("road_class_input_file");
        } else {
            cfg.insert("road_class_input_file".into(), json!(false));
        }
    }
    let cfg = Value::Object(cfg);
    // query
    let mut q = json!({"origin_vertex": 0});
    match rng.below(16) {
        0 => {}
        1 => q["road_classes"] = json!([]),
        2 => {
            q["road_classes"] = Value::Null;
            expect = Expect::Err;
        }
        3 => {
            q["road_classes"] = if rng.chance(1, 2) { json!(1) } else { json!("class1") };
            expect = Expect::Err;
        }
        4 => {
            q["road_classes"] = json!([*rng.pick(&[256i64, -1, 1000])]);
            expect = Expect::Err;
        }
        5 => {
            q["road_classes"] = json!([1.5]);
            expect = Expect::Err;
        }
        6 => {
            q["road_classes"] = json!([1, "class2"]);
            expect = Expect::Err;
        }
        7 => {
            q["road_classes"] = json!(["class1", "motorway"]);
            expect = Expect::Err;
        }
        8 => {
            q["road_classes"] = json!([[1]]);
            expect = Expect::Err;
        }
        9 => {
            q["road_classes"] = json!({"1": true});
            expect = Expect::Err;
        }
        10 | 11 | 12 => {
            let a: Vec<String> = (0..6u8).filter(|_| rng.chance(1, 2)).map(class_name).collect();
            let mut a = a;
            if rng.chance(1, 3) && !a.is_empty() {
                a.push(a[0].clone());
            }
            if !has_mapping && !a.is_empty() {
                expect = Expect::Err; // names without a mapping
            }
            q["road_classes"] = json!(a);
        }
        _ => {
            let mut a: Vec<u8> = (0..6u8).filter(|_| rng.chance(1, 2)).collect();
            if rng.chance(1, 3) && !a.is_empty() {
                a.push(a[0]);
            }
            if rng.chance(1, 8) {
                a.push(255);
            }
            q["road_classes"] = json!(a);
        }
    }
    let gzip = rng.chance(1, 5);
    let sc = Scratch::new();
    let text: String = rows.iter().map(|r| format!("{}\n", r.text())).collect();
    let path = if file_present { sc.file("road_class.txt", &text, gzip) } else { sc.path("no_such_file.txt") };
    let real_cfg = put_path(&cfg, &path);
    let res = catch_unwind(AssertUnwindSafe(|| -> Result<String, String> {
        let builders = frontier_builders();
        let service = builders["road_class"].build(&real_cfg).map_err(|e| e.to_string())?;
        let model = service.build(&q, Arc::new(StateModel::empty())).map_err(|e| e.to_string())?;
        let mut out = format!("probes {}", n + 1);
        for e in 0..=n {
            out.push(' ');
            out.push_str(frontier_probe(&model, e, None));
        }
        Ok(out)
    }));
    drop(sc);
    let case = format!("bld rc {} {} {}", enc(&cfg), file_tok(if file_present { Some(rows.iter().map(|r| r.tok()).collect()) } else { None }), enc(&q));
    ctx.count("bld_rc");
    let what = format!("config {} rows {:?} query {}", cfg, rows.iter().map(|r| r.text()).collect::<Vec<_>>(), q);
    match res {
        Err(p) => {
            let msg = panic_text(p);
            ctx.emit(idx, case, format!("panic {}", msg.replace(' ', "_")));
            verdict(ctx, idx, "RoadClassBuilder", expect, false, Some(&msg), &what);
        }
        Ok(Err(e)) => {
            ctx.count("bld_rc_err");
            let kind = if e.contains("configuration error due to road_class_input_file") {
                "config"
            } else if e.contains("failed to load file") {
                "file"
            } else if e.contains("unable to deserialize road_class_parser") {
                "parser"
            } else if e.contains("Unable to parse incoming query road_classes") {
                "query"
            } else {
                "other"
            };
            ctx.emit(idx, case.clone(), format!("err {}", kind));
            ctx.nontrivial(&case);
            verdict(ctx, idx, "RoadClassBuilder", expect, false, None, &what);
        }
        Ok(Ok(out)) => {
            ctx.count("bld_rc_ok");
            ctx.emit(idx, case.clone(), format!("ok {}", out));
            ctx.nontrivial(&case);
            verdict(ctx, idx, "RoadClassBuilder", expect, true, None, &what);
        }
    }
}

// ---------------------------------------------------------------------------------------------
// C04: turn restriction file

fn op_tr(ctx: &mut Ctx, idx: usize, rng: &mut Rng) {
    let n = rng.below(7);
    let m = 5;
    let mut expect = Expect::Ok;
    let mut rows: Vec<Option<(IntCell, IntCell)>> = (0..n).map(|_| Some((IntCell::I(rng.below(m) as i128, rng.below(2) as u8), IntCell::I(rng.below(m) as i128, 0)))).collect();
    if n > 0 && rng.chance(1, 5) {
        expect = Expect::Err;
        let k = rng.below(n);
        match rng.below(4) {
            0 => rows[k] = None,
            1 => rows[k].as_mut().unwrap().0 = IntCell::Junk(*rng.pick(&JUNK_INT)),
            2 => rows[k].as_mut().unwrap().1 = IntCell::I(-1, 0),
            _ => rows[k].as_mut().unwrap().1 = IntCell::Empty,
        }
    }
    let header_ok = !rng.chance(1, 12);
    if !header_ok && n > 0 {
        expect = Expect::Err;
    }
    let file_present = !rng.chance(1, 12);
    if !file_present {
        expect = Expect::Err;
    }
    let mut cfg = serde_json::Map::new();
    cfg.insert("type".into(), json!("turn_restriction"));
    cfg.insert("turn_restriction_input_file".into(), json!(FILE));
    if rng.chance(1, 12) {
        expect = Expect::Err;
        if rng.chance(1, 2) {
            cfg.remove("turn_restriction_input_file");
        } else {
            cfg.insert("turn_restriction_input_file".into(), ill_typed(rng));
        }
    }
    let cfg = Value::Object(cfg);
    // a configured path that is some other string names no file
    let file_present = file_present && cfg.get("turn_restriction_input_file").and_then(|v| v.as_str()).map_or(true, |s| s == FILE);
    let gzip = rng.chance(1, 5);
    let sc = Scratch::new();
    let mut text = String::from(if header_ok { "prev_edge_id,next_edge_id\n" } else { "prev_edge,next_edge_id\n" });
    for r in &rows {
        match r {
            None => text.push_str("3\n"),
            Some((a, b)) => text.push_str(&format!("{},{}\n", a.text(), b.text())),
        }
    }
    let path = if file_present { sc.file("turn_restrictions.csv", &text, gzip) } else { sc.path("no_such_file.csv") };
    let real_cfg = put_path(&cfg, &path);
    let pairs: Vec<(Option<usize>, usize)> = (0..8).map(|_| (if rng.chance(1, 6) { None } else { Some(rng.below(m)) }, rng.below(m))).collect();
    let res = catch_unwind(AssertUnwindSafe(|| -> Result<String, String> {
        let builders = frontier_builders();
        let service = builders["turn_restriction"].build(&real_cfg).map_err(|e| e.to_string())?;
        let model = service.build(&json!({}), Arc::new(StateModel::empty())).map_err(|e| e.to_string())?;
        let mut out = format!("probes {}", pairs.len());
        for (p, e) in &pairs {
            out.push(' ');
            out.push_str(frontier_probe(&model, *e, *p));
        }
        Ok(out)
    }));
    drop(sc);
    let row_toks: Vec<String> = rows
        .iter()
        .map(|r| match r {
            None => "short".to_string(),
            Some((a, b)) => format!("r {} {}", a.tok(), b.tok()),
        })
        .collect();
    let mut case = format!("bld tr {} {} {} {}", enc(&cfg), if header_ok { 1 } else { 0 }, file_tok(if file_present { Some(row_toks) } else { None }), pairs.len());
    for (p, e) in &pairs {
        case.push_str(&match p {
            Some(p) => format!(" s {} {}", p, e),
            None => format!(" n {}", e),
        });
    }
    ctx.count("bld_tr");
    let what = format!("config {} file {:?}", cfg, text);
    match res {
        Err(p) => {
            let msg = panic_text(p);
            ctx.emit(idx, case, format!("panic {}", msg.replace(' ', "_")));
            verdict(ctx, idx, "TurnRestrictionBuilder", expect, false, Some(&msg), &what);
        }
        Ok(Err(_)) => {
            ctx.emit(idx, case.clone(), "err".into());
            ctx.nontrivial(&case);
            verdict(ctx, idx, "TurnRestrictionBuilder", expect, false, None, &what);
        }
        Ok(Ok(out)) => {
            ctx.emit(idx, case.clone(), format!("ok {}", out));
            ctx.nontrivial(&case);
            verdict(ctx, idx, "TurnRestrictionBuilder", expect, true, None, &what);
        }
    }
}

// ---------------------------------------------------------------------------------------------
// C04: vehicle restriction file

const RESTRICTION_NAMES: [&str; 6] =
    ["maximum_total_weight", "maximum_weight_per_axle", "maximum_length", "maximum_width", "maximum_height", "maximum_trailer_length"];

fn op_vr(ctx: &mut Ctx, idx: usize, rng: &mut Rng) {
    let n = rng.below(7);
    let m = 4;
    let mut expect = Expect::Ok;
    // (edge cell, name, value, unit)
    let mut rows: Vec<(IntCell, String, NumRow, String)> = (0..n)
        .map(|_| {
            let k = rng.below(6);
            let unit = if k < 2 { rng.pick(&WU).to_string() } else { rng.pick(&DU).to_string() };
            let v = if rng.chance(1, 2) { (1 + rng.below(40)) as f64 } else { 0.5 + 40.0 * rng.unit() };
            (IntCell::I(rng.below(m) as i128, 0), RESTRICTION_NAMES[k].to_string(), NumRow::V(v, rng.below(2) as u8 * 3), unit)
        })
        .collect();
    if n > 0 && rng.chance(1, 4) {
        expect = Expect::Err;
        let k = rng.below(n);
        match rng.below(8) {
            0 => rows[k].0 = IntCell::Junk(*rng.pick(&JUNK_INT)),
            1 => rows[k].0 = IntCell::I(-3, 0),
            2 => rows[k].1 = rng.pick(&["maximum_weight", "MaximumHeight", "height", ""]).to_string(),
            3 => rows[k].2 = NumRow::Junk(*rng.pick(&["abc", "", "1,5x", "--2"])),
            4 => rows[k].2 = if rng.chance(1, 2) { NumRow::Nan } else { NumRow::V(f64::INFINITY, 0) },
            5 => rows[k].3 = rng.pick(&["stone", "Feet", "", "m"]).to_string(),
            6 => rows[k].3 = if RESTRICTION_NAMES[..2].contains(&rows[k].1.as_str()) { "feet".to_string() } else { "kg".to_string() },
            _ => rows[k].1 = "maximum_total_weight ".trim_end().to_uppercase(),
        }
    }
    let file_present = !rng.chance(1, 12);
    if !file_present {
        expect = Expect::Err;
    }
    let mut cfg = serde_json::Map::new();
    cfg.insert("type".into(), json!("vehicle_restriction"));
    cfg.insert("vehicle_restriction_input_file".into(), json!(FILE));
    if rng.chance(1, 12) {
        expect = Expect::Err;
        if rng.chance(1, 2) {
            cfg.remove("vehicle_restriction_input_file");
        } else {
            cfg.insert("vehicle_restriction_input_file".into(), ill_typed(rng));
        }
    }
    let cfg = Value::Object(cfg);
    let file_present = file_present && cfg.get("vehicle_restriction_input_file").and_then(|v| v.as_str()).map_or(true, |s| s == FILE);
    let (q, _p, qexp, _label) = if rng.chance(1, 4) {
        gen_vp_query(rng)
    } else {
        let p = gen_vparams(rng);
        (json!({"vehicle_parameters": vehicle_parameters_json(&p)}), p, Expect::Ok, "well-formed")
    };
    match qexp {
        Expect::Err => expect = Expect::Err,
        Expect::Open if expect == Expect::Ok => expect = Expect::Open,
        _ => {}
    }
    let gzip = rng.chance(1, 5);
    let sc = Scratch::new();
    let mut text = String::from("edge_id,restriction_name,restriction_value,restriction_unit\n");
    for (e, name, v, u) in &rows {
        text.push_str(&format!("{},{},{},{}\n", e.text(), name, v.text(), u));
    }
    let path = if file_present { sc.file("vehicle_restrictions.csv", &text, gzip) } else { sc.path("no_such_file.csv") };
    let real_cfg = put_path(&cfg, &path);
    let res = catch_unwind(AssertUnwindSafe(|| -> Result<String, String> {
        let builders = frontier_builders();
        let service = builders["vehicle_restriction"].build(&real_cfg).map_err(|e| e.to_string())?;
        let model = service.build(&q, Arc::new(StateModel::empty())).map_err(|e| e.to_string())?;
        let mut out = format!("probes {}", m + 1);
        for e in 0..=m {
            out.push(' ');
            out.push_str(frontier_probe(&model, e, None));
        }
        Ok(out)
    }));
    drop(sc);
    let row_toks: Vec<String> = rows
        .iter()
        .map(|(e, name, v, u)| {
            // a non-finite limit has no JSON form: `json!(f64::INFINITY)` is `null`
            let vt = match v {
                NumRow::V(x, _) if !x.is_finite() => "nf".to_string(),
                other => other.tok(),
            };
            format!("{} {} {} {}", e.tok(), hex(name), vt, hex(u))
        })
        .collect();
    let case = format!("bld vr {} {} {} {}", enc(&cfg), file_tok(if file_present { Some(row_toks) } else { None }), enc(&q), m + 1);
    ctx.count("bld_vr");
    let what = format!("config {} file {:?} query {}", cfg, text, q);
    match res {
        Err(p) => {
            let msg = panic_text(p);
            ctx.emit(idx, case, format!("panic {}", msg.replace(' ', "_")));
            verdict(ctx, idx, "VehicleRestrictionBuilder", expect, false, Some(&msg), &what);
        }
        Ok(Err(e)) => {
            ctx.count("bld_vr_err");
            let kind = if e.contains("configuration error due to vehicle_restriction_input_file") {
                "config".to_string()
            } else if e.contains("Could not load vehicle restriction file") {
                "file".to_string()
            } else if e.contains("Unable to deserialize restriction") {
                "row".to_string()
            } else {
                format!("query-{}", vp_err_kind(&e))
            };
            ctx.emit(idx, case.clone(), format!("err {}", kind));
            ctx.nontrivial(&case);
            verdict(ctx, idx, "VehicleRestrictionBuilder", expect, false, None, &what);
        }
        Ok(Ok(out)) => {
            ctx.count("bld_vr_ok");
            ctx.emit(idx, case.clone(), format!("ok {}", out));
            ctx.nontrivial(&case);
            verdict(ctx, idx, "VehicleRestrictionBuilder", expect, true, None, &what);
        }
    }
}

// ---------------------------------------------------------------------------------------------
// C04: combined builder

fn op_comb(ctx: &mut Ctx, idx: usize, rng: &mut Rng) {
    use routee_compass::app::compass::config::frontier_model::combined::combined_builder::CombinedBuilder;
    let k = rng.below(4);
    let mut expect = Expect::Ok;
    let mut models: Vec<Value> = (0..k).map(|_| json!({"type": "no_restriction"})).collect();
    let mut cfg = serde_json::Map::new();
    cfg.insert("type".into(), json!("combined"));
    match rng.below(5) {
        0 | 2 if k > 0 => {
            expect = Expect::Err;
            let i = rng.below(k);
            models[i] = match rng.below(6) {
                0 => json!({"type": "combined", "models": []}), // not registered inside `combined`
                1 => json!({"type": "no_such_model"}),
                2 => json!({}),
                3 => json!({"type": 3}),
                4 => json!("no_restriction"),
                _ => json!({"type": "road_class"}), // its file is missing
            };
            cfg.insert("models".into(), json!(models));
        }
        1 => {
            expect = Expect::Err;
            if rng.chance(1, 2) {
                cfg.insert("models".into(), ill_typed_not_array(rng));
            }
        }
        _ => {
            cfg.insert("models".into(), json!(models));
        }
    }
    let cfg = Value::Object(cfg);
    let res = catch_unwind(AssertUnwindSafe(|| -> Result<String, String> {
        // the registry as the application assembles it
        let mut cb = CombinedBuilder { builders: std::collections::HashMap::new() };
        for (k, b) in frontier_builders() {
            cb = cb.register_builder(k, b);
        }
        let service = cb.build(&cfg).map_err(|e| e.to_string())?;
        let model = service.build(&json!({}), Arc::new(StateModel::empty())).map_err(|e| e.to_string())?;
        Ok(format!("probes 2 {} {}", frontier_probe(&model, 0, None), frontier_probe(&model, 3, Some(1))))
    }));
    let case = format!("bld comb {}", enc(&cfg));
    ctx.count("bld_comb");
    let what = format!("config {}", cfg);
    match res {
        Err(p) => {
            let msg = panic_text(p);
            ctx.emit(idx, case, format!("panic {}", msg.replace(' ', "_")));
            verdict(ctx, idx, "CombinedBuilder", expect, false, Some(&msg), &what);
        }
        Ok(Err(_)) => {
            ctx.emit(idx, case.clone(), "err".into());
            ctx.nontrivial(&case);
            verdict(ctx, idx, "CombinedBuilder", expect, false, None, &what);
        }
        Ok(Ok(out)) => {
            ctx.emit(idx, case.clone(), format!("ok {}", out));
            ctx.nontrivial(&case);
            verdict(ctx, idx, "CombinedBuilder", expect, true, None, &what);
        }
    }
}

fn ill_typed_not_array(rng: &mut Rng) -> Value {
    match rng.below(5) {
        0 => Value::Null,
        1 => json!(true),
        2 => json!(17),
        3 => json!("zzz"),
        _ => json!({}),
    }
}

// ---------------------------------------------------------------------------------------------
// C10: termination model builder

fn hhmmss(secs: u64) -> String {
    format!("{}:{:02}:{:02}", secs / 3600, (secs / 60) % 60, secs % 60)
}

/// a termination configuration; `bad` = one defect is placed somewhere in it
fn gen_term_cfg(rng: &mut Rng, depth: u32, defect: &mut Option<u32>) -> Value {
    let take_defect = |rng: &mut Rng, defect: &mut Option<u32>| -> Option<u32> {
        if defect.is_some() && rng.chance(1, 2) {
            defect.take()
        } else {
            None
        }
    };
    let case_name = |rng: &mut Rng, s: &str| -> String {
        match rng.below(6) {
            0 => s.to_uppercase(),
            1 => {
                let mut c = s.chars();
                c.next().map(|f| f.to_uppercase().collect::<String>() + c.as_str()).unwrap_or_default()
            }
            _ => s.to_string(),
        }
    };
    let kinds = if depth < 2 { 4 } else { 3 };
    match rng.below(kinds) {
        0 => {
            let mut v = json!({"type": case_name(rng, "iterations"), "limit": rng.below(50)});
            if let Some(d) = take_defect(rng, defect) {
                match d % 5 {
                    0 => {
                        v.as_object_mut().unwrap().remove("limit");
                    }
                    1 => v["limit"] = json!("10"),
                    2 => v["limit"] = json!(10.5),
                    3 => v["limit"] = Value::Null,
                    _ => v["limit"] = json!(18446744073709551615u64), // not an i64
                }
            }
            v
        }
        1 => {
            let mut v = json!({"type": case_name(rng, "solution_size"), "limit": rng.below(50)});
            if let Some(d) = take_defect(rng, defect) {
                match d % 4 {
                    0 => {
                        v.as_object_mut().unwrap().remove("limit");
                    }
                    1 => v["limit"] = json!([3]),
                    2 => v["limit"] = json!(3.0),
                    _ => v["limit"] = json!(true),
                }
            }
            v
        }
        2 => {
            let secs = match rng.below(4) {
                0 => rng.below(60) as u64,
                1 => rng.below(7200) as u64,
                2 => 3600 * rng.below(200) as u64 + rng.below(3600) as u64,
                _ => 0,
            };
            let mut v = json!({"type": case_name(rng, "query_runtime"), "limit": hhmmss(secs), "frequency": 1 + rng.below(9)});
            if let Some(d) = take_defect(rng, defect) {
                match d % 16 {
                    0 => {
                        v.as_object_mut().unwrap().remove("limit");
                    }
                    1 => v["limit"] = json!(secs),
                    2 => v["limit"] = json!("1:2:3"),
                    3 => v["limit"] = json!("00:00"),
                    4 => v["limit"] = json!("abc"),
                    5 => v["limit"] = json!("0:00:01 "),
                    6 => v["limit"] = json!("-1:00:00"),
                    7 => v["limit"] = json!("1:00:00:00"),
                    8 => v["limit"] = json!(":00:05"),
                    9 => v["limit"] = json!("99999999999999999999999:00:00"), // hours beyond u64
                    10 => {
                        v.as_object_mut().unwrap().remove("frequency");
                    }
                    11 => v["frequency"] = json!("5"),
                    12 => v["frequency"] = json!(2.5),
                    13 => v["limit"] = json!("0:00:1"),
                    14 => v["limit"] = json!("0:0:01"),
                    _ => v["limit"] = Value::Null,
                }
            }
            v
        }
        _ => {
            let k = rng.below(4);
            let d_here = take_defect(rng, defect);
            let models: Vec<Value> = (0..k).map(|_| gen_term_cfg(rng, depth + 1, defect)).collect();
            let mut v = json!({"type": case_name(rng, "combined"), "models": models});
            if let Some(d) = d_here {
                match d % 4 {
                    0 => {
                        v.as_object_mut().unwrap().remove("models");
                    }
                    1 => v["models"] = json!({"0": {"type": "iterations", "limit": 3}}),
                    2 => v["models"] = json!("iterations"),
                    _ => v["models"] = json!([5]),
                }
            }
            v
        }
    }
}

fn enc_term_real(t: &TerminationModel, out: &mut Vec<String>) {
    match t {
        TerminationModel::QueryRuntimeLimit { limit, frequency } => out.extend(["rt".into(), limit.as_nanos().to_string(), frequency.to_string()]),
        TerminationModel::SolutionSizeLimit { limit } => out.extend(["sz".into(), limit.to_string()]),
        TerminationModel::IterationsLimit { limit } => out.extend(["it".into(), limit.to_string()]),
        TerminationModel::Combined { models } => {
            out.push("cb".into());
            out.push(models.len().to_string());
            for m in models {
                enc_term_real(m, out);
            }
        }
    }
}

fn has_negative_or_zero_freq(v: &Value) -> (bool, bool) {
    match v {
        Value::Object(m) => {
            let mut neg = false;
            let mut zf = false;
            for (k, x) in m {
                if (k == "limit" || k == "frequency") && x.as_i64().map_or(false, |z| z < 0) {
                    neg = true;
                }
                if k == "frequency" && x.as_i64() == Some(0) {
                    zf = true;
                }
                let (a, b) = has_negative_or_zero_freq(x);
                neg |= a;
                zf |= b;
            }
            (neg, zf)
        }
        Value::Array(a) => a.iter().fold((false, false), |acc, x| {
            let (a, b) = has_negative_or_zero_freq(x);
            (acc.0 | a, acc.1 | b)
        }),
        _ => (false, false),
    }
}

/// some `limit` text of the configuration has an hour count whose seconds exceed u64
fn duration_overflows(v: &Value) -> bool {
    match v {
        Value::Object(m) => m.iter().any(|(k, x)| {
            (k == "limit"
                && x.as_str().map_or(false, |s| {
                    let parts: Vec<&str> = s.split(':').collect();
                    parts.len() == 3
                        && parts.iter().all(|p| !p.is_empty() && p.len() <= 30 && p.bytes().all(|b| b.is_ascii_digit()))
                        && parts[1].len() == 2
                        && parts[2].len() == 2
                        && {
                            let v: Vec<u128> = parts.iter().map(|p| p.parse::<u128>().unwrap_or(u128::MAX / 4000)).collect();
                            v[0] * 3600 + v[1] * 60 + v[2] > u64::MAX as u128
                        }
                }))
                || duration_overflows(x)
        }),
        Value::Array(a) => a.iter().any(duration_overflows),
        _ => false,
    }
}

/// what a well-formed termination configuration asks for, in the token format of `enc_term_real`, read
/// from the JSON independently of the builder (`None`: not a shape this reader knows — no verdict)
fn expected_term_tokens(v: &Value, out: &mut Vec<String>) -> Option<()> {
    let m = v.as_object()?;
    let ty = m.get("type")?.as_str()?.to_lowercase();
    match ty.as_str() {
        "iterations" => {
            let l = m.get("limit")?.as_u64()?;
            out.extend(["it".into(), l.to_string()]);
        }
        "solution_size" => {
            let l = m.get("limit")?.as_u64()?;
            out.extend(["sz".into(), l.to_string()]);
        }
        "query_runtime" => {
            let text = m.get("limit")?.as_str()?;
            let parts: Vec<&str> = text.split(':').collect();
            if parts.len() != 3 || parts.iter().any(|p| p.is_empty() || !p.bytes().all(|b| b.is_ascii_digit())) {
                return None;
            }
            let h: u128 = parts[0].parse().ok()?;
            let mi: u128 = parts[1].parse().ok()?;
            let se: u128 = parts[2].parse().ok()?;
            let secs = h * 3600 + mi * 60 + se;
            if secs > u64::MAX as u128 {
                return None;
            }
            let f = m.get("frequency")?.as_u64()?;
            out.extend(["rt".into(), (secs * 1_000_000_000).to_string(), f.to_string()]);
        }
        "combined" => {
            let ms = m.get("models")?.as_array()?;
            out.push("cb".into());
            out.push(ms.len().to_string());
            for x in ms {
                expected_term_tokens(x, out)?;
            }
        }
        _ => return None,
    }
    Some(())
}

fn op_term(ctx: &mut Ctx, idx: usize, rng: &mut Rng, corpus: Option<Value>) {
    let mut expect = Expect::Ok;
    let cfg = match corpus {
        Some(v) => {
            expect = Expect::Open;
            v
        }
        None => {
            let mut defect = if rng.chance(1, 2) { Some(rng.below(1000) as u32) } else { None };
            let planted = defect.is_some();
            let mut cfg = gen_term_cfg(rng, 0, &mut defect);
            if planted && defect.is_none() {
                expect = Expect::Err;
            }
            match rng.below(14) {
                0 => {
                    expect = Expect::Err;
                    match rng.below(6) {
                        0 => {
                            cfg.as_object_mut().unwrap().remove("type");
                        }
                        1 => cfg["type"] = json!(*rng.pick(&["iteration", "runtime", "size", "", "query-runtime"])),
                        2 => cfg["type"] = ill_typed_not_string(rng),
                        3 => cfg = json!([cfg]),
                        4 => cfg = Value::Null,
                        _ => cfg = json!("iterations"),
                    }
                }
                1 => {
                    // semantic corners, judged under their own keys: a negative limit, a check frequency of zero
                    expect = Expect::Open;
                    cfg = match rng.below(4) {
                        0 => json!({"type": "iterations", "limit": -(1 + rng.below(5) as i64)}),
                        1 => json!({"type": "solution_size", "limit": -(1 + rng.below(5) as i64)}),
                        2 => json!({"type": "query_runtime", "limit": "0:00:05", "frequency": 0}),
                        _ => json!({"type": "query_runtime", "limit": "0:00:05", "frequency": -(1 + rng.below(5) as i64)}),
                    };
                    if rng.chance(1, 2) {
                        cfg = json!({"type": "combined", "models": [{"type": "iterations", "limit": 7}, cfg]});
                    }
                }
                2 => {
                    // hours whose seconds do not fit the u64 of Duration::from_secs
                    expect = Expect::Open;
                    cfg = json!({"type": "query_runtime", "limit": format!("{}:00:00", *rng.pick(&[5124095576030432u64, 9223372036854775807, 18446744073709551615])), "frequency": 1});
                }
                _ => {}
            }
            cfg
        }
    };
    let res = catch_unwind(AssertUnwindSafe(|| TerminationModelBuilder::build(&cfg, None)));
    let case = format!("bld term {}", enc(&cfg));
    ctx.count("bld_term");
    let what = format!("config {}", cfg);
    let (neg, zero_freq) = has_negative_or_zero_freq(&cfg);
    match res {
        Err(p) => {
            let msg = panic_text(p);
            ctx.emit(idx, case, format!("panic {}", msg.replace(' ', "_")));
            verdict(ctx, idx, "TerminationModelBuilder", expect, false, Some(&msg), &what);
        }
        Ok(Err(e)) => {
            ctx.count("bld_term_err");
            let kind = match e {
                CompassConfigurationError::ExpectedFieldForComponent(..) => "missing",
                CompassConfigurationError::ExpectedFieldWithType(..) => "type",
                CompassConfigurationError::UnknownModelNameForComponent(..) => "unknown",
                CompassConfigurationError::ConversionError(..) => "duration",
                CompassConfigurationError::UserConfigurationError(..) => "value",
                _ => "other",
            };
            ctx.emit(idx, case.clone(), format!("err {}", kind));
            ctx.nontrivial(&case);
            verdict(ctx, idx, "TerminationModelBuilder", expect, false, None, &what);
        }
        Ok(Ok(t)) => {
            ctx.count("bld_term_ok");
            let mut o = vec![];
            enc_term_real(&t, &mut o);
            ctx.emit(idx, case.clone(), format!("ok {}", o.join(" ")));
            ctx.nontrivial(&case);
            verdict(ctx, idx, "TerminationModelBuilder", expect, true, None, &what);
            // the built model holds exactly the configured numbers: h*3600 + m*60 + s seconds, the counts as given
            let mut want = vec![];
            if expected_term_tokens(&cfg, &mut want).is_some() && want != o {
                ctx.fail(idx, "termination_builder/wrong-value", format!("{} was built as {:?} (expected {})", cfg, t, want.join(" ")));
            }
            if neg {
                ctx.fail(idx, "termination_builder/negative-value-accepted", format!("{} was built as {:?}", cfg, t));
            }
            if duration_overflows(&cfg) {
                ctx.fail(idx, "termination_builder/duration-overflow", format!("{} was built as {:?}: the hours do not fit the seconds of a Duration", cfg, t));
            }
            if zero_freq {
                ctx.fail(idx, "termination_builder/zero-frequency-accepted", format!("{} was built as {:?}: every search then divides by zero", cfg, t));
            }
        }
    }
}

fn ill_typed_not_string(rng: &mut Rng) -> Value {
    match rng.below(5) {
        0 => Value::Null,
        1 => json!(true),
        2 => json!(17),
        3 => json!([]),
        _ => json!({}),
    }
}

// ---------------------------------------------------------------------------------------------
// C01: k-shortest-path algorithms need a destination

fn op_kspnd(ctx: &mut Ctx, idx: usize, rng: &mut Rng) {
    use routee_compass_core::algorithm::search::direction::Direction;
    use routee_compass_core::algorithm::search::search_algorithm::SearchAlgorithm;
    use routee_compass_core::model::network::vertex_id::VertexId;
    let yen = rng.chance(1, 2);
    let k = 1 + rng.below(3);
    let with_dest = rng.chance(1, 4);
    let c = tiny_case();
    let b = build(&c).expect("tiny case");
    let underlying = Box::new(SearchAlgorithm::Dijkstra);
    let alg = if yen {
        SearchAlgorithm::Yens { k, underlying, similarity: None, termination: None }
    } else {
        SearchAlgorithm::KspSingleVia { k, underlying, similarity: None, termination: None }
    };
    let res = catch_unwind(AssertUnwindSafe(|| {
        alg.run_vertex_oriented(VertexId(0), if with_dest { Some(VertexId(1)) } else { None }, &json!({}), &Direction::Forward, &b.si)
    }));
    let case = format!("bld kspnd {} {} {}", if yen { "yen" } else { "svp" }, k, if with_dest { 1 } else { 0 });
    ctx.count("bld_kspnd");
    match res {
        Err(p) => {
            let msg = panic_text(p);
            ctx.emit(idx, case, format!("panic {}", msg.replace(' ', "_")));
            ctx.fail(idx, "search/panic", format!("k-shortest-paths without destination: {}", msg));
        }
        Ok(Err(e)) => {
            ctx.emit(idx, case.clone(), format!("err {}", err_kind(&e)));
            ctx.nontrivial(&case);
            if with_dest {
                ctx.fail(idx, "search/ksp-refused", format!("{}", e));
            }
        }
        Ok(Ok(r)) => {
            ctx.emit(idx, case, format!("ok {}", r.routes.len().min(1)));
            if !with_dest {
                ctx.fail(idx, "search/ksp-without-destination-accepted", "a k-shortest-paths search without destination returned a result".into());
            }
        }
    }
}

// ---------------------------------------------------------------------------------------------
// C01: the edge-oriented wrapper inside a_star_algorithm.rs and its backtrack, called directly.
// SearchAlgorithm has not called them since the repair of the edge-oriented route (/repo ffe41d9): their
// vertex-keyed tree cannot hold a route that passes the destination edge's head before the end, so the
// route read back from it can miss the origin or destination edge.  They are still public: the model
// follows them line by line (correspondence only — the C01 oracle judges what SearchAlgorithm returns).

fn op_aeo(ctx: &mut Ctx, idx: usize, rng: &mut Rng, corpus: Option<SCase>) {
    use routee_compass_core::algorithm::search::a_star::a_star_algorithm::{run_a_star_edge_oriented, verif_hook};
    use routee_compass_core::algorithm::search::backtrack::edge_oriented_route;
    use routee_compass_core::algorithm::search::direction::Direction;
    use routee_compass_core::model::network::edge_id::EdgeId;
    let c = match corpus {
        Some(c) => c,
        None => {
            let style = match rng.below(3) {
                0 => LenStyle::TieHeavy,
                1 => LenStyle::Generic,
                _ => LenStyle::Metric,
            };
            let opts = GenOpts { max_v: if ctx.quick() { 8 } else { *rng.pick(&[8usize, 14, 30]) }, len_style: style, allow_term: rng.chance(1, 3), ..Default::default() };
            let mut c = gen_case(rng, &opts);
            c.edge_oriented = true;
            c.reverse = false;
            c.svc = None;
            c.svc_unknown_weight = false;
            let n_e = c.edges.len();
            c.source = rng.below(n_e);
            c.target = if rng.chance(1, 6) { None } else { Some(rng.below(n_e)) };
            // origin / destination edges that do not exist
            if rng.chance(1, 25) {
                c.source = n_e + rng.below(2);
            }
            if rng.chance(1, 25) && c.target.is_some() {
                c.target = Some(n_e + rng.below(2));
            }
            c
        }
    };
    let Ok(b) = build(&c) else {
        ctx.emit(idx, "bld aeo build".into(), "build refused".into());
        ctx.fail(idx, "build/valid-configuration-refused", "aeo".into());
        return;
    };
    let wf = effective_wf(&c).map(Cost::new);
    routee_compass_core::model::termination::termination_model::verif_clock::set(match &c.term {
        t => {
            fn fc(t: &Term) -> Option<(u64, u64)> {
                match t {
                    Term::Runtime { base_ns, per_ns, .. } => Some((*base_ns, *per_ns)),
                    Term::Combined(ms) => ms.iter().filter_map(fc).next(),
                    _ => None,
                }
            }
            fc(t)
        }
    });
    verif_hook::start();
    let res = catch_unwind(AssertUnwindSafe(|| run_a_star_edge_oriented(EdgeId(c.source), c.target.map(EdgeId), &Direction::Forward, wf, &b.si)));
    let trace = verif_hook::take();
    routee_compass_core::model::termination::termination_model::verif_clock::set(None);
    let mut scheds: Vec<Vec<usize>> = vec![];
    for v in trace {
        if v == verif_hook::RUN_MARKER {
            scheds.push(vec![]);
        } else if let Some(last) = scheds.last_mut() {
            last.push(v);
        }
    }
    let mut sched: Vec<usize> = scheds.first().cloned().unwrap_or_default();
    let inner_src = c.edges.get(c.source).map(|e| e.1);
    if let (Ok(Ok(_)), Some(t), false) = (&res, inner_target(&c), scheds.is_empty()) {
        if Some(t) != inner_src {
            sched.push(t);
        }
    }
    let case = format!("bld aeo {}", encode(&c, &b, &sched));
    ctx.count("bld_aeo");
    match res {
        Err(p) => {
            let msg = panic_text(p);
            ctx.emit(idx, case, format!("panic {}", msg.replace(' ', "_")));
            if !msg.contains("remainder with a divisor of zero") {
                ctx.fail(idx, "search/panic", format!("run_a_star_edge_oriented: {}", msg));
            }
        }
        Ok(Err(e)) => {
            ctx.count(&format!("bld_aeo_err_{}", err_kind(&e).split(' ').next().unwrap_or("")));
            ctx.emit(idx, case, format!("err {}", err_kind(&e)));
        }
        Ok(Ok(r)) => {
            let route = match c.target {
                None => "none".to_string(),
                Some(t) => match catch_unwind(AssertUnwindSafe(|| edge_oriented_route(EdgeId(c.source), EdgeId(t), &r.tree, b.graph.clone()))) {
                    Err(p) => {
                        let msg = panic_text(p);
                        ctx.fail(idx, "search/panic", format!("edge_oriented_route: {}", msg));
                        format!("panic {}", msg.replace(' ', "_"))
                    }
                    Ok(Err(e)) => {
                        ctx.count("bld_aeo_route_err");
                        format!("err {}", err_kind(&e))
                    }
                    Ok(Ok(rt)) => {
                        ctx.count("bld_aeo_route_ok");
                        format!("ok {}", route_out(&rt))
                    }
                },
            };
            let out = format!("ok {} {} route {}", r.iterations, tree_out(&r.tree), route);
            if r.tree.len() >= 3 {
                ctx.nontrivial(&out);
            }
            ctx.emit(idx, case, out);
        }
    }
}

// ---------------------------------------------------------------------------------------------

fn tag(p: Prop) -> u64 {
    match p {
        Prop::C01 => 101,
        Prop::C02 => 102,
        Prop::C03 => 103,
        Prop::C04 => 104,
        Prop::C05 => 105,
        Prop::C10 => 110,
    }
}

/// hand-written termination configurations (witnesses first)
fn term_corpus() -> Vec<Value> {
    vec![
        json!({"type": "iterations", "limit": -1}),
        json!({"type": "solution_size", "limit": -1}),
        json!({"type": "query_runtime", "limit": "0:00:05", "frequency": 0}),
        json!({"type": "query_runtime", "limit": "0:00:05", "frequency": -1}),
        json!({"type": "query_runtime", "limit": "5124095576030432:00:00", "frequency": 1}),
        json!({"type": "combined", "models": [{"type": "combined", "models": [{"type": "iterations", "limit": 3}]}, {"type": "QUERY_RUNTIME", "limit": "1:01:01", "frequency": 2}]}),
        json!({"type": "combined", "models": []}),
        json!({"type": "query_runtime", "frequency": 3}),
        json!({"type": "query_runtime", "limit": 5, "frequency": 3}),
        json!({"type": "query_runtime", "limit": "٣:00:00", "frequency": 1}),
    ]
}

pub fn run_stream(ctx: &mut Ctx, p: Prop) {
    let n = match p {
        Prop::C05 => 0,
        Prop::C01 => ctx.n(160, 8000),
        _ => ctx.n(240, 12000),
    };
    if p == Prop::C02 || p == Prop::C03 {
        // witnesses of the repaired Speed::from_str: a NaN row must be refused
        for rows in [vec![NumRow::Nan, NumRow::V(85.0, 0)], vec![NumRow::V(70.0, 0), NumRow::V(51.25, 1), NumRow::Nan]] {
            let Some(idx) = ctx.begin() else { continue };
            let mut rng = Rng::for_case(ctx.seed, tag(p), idx as u64);
            op_speng(ctx, idx, &mut rng, Some(rows));
        }
    }
    if p == Prop::C03 {
        // witnesses of the repaired TurnDelayAccessModelBuilder: a negative delay must be refused
        for v in [-5.0f64, -0.25] {
            let Some(idx) = ctx.begin() else { continue };
            let mut rng = Rng::for_case(ctx.seed, tag(p), idx as u64);
            op_heads(ctx, idx, &mut rng, Some(v));
        }
    }
    if p == Prop::C04 {
        // witnesses of the repaired VehicleParameters::from_query: a number of axles beyond u8 was wrapped
        for axles in [256u64, 257, 4294967298, 255] {
            let Some(idx) = ctx.begin() else { continue };
            let mut rng = Rng::for_case(ctx.seed, tag(p), idx as u64);
            let q = json!({"vehicle_parameters": {"height": [4.1, "meters"], "width": [8, "feet"], "total_length": [20.5, "meters"],
                "trailer_length": [48, "feet"], "total_weight": [36, "tons"], "number_of_axles": axles}});
            op_vp(ctx, idx, &mut rng, Some(q));
        }
    }
    if p == Prop::C10 {
        for v in term_corpus() {
            let Some(idx) = ctx.begin() else { continue };
            let mut rng = Rng::for_case(ctx.seed, tag(p), idx as u64);
            op_term(ctx, idx, &mut rng, Some(v));
        }
    }
    for k in 0..n {
        let Some(idx) = ctx.begin() else { continue };
        let mut rng = Rng::for_case(ctx.seed, tag(p), idx as u64);
        match p {
            Prop::C01 => {
                if k % 8 == 0 {
                    op_kspnd(ctx, idx, &mut rng)
                } else {
                    op_aeo(ctx, idx, &mut rng, None)
                }
            }
            Prop::C02 => match k % 6 {
                0 | 1 | 2 => op_speng(ctx, idx, &mut rng, None),
                3 | 4 => op_dist(ctx, idx, &mut rng),
                _ => op_wf(ctx, idx, &mut rng),
            },
            Prop::C03 => match k % 3 {
                0 => op_speng(ctx, idx, &mut rng, None),
                _ => op_heads(ctx, idx, &mut rng, None),
            },
            Prop::C04 => match k % 8 {
                0 | 1 | 2 => op_vp(ctx, idx, &mut rng, None),
                3 | 4 => op_rc(ctx, idx, &mut rng),
                5 => op_tr(ctx, idx, &mut rng),
                6 => op_vr(ctx, idx, &mut rng),
                _ => op_comb(ctx, idx, &mut rng),
            },
            Prop::C10 => op_term(ctx, idx, &mut rng, None),
            Prop::C05 => {}
        }
    }
}
