//! C07 — edge costs are finite and strictly positive; estimates are non-negative.
//! Correspondence: the real `CostModel` (built by `CostModel::new` over a real `StateModel`) against the
//! Lean model on random configurations: every `VehicleCostRate` / `NetworkCostRate` constructor (nested
//! `Combined` up to depth 3), both aggregations, weights with zeros / negatives / absent names / zero sum,
//! state deltas of every sign, lookup tables that hit and miss, state vectors that are too short.
//! Bit-exact on `traversal_cost`, `access_cost`, `cost_estimate` and on the records the real
//! `EdgeTraversal::forward_traversal` / `reverse_traversal` return (`access_cost`, `traversal_cost`,
//! `total_cost()`; with and without neighbouring edge) over a real `SearchInstance` whose access and
//! traversal models are scripted to leave prescribed states; plus the three `cost_ops::calculate_*`
//! functions called directly on arbitrary index lists and vector lengths.
//! Oracle (on the real code's outputs only): positivity / finiteness, estimate >= 0, the sum (and product)
//! formula recomputed in f64 from the flattened configuration, floor exactly when the recomputed value is
//! clearly <= 0, zero-weight features ignored, linearity in the weights (x2 is exact in binary),
//! `total_cost()` positive and equal to the traversal cost up to rounding.
use crate::ctx::{fbits, Ctx};
use crate::rng::Rng;
use routee_compass_core::algorithm::search::edge_traversal::EdgeTraversal;
use routee_compass_core::algorithm::search::search_instance::SearchInstance;
use routee_compass_core::model::access::access_model::AccessModel;
use routee_compass_core::model::access::access_model_error::AccessModelError;
use routee_compass_core::model::frontier::default::no_restriction::NoRestriction;
use routee_compass_core::model::network::{Graph, Vertex};
use routee_compass_core::model::termination::termination_model::TerminationModel;
use routee_compass_core::model::traversal::traversal_model::TraversalModel;
use routee_compass_core::model::traversal::traversal_model_error::TraversalModelError;
use routee_compass_core::util::compact_ordered_hash_map::CompactOrderedHashMap;
use routee_compass_core::model::cost::cost_aggregation::CostAggregation;
use routee_compass_core::model::cost::cost_model::CostModel;
use routee_compass_core::model::cost::cost_ops;
use routee_compass_core::model::cost::network::network_cost_rate::NetworkCostRate;
use routee_compass_core::model::cost::vehicle::vehicle_cost_rate::VehicleCostRate;
use routee_compass_core::model::network::edge_id::EdgeId;
use routee_compass_core::model::network::Edge;
use routee_compass_core::model::state::custom_feature_format::CustomFeatureFormat;
use routee_compass_core::model::state::state_feature::StateFeature;
use routee_compass_core::model::state::state_model::StateModel;
use routee_compass_core::model::traversal::state::state_variable::StateVar;
use routee_compass_core::model::unit::as_f64::AsF64;
use routee_compass_core::model::unit::{Cost, Distance, DistanceUnit, Energy, EnergyUnit, Time, TimeUnit};
use std::collections::HashMap;
use std::panic::{catch_unwind, AssertUnwindSafe};
use std::sync::Arc;

#[derive(Clone, Debug)]
enum VR {
    Zero,
    Raw,
    Factor(f64),
    Offset(f64),
    Combined(Vec<VR>),
}

#[derive(Clone, Debug)]
enum NR {
    Zero,
    Edge(Vec<(usize, f64)>),
    Pair(Vec<((usize, usize), f64)>),
    Combined(Vec<NR>),
}

#[derive(Clone, Debug)]
struct Feature {
    name: String,
    weight: Option<f64>,
    vrate: Option<VR>,
    nrate: Option<NR>,
}

#[derive(Clone, Debug)]
struct Case {
    mul: bool,
    feats: Vec<Feature>,
    prev: Vec<f64>,
    next: Vec<f64>,
    /// the state the (scripted) access model leaves; the (scripted) traversal model leaves `next`
    mid: Vec<f64>,
    e: usize,
    pe: usize,
    ne: usize,
}

/// traversal model that leaves a prescribed state (the cost bookkeeping of EdgeTraversal is what is observed)
struct ScriptedTraversal(Vec<StateVar>);
impl TraversalModel for ScriptedTraversal {
    fn state_features(&self) -> Vec<(String, StateFeature)> {
        vec![]
    }
    fn traverse_edge(&self, _: (&Vertex, &Edge, &Vertex), state: &mut Vec<StateVar>, _: &StateModel) -> Result<(), TraversalModelError> {
        *state = self.0.clone();
        Ok(())
    }
    fn estimate_traversal(&self, _: (&Vertex, &Vertex), state: &mut Vec<StateVar>, _: &StateModel) -> Result<(), TraversalModelError> {
        *state = self.0.clone();
        Ok(())
    }
}

/// access model that leaves a prescribed state
struct ScriptedAccess(Vec<StateVar>);
impl AccessModel for ScriptedAccess {
    fn state_features(&self) -> Vec<(String, StateFeature)> {
        vec![]
    }
    fn access_edge(&self, _: (&Vertex, &Edge, &Vertex, &Edge, &Vertex), state: &mut Vec<StateVar>, _: &StateModel) -> Result<(), AccessModelError> {
        *state = self.0.clone();
        Ok(())
    }
}

/// a path graph with edges 0..6 (edge k: vertex k -> k+1); the EdgeTraversal functions only look the
/// edges and their end vertices up
fn path_graph() -> Graph {
    let vertices: Vec<Vertex> = (0..8).map(|k| Vertex::new(k, k as f32 * 0.001, 0.0)).collect();
    let edges: Vec<Edge> = (0..7).map(|k| Edge::new(k, k, k + 1, 1.0)).collect();
    let adj: Vec<CompactOrderedHashMap<EdgeId, routee_compass_core::model::network::VertexId>> =
        (0..8).map(|_| CompactOrderedHashMap::empty()).collect();
    let rev = adj.clone();
    Graph { adj: adj.into_boxed_slice(), rev: rev.into_boxed_slice(), edges: edges.into_boxed_slice(), vertices: vertices.into_boxed_slice() }
}

/// `access_cost`, `traversal_cost` fields and `total_cost()` of an EdgeTraversal
type Rec = Option<(f64, f64, f64)>;

fn rec_of(r: Result<EdgeTraversal, routee_compass_core::algorithm::search::search_error::SearchError>) -> Rec {
    r.ok().map(|et| (et.access_cost.as_f64(), et.traversal_cost.as_f64(), et.total_cost().as_f64()))
}

fn rec_out(r: &Rec) -> String {
    match r {
        Some((a, s, t)) => format!("{} {} {}", fbits(*a), fbits(*s), fbits(*t)),
        None => "err err err".into(),
    }
}

impl VR {
    fn real(&self) -> VehicleCostRate {
        match self {
            VR::Zero => VehicleCostRate::Zero,
            VR::Raw => VehicleCostRate::Raw,
            VR::Factor(f) => VehicleCostRate::Factor { factor: *f },
            VR::Offset(o) => VehicleCostRate::Offset { offset: *o },
            VR::Combined(rs) => VehicleCostRate::Combined(rs.iter().map(|r| r.real()).collect()),
        }
    }
    fn enc(&self, out: &mut Vec<String>) {
        match self {
            VR::Zero => out.push("z".into()),
            VR::Raw => out.push("r".into()),
            VR::Factor(f) => {
                out.push("f".into());
                out.push(fbits(*f));
            }
            VR::Offset(o) => {
                out.push("o".into());
                out.push(fbits(*o));
            }
            VR::Combined(rs) => {
                out.push("c".into());
                out.push(rs.len().to_string());
                for r in rs {
                    r.enc(out);
                }
            }
        }
    }
    /// the rated value of `x`: the mappings of a combined rate are applied one after the other
    fn apply(&self, x: f64) -> f64 {
        match self {
            VR::Zero => 0.0,
            VR::Raw => x,
            VR::Factor(f) => x * f,
            VR::Offset(o) => x + o,
            VR::Combined(rs) => {
                let mut acc = x;
                for r in rs {
                    acc = r.apply(acc);
                }
                acc
            }
        }
    }
    fn depth(&self) -> usize {
        match self {
            VR::Combined(rs) => 1 + rs.iter().map(|r| r.depth()).max().unwrap_or(0),
            _ => 0,
        }
    }
    fn tally(&self, ctx: &mut Ctx) {
        match self {
            VR::Zero => ctx.count("vrate_zero"),
            VR::Raw => ctx.count("vrate_raw"),
            VR::Factor(_) => ctx.count("vrate_factor"),
            VR::Offset(_) => ctx.count("vrate_offset"),
            VR::Combined(rs) => {
                ctx.count(if rs.is_empty() { "vrate_combined_empty" } else { "vrate_combined" });
                for r in rs {
                    r.tally(ctx);
                }
            }
        }
    }
}

impl NR {
    fn real(&self) -> NetworkCostRate {
        match self {
            NR::Zero => NetworkCostRate::Zero,
            NR::Edge(t) => NetworkCostRate::EdgeLookup {
                lookup: t.iter().map(|(k, v)| (EdgeId(*k), Cost::new(*v))).collect::<HashMap<_, _>>(),
            },
            NR::Pair(t) => NetworkCostRate::EdgeEdgeLookup {
                lookup: t
                    .iter()
                    .map(|((a, b), v)| ((EdgeId(*a), EdgeId(*b)), Cost::new(*v)))
                    .collect::<HashMap<_, _>>(),
            },
            NR::Combined(rs) => NetworkCostRate::Combined(rs.iter().map(|r| r.real()).collect()),
        }
    }
    fn enc(&self, out: &mut Vec<String>) {
        match self {
            NR::Zero => out.push("z".into()),
            NR::Edge(t) => {
                out.push("e".into());
                out.push(t.len().to_string());
                for (k, v) in t {
                    out.push(k.to_string());
                    out.push(fbits(*v));
                }
            }
            NR::Pair(t) => {
                out.push("p".into());
                out.push(t.len().to_string());
                for ((a, b), v) in t {
                    out.push(a.to_string());
                    out.push(b.to_string());
                    out.push(fbits(*v));
                }
            }
            NR::Combined(rs) => {
                out.push("c".into());
                out.push(rs.len().to_string());
                for r in rs {
                    r.enc(out);
                }
            }
        }
    }
    /// every per-edge surcharge that applies to edge `e`, flattened over the nesting
    fn edge_leaves(&self, e: usize, out: &mut Vec<f64>, hits: &mut (u64, u64)) {
        match self {
            NR::Zero | NR::Pair(_) => {}
            NR::Edge(t) => match t.iter().find(|(k, _)| *k == e) {
                Some((_, v)) => {
                    hits.0 += 1;
                    out.push(*v)
                }
                None => hits.1 += 1,
            },
            NR::Combined(rs) => rs.iter().for_each(|r| r.edge_leaves(e, out, hits)),
        }
    }
    /// every per-turn surcharge that applies to the edge pair, flattened over the nesting
    fn pair_leaves(&self, pe: usize, ne: usize, out: &mut Vec<f64>, hits: &mut (u64, u64)) {
        match self {
            NR::Zero | NR::Edge(_) => {}
            NR::Pair(t) => match t.iter().find(|(k, _)| *k == (pe, ne)) {
                Some((_, v)) => {
                    hits.0 += 1;
                    out.push(*v)
                }
                None => hits.1 += 1,
            },
            NR::Combined(rs) => rs.iter().for_each(|r| r.pair_leaves(pe, ne, out, hits)),
        }
    }
    fn depth(&self) -> usize {
        match self {
            NR::Combined(rs) => 1 + rs.iter().map(|r| r.depth()).max().unwrap_or(0),
            _ => 0,
        }
    }
    fn tally(&self, ctx: &mut Ctx) {
        match self {
            NR::Zero => ctx.count("nrate_zero"),
            NR::Edge(_) => ctx.count("nrate_edge_lookup"),
            NR::Pair(_) => ctx.count("nrate_edge_pair_lookup"),
            NR::Combined(rs) => {
                ctx.count(if rs.is_empty() { "nrate_combined_empty" } else { "nrate_combined" });
                for r in rs {
                    r.tally(ctx);
                }
            }
        }
    }
}

/// what the real code returned
#[derive(Clone, Debug, PartialEq)]
enum Out {
    Panic,
    NewErr,
    Ok {
        t: Option<f64>,
        a: Option<f64>,
        est: Option<f64>,
        /// EdgeTraversal::forward_traversal with previous edge `pe` / without; reverse_traversal with
        /// next edge `ne` / without
        recs: [Rec; 4],
    },
}

fn fopt(x: Option<f64>) -> String {
    match x {
        Some(v) => fbits(v),
        None => "err".into(),
    }
}

impl Out {
    fn line(&self) -> String {
        match self {
            Out::Panic => "panic".into(),
            Out::NewErr => "new-err".into(),
            Out::Ok { t, a, est, recs } => format!(
                "ok {} {} {} {} {} {} {}",
                fopt(*t),
                fopt(*a),
                fopt(*est),
                rec_out(&recs[0]),
                rec_out(&recs[1]),
                rec_out(&recs[2]),
                rec_out(&recs[3])
            ),
        }
    }
}

fn state_feature(k: usize) -> StateFeature {
    match k % 5 {
        0 => StateFeature::Distance { distance_unit: DistanceUnit::Miles, initial: Distance::new(0.0) },
        1 => StateFeature::Time { time_unit: TimeUnit::Minutes, initial: Time::new(0.0) },
        2 => StateFeature::Energy { energy_unit: EnergyUnit::KilowattHours, initial: Energy::new(0.0) },
        3 => StateFeature::Custom {
            r#type: "soc".into(),
            unit: "percent".into(),
            format: CustomFeatureFormat::default(),
        },
        _ => StateFeature::Distance { distance_unit: DistanceUnit::Meters, initial: Distance::new(0.0) },
    }
}

/// builds the real state model and cost model and evaluates the API; also returns the feature names in
/// the order `state_model.indexed_iter()` yields them (the order the case line is written in)
fn eval(case: &Case, ghost: bool) -> (Out, Vec<String>) {
    let sm = Arc::new(StateModel::new(
        case.feats.iter().enumerate().map(|(k, f)| (f.name.clone(), state_feature(k))).collect::<Vec<_>>(),
    ));
    let order: Vec<String> = sm.indexed_iter().map(|(_, (name, _))| name.clone()).collect();
    let mut w: HashMap<String, f64> = HashMap::new();
    let mut v: HashMap<String, VehicleCostRate> = HashMap::new();
    let mut n: HashMap<String, NetworkCostRate> = HashMap::new();
    for f in &case.feats {
        if let Some(x) = f.weight {
            w.insert(f.name.clone(), x);
        }
        if let Some(r) = &f.vrate {
            v.insert(f.name.clone(), r.real());
        }
        if let Some(r) = &f.nrate {
            n.insert(f.name.clone(), r.real());
        }
    }
    if ghost {
        // names that are not state features are ignored by CostModel::new
        w.insert("ghost".into(), 7.5);
        v.insert("ghost".into(), VehicleCostRate::Raw);
        n.insert("ghost".into(), NetworkCostRate::EdgeLookup { lookup: HashMap::from([(EdgeId(case.e), Cost::new(3.0))]) });
    }
    let agg = if case.mul { CostAggregation::Mul } else { CostAggregation::Sum };
    let prev: Vec<StateVar> = case.prev.iter().map(|x| StateVar(*x)).collect();
    let next: Vec<StateVar> = case.next.iter().map(|x| StateVar(*x)).collect();
    let mid: Vec<StateVar> = case.mid.iter().map(|x| StateVar(*x)).collect();
    let (e, pe, ne) = (case.e, case.pe, case.ne);
    let r = catch_unwind(AssertUnwindSafe(|| {
        let cm = match CostModel::new(Arc::new(w), Arc::new(v), Arc::new(n), agg, sm.clone()) {
            Ok(cm) => cm,
            Err(_) => return Out::NewErr,
        };
        let edge = Edge::new(e, 0, 1, 1.0);
        let prev_edge = Edge::new(pe, 2, 0, 1.0);
        let next_edge = Edge::new(ne, 0, 1, 1.0);
        let t = cm.traversal_cost(&edge, &prev, &next).ok().map(|c| c.as_f64());
        let a = cm.access_cost(&prev_edge, &next_edge, &prev, &next).ok().map(|c| c.as_f64());
        let est = cm.cost_estimate(&prev, &next).ok().map(|c| c.as_f64());
        // the real EdgeTraversal constructors, over scripted access / traversal models
        let si = SearchInstance {
            directed_graph: Arc::new(path_graph()),
            state_model: sm.clone(),
            traversal_model: Arc::new(ScriptedTraversal(next.clone())),
            access_model: Arc::new(ScriptedAccess(mid.clone())),
            cost_model: Arc::new(cm),
            frontier_model: Arc::new(NoRestriction {}),
            termination_model: Arc::new(TerminationModel::IterationsLimit { limit: 10 }),
        };
        let recs = [
            rec_of(EdgeTraversal::forward_traversal(EdgeId(e), Some(EdgeId(pe)), &prev, &si)),
            rec_of(EdgeTraversal::forward_traversal(EdgeId(e), None, &prev, &si)),
            rec_of(EdgeTraversal::reverse_traversal(EdgeId(e), Some(EdgeId(ne)), &prev, &si)),
            rec_of(EdgeTraversal::reverse_traversal(EdgeId(e), None, &prev, &si)),
        ];
        Out::Ok { t, a, est, recs }
    }));
    (r.unwrap_or(Out::Panic), order)
}

fn case_line(case: &Case, order: &[String]) -> String {
    let mut out: Vec<String> = vec!["api".into()];
    out.push(if case.mul { "mul".into() } else { "sum".into() });
    out.push(order.len().to_string());
    for name in order {
        let f = case.feats.iter().rev().find(|f| &f.name == name);
        match f.and_then(|f| f.weight) {
            Some(x) => {
                out.push("s".into());
                out.push(fbits(x));
            }
            None => out.push("n".into()),
        }
        match f.and_then(|f| f.vrate.as_ref()) {
            Some(r) => {
                out.push("s".into());
                r.enc(&mut out);
            }
            None => out.push("n".into()),
        }
        match f.and_then(|f| f.nrate.as_ref()) {
            Some(r) => {
                out.push("s".into());
                r.enc(&mut out);
            }
            None => out.push("n".into()),
        }
    }
    out.push(case.prev.len().to_string());
    out.extend(case.prev.iter().map(|x| fbits(*x)));
    out.push(case.next.len().to_string());
    out.extend(case.next.iter().map(|x| fbits(*x)));
    out.push(case.mid.len().to_string());
    out.extend(case.mid.iter().map(|x| fbits(*x)));
    out.push(case.e.to_string());
    out.push(case.pe.to_string());
    out.push(case.ne.to_string());
    out.join(" ")
}

// ---------------------------------------------------------------- generator

fn value(rng: &mut Rng) -> f64 {
    let x = match rng.below(20) {
        0 => 0.0,
        1 => 1.0,
        2..=9 => rng.small_decimal(100, 2),
        10..=13 => rng.range(0, 50) as f64,
        14 | 15 => rng.uniform(0.0, 10.0),
        16 => rng.uniform(0.0, 1.0) * 1e-9,
        17 => rng.uniform(1.0, 10.0) * 1e4,
        18 => rng.uniform(1.0, 10.0) * 1e6,
        _ => rng.small_decimal(5, 1),
    };
    if rng.chance(1, 4) {
        -x
    } else {
        x
    }
}

fn gen_vr(rng: &mut Rng, depth: usize) -> VR {
    let k = rng.below(if depth < 3 { 11 } else { 9 });
    match k {
        0 => VR::Zero,
        1..=3 => VR::Raw,
        4..=6 => VR::Factor(if rng.chance(1, 8) { 0.0 } else { value(rng) }),
        7 | 8 => VR::Offset(value(rng)),
        _ => {
            let n = rng.below(4);
            VR::Combined((0..n).map(|_| gen_vr(rng, depth + 1)).collect())
        }
    }
}

fn gen_nr(rng: &mut Rng, depth: usize) -> NR {
    let k = rng.below(if depth < 3 { 9 } else { 7 });
    match k {
        0 => NR::Zero,
        1..=3 => {
            let mut keys: Vec<usize> = (0..6).collect();
            rng.shuffle(&mut keys);
            let n = rng.below(5);
            NR::Edge(keys[..n].iter().map(|k| (*k, value(rng))).collect())
        }
        4..=6 => {
            let mut keys: Vec<(usize, usize)> = (0..4).flat_map(|a| (0..4).map(move |b| (a, b))).collect();
            rng.shuffle(&mut keys);
            let n = rng.below(7);
            NR::Pair(keys[..n].iter().map(|k| (*k, value(rng))).collect())
        }
        _ => {
            let n = rng.below(4);
            NR::Combined((0..n).map(|_| gen_nr(rng, depth + 1)).collect())
        }
    }
}

fn gen_case(rng: &mut Rng) -> Case {
    let n = match rng.below(40) {
        0 => 0,
        1..=33 => 1 + rng.below(8),
        _ => 9 + rng.below(4),
    };
    let mut names: Vec<String> = vec![];
    while names.len() < n {
        let nm = format!("{}{}", rng.pick(&["distance", "time", "energy", "soc", "k", "trip_"]), rng.below(40));
        if !names.contains(&nm) {
            names.push(nm);
        }
    }
    let mut feats: Vec<Feature> = names
        .into_iter()
        .map(|name| {
            let weight = match rng.below(20) {
                0..=2 => None,
                3 | 4 => Some(0.0),
                5 => Some(-0.0),
                6 | 7 => Some(-value(rng).abs()),
                9 => Some(1.0),
                _ => Some(value(rng).abs()),
            };
            let vrate = if rng.chance(3, 20) { None } else { Some(gen_vr(rng, 0)) };
            let nrate = if rng.chance(2, 5) { None } else { Some(gen_nr(rng, 0)) };
            Feature { name, weight, vrate, nrate }
        })
        .collect();
    // weights that sum to zero: rejected by CostModel::new
    match rng.below(40) {
        0 => feats.iter_mut().for_each(|f| f.weight = if rng.chance(1, 2) { None } else { Some(0.0) }),
        1 | 2 if n >= 2 => {
            for f in feats.iter_mut() {
                f.weight = Some(rng.range(-8, 8) as f64 * 0.5);
            }
            let s: f64 = feats[..n - 1].iter().map(|f| f.weight.unwrap()).sum();
            feats[n - 1].weight = Some(-s);
        }
        _ => {}
    }
    let mul = rng.chance(1, 3);
    let (e, pe, ne) = (rng.below(6), rng.below(4), rng.below(4));
    if mul && rng.chance(2, 3) {
        // a product is annihilated by any zero factor: make most mul cases free of them
        for f in feats.iter_mut() {
            if f.weight.unwrap_or(0.0) == 0.0 {
                f.weight = Some(0.5 + value(rng).abs());
            }
            if matches!(f.vrate, None | Some(VR::Zero)) {
                f.vrate = Some(VR::Raw);
            }
            if rng.chance(2, 3) {
                let mut parts = vec![NR::Edge(vec![(e, 0.25 + value(rng).abs())]), NR::Pair(vec![((pe, ne), 0.25 + value(rng).abs())])];
                if let Some(r) = f.nrate.take() {
                    parts.push(r);
                }
                f.nrate = Some(NR::Combined(parts));
            }
        }
    }
    let mut prev: Vec<f64> = vec![];
    let mut next: Vec<f64> = vec![];
    for _ in 0..n {
        let p = if rng.chance(1, 4) { 0.0 } else { value(rng).abs() };
        let d = match rng.below(10) {
            0 | 1 => 0.0,
            2 | 3 => -value(rng).abs(),
            _ => value(rng).abs(),
        };
        prev.push(p);
        next.push(if d == 0.0 { p } else { p + d });
    }
    match rng.below(40) {
        0 if n > 0 => {
            prev.truncate(rng.below(n));
        }
        1 if n > 0 => {
            next.truncate(rng.below(n));
        }
        2 => {
            prev.push(value(rng));
            next.push(value(rng));
            next.push(value(rng));
        }
        _ => {}
    }
    // the state after the access step: unchanged (no access model), a turn delay added to some
    // feature, the final state already, or a vector of the wrong length
    let mut mid = prev.clone();
    match rng.below(10) {
        0..=3 => {}
        4..=6 => {
            for x in mid.iter_mut() {
                if rng.chance(1, 2) {
                    *x += value(rng).abs();
                }
            }
        }
        7 | 8 => mid = next.clone(),
        _ => {
            mid.truncate(rng.below(n + 1));
        }
    }
    Case { mul, feats, prev, next, mid, e, pe, ne }
}

// ---------------------------------------------------------------- hand-written corpus

fn feat(name: &str, w: Option<f64>, v: Option<VR>, n: Option<NR>) -> Feature {
    Feature { name: name.into(), weight: w, vrate: v, nrate: n }
}

fn corpus() -> Vec<Case> {
    let c = |mul: bool, feats: Vec<Feature>, prev: Vec<f64>, next: Vec<f64>, e: usize, pe: usize, ne: usize| Case {
        mul,
        feats,
        mid: prev.clone(),
        prev,
        next,
        e,
        pe,
        ne,
    };
    vec![
        // witness: the floored traversal total is absorbed by a large access share in
        // `access + (total - access)` (f64), so EdgeTraversal::total_cost() is exactly 0
        c(
            false,
            vec![feat("distance", Some(1.0), Some(VR::Raw), Some(NR::Pair(vec![((1, 2), 1.0e7)])))],
            vec![5.0],
            vec![5.0],
            2,
            1,
            2,
        ),
        // plain distance cost
        c(false, vec![feat("distance", Some(1.0), Some(VR::Raw), None)], vec![0.0], vec![2.5], 0, 0, 0),
        // zero delta and zero rates: floor on both, estimate zero
        c(
            false,
            vec![feat("distance", Some(1.0), Some(VR::Raw), None), feat("time", Some(2.0), None, None)],
            vec![1.0, 2.0],
            vec![1.0, 2.0],
            0,
            0,
            0,
        ),
        // regained energy: negative delta, floor; estimate clipped at zero
        c(
            false,
            vec![feat("energy", Some(1.0), Some(VR::Factor(0.5)), None)],
            vec![10.0],
            vec![8.0],
            0,
            0,
            0,
        ),
        // offset applied to a zero delta, nested combined, surcharges that hit
        c(
            false,
            vec![
                feat(
                    "time",
                    Some(2.0),
                    Some(VR::Combined(vec![VR::Factor(3.0), VR::Combined(vec![VR::Offset(-1.0), VR::Combined(vec![])]), VR::Raw])),
                    Some(NR::Combined(vec![NR::Edge(vec![(3, 0.25)]), NR::Pair(vec![((1, 3), 4.0)]), NR::Combined(vec![NR::Edge(vec![(3, 1.0), (4, 9.0)])])])),
                ),
                feat("distance", Some(0.0), Some(VR::Raw), Some(NR::Edge(vec![(3, 100.0)]))),
            ],
            vec![1.0, 0.0],
            vec![1.0, 7.0],
            3,
            1,
            3,
        ),
        // mul aggregation with a zero weight: the product is annihilated, floor
        c(
            true,
            vec![feat("distance", Some(2.0), Some(VR::Raw), None), feat("time", Some(0.0), Some(VR::Raw), None)],
            vec![0.0, 0.0],
            vec![3.0, 4.0],
            0,
            0,
            0,
        ),
        // mul aggregation, two negative factors: positive product
        c(
            true,
            vec![feat("distance", Some(-2.0), Some(VR::Raw), None), feat("time", Some(1.0), Some(VR::Factor(-1.5)), None)],
            vec![0.0, 0.0],
            vec![3.0, 4.0],
            0,
            0,
            0,
        ),
        // weights sum to zero: rejected
        c(
            false,
            vec![feat("distance", Some(1.5), Some(VR::Raw), None), feat("time", Some(-1.5), Some(VR::Raw), None)],
            vec![0.0, 0.0],
            vec![3.0, 4.0],
            0,
            0,
            0,
        ),
        // no state feature at all: weights sum to zero
        c(false, vec![], vec![], vec![], 0, 0, 0),
        // state vector shorter than the state model: error from all three
        c(
            false,
            vec![feat("distance", Some(1.0), Some(VR::Raw), None), feat("time", Some(1.0), Some(VR::Raw), None)],
            vec![0.0],
            vec![3.0, 4.0],
            0,
            0,
            0,
        ),
        // six features (more than the compact container's four slots)
        c(
            false,
            (0..6).map(|k| feat(&format!("f{}", 5 - k), Some(k as f64 + 1.0), Some(VR::Raw), None)).collect(),
            vec![0.0; 6],
            vec![1.0, 10.0, 100.0, 1000.0, 10000.0, 100000.0],
            0,
            0,
            0,
        ),
    ]
}

// ---------------------------------------------------------------- oracle

/// the value the property prescribes before flooring, recomputed from the configuration:
/// (vehicle part, network part, sum of absolute terms)
struct Spec {
    v: f64,
    n_trav: f64,
    n_acc: f64,
    abs_v: f64,
    abs_trav: f64,
    abs_acc: f64,
}

fn spec(case: &Case, ctx: &mut Ctx) -> Spec {
    let mut hits = (0u64, 0u64);
    let mut vt: Vec<f64> = vec![];
    let mut tt: Vec<(f64, f64)> = vec![];
    let mut at: Vec<(f64, f64)> = vec![];
    for (i, f) in case.feats.iter().enumerate() {
        let w = f.weight.unwrap_or(0.0);
        let delta = case.next[i] - case.prev[i];
        let rated = f.vrate.as_ref().map(|r| r.apply(delta)).unwrap_or(0.0);
        vt.push(w * rated);
        let mut leaves = vec![];
        if let Some(r) = &f.nrate {
            r.edge_leaves(case.e, &mut leaves, &mut hits);
        }
        tt.push((w * leaves.iter().sum::<f64>(), w.abs() * leaves.iter().map(|x| x.abs()).sum::<f64>()));
        let mut leaves = vec![];
        if let Some(r) = &f.nrate {
            r.pair_leaves(case.pe, case.ne, &mut leaves, &mut hits);
        }
        at.push((w * leaves.iter().sum::<f64>(), w.abs() * leaves.iter().map(|x| x.abs()).sum::<f64>()));
    }
    ctx.count_n("lookup_hit", hits.0);
    ctx.count_n("lookup_miss", hits.1);
    if case.mul {
        // product of the per-feature costs (the state model is never empty here: `new` rejects it)
        let v: f64 = vt.iter().product();
        let nt: f64 = tt.iter().map(|x| x.0).product();
        let na: f64 = at.iter().map(|x| x.0).product();
        // relative error of a product of k <= 12 already-rounded factors; the inner sums of the lookups
        // contribute relative to their absolute sums
        let abs_t: f64 = tt.iter().map(|x| x.1).product();
        let abs_a: f64 = at.iter().map(|x| x.1).product();
        Spec { v, n_trav: nt, n_acc: na, abs_v: v.abs(), abs_trav: abs_t, abs_acc: abs_a }
    } else {
        Spec {
            v: vt.iter().sum(),
            n_trav: tt.iter().map(|x| x.0).sum(),
            n_acc: at.iter().map(|x| x.0).sum(),
            abs_v: vt.iter().map(|x| x.abs()).sum(),
            abs_trav: tt.iter().map(|x| x.1).sum(),
            abs_acc: at.iter().map(|x| x.1).sum(),
        }
    }
}

const REL: f64 = 1.0e-9;

/// `r` is what the real code charged; `s` the recomputed pre-floor value, `abs` the sum of absolute terms
fn check_charged(ctx: &mut Ctx, idx: usize, site: &str, r: f64, s: f64, abs: f64, min_cost: f64) -> bool {
    if !(r.is_finite() && r > 0.0) {
        ctx.fail(idx, &format!("{}/not-positive", site), format!("charged cost {} is not finite and strictly positive", r));
        return false;
    }
    if !(s.is_finite() && abs.is_finite()) {
        ctx.count("oracle_skipped_nonfinite");
        return false;
    }
    let tol = REL * abs;
    if s > tol {
        ctx.count(&format!("{}_formula_compared", site));
        if (r - s).abs() > tol {
            ctx.fail(idx, &format!("{}/formula", site), format!("charged {} but weights x rated changes + surcharges = {}", r, s));
        }
        false
    } else if s < -tol || (s == 0.0 && abs == 0.0) {
        if r != min_cost {
            ctx.fail(idx, &format!("{}/floor", site), format!("pre-floor value {} <= 0 but charged {} instead of the floor {}", s, r, min_cost));
        }
        true
    } else {
        ctx.count("oracle_near_zero_skipped");
        false
    }
}

fn oracle(ctx: &mut Ctx, idx: usize, case: &Case, out: &Out, rng: &mut Rng) {
    let min_cost = Cost::MIN_COST.as_f64();
    if !(min_cost > 0.0 && min_cost <= 1.0e-6) {
        ctx.fail(idx, "min_cost/not-tiny-positive", format!("MIN_COST = {}", min_cost));
    }
    let n = case.feats.len();
    let wsum: f64 = case.feats.iter().map(|f| f.weight.unwrap_or(0.0)).sum();
    let (t, a, est, recs) = match out {
        Out::Panic => {
            ctx.fail(idx, "cost_model/panic", "the cost model panicked".into());
            return;
        }
        Out::NewErr => {
            if wsum != 0.0 {
                ctx.fail(idx, "cost_model_new/rejects-nonzero-weights", format!("weights sum to {} but CostModel::new failed", wsum));
            }
            return;
        }
        Out::Ok { t, a, est, recs } => (*t, *a, *est, *recs),
    };
    if wsum == 0.0 {
        ctx.fail(idx, "cost_model_new/accepts-zero-weights", "weights sum to zero but CostModel::new succeeded".into());
        return;
    }
    let short = case.prev.len() < n || case.next.len() < n;
    if short {
        if t.is_some() || a.is_some() || est.is_some() {
            ctx.fail(idx, "cost_model/short-state-accepted", format!("state vectors of length {} / {} for {} features were accepted", case.prev.len(), case.next.len(), n));
        }
        return;
    }
    let (Some(t), Some(a), Some(est)) = (t, a, est) else {
        ctx.fail(idx, "cost_model/unexpected-error", format!("traversal {:?} access {:?} estimate {:?} on state vectors that cover all {} features", t, a, est, n));
        return;
    };
    let sp = spec(case, ctx);
    let site_suffix = if case.mul { "-mul" } else { "" };
    let floored_t = check_charged(ctx, idx, &format!("traversal_cost{}", site_suffix), t, sp.v + sp.n_trav, sp.abs_v + sp.abs_trav, min_cost);
    let floored_a = check_charged(ctx, idx, &format!("access_cost{}", site_suffix), a, sp.v + sp.n_acc, sp.abs_v + sp.abs_acc, min_cost);
    if floored_t {
        ctx.count("floored_traversal");
    }
    if floored_a {
        ctx.count("floored_access");
    }
    // estimate: never negative; the vehicle part when that is positive, zero when it is negative
    if !(est.is_finite() && est >= 0.0) {
        ctx.fail(idx, "cost_estimate/negative", format!("estimate {}", est));
    } else if sp.v.is_finite() && sp.abs_v.is_finite() {
        let tol = REL * sp.abs_v;
        if sp.v > tol && (est - sp.v).abs() > tol {
            ctx.fail(idx, &format!("cost_estimate{}/formula", site_suffix), format!("estimate {} but weights x rated changes = {}", est, sp.v));
        }
        if sp.v < -tol && est != 0.0 {
            ctx.fail(idx, &format!("cost_estimate{}/clip", site_suffix), format!("estimate {} but weights x rated changes = {} < 0", est, sp.v));
        }
        if sp.v < -tol {
            ctx.count("estimate_clipped");
        }
    }
    // the EdgeTraversal records (real forward_traversal / reverse_traversal): the cost charged for
    // accessing plus traversing the edge, `total_cost()`, must be strictly positive and equal to what
    // traversal_cost charged (access + (total - access) = total), the access share never negative
    let mid_ok = case.mid.len() >= n;
    for (k, site) in ["forward_traversal", "forward_traversal_no_prev", "reverse_traversal", "reverse_traversal_no_next"].iter().enumerate() {
        let needs_access = k % 2 == 0;
        match recs[k] {
            None => {
                if !needs_access || mid_ok {
                    ctx.fail(idx, &format!("{}/unexpected-error", site), "state vectors cover all features but the edge traversal failed".into());
                }
            }
            Some((acc, _share, total)) => {
                if needs_access && !mid_ok {
                    ctx.fail(idx, &format!("{}/short-state-accepted", site), "access state shorter than the state model was accepted".into());
                }
                if !(acc.is_finite() && acc >= 0.0) || (needs_access && acc <= 0.0) || (!needs_access && acc != 0.0) {
                    ctx.fail(idx, &format!("{}/access-share", site), format!("access share {}", acc));
                }
                // the recorded finding is absorption by rounding alone: the charged total is positive but
                // below one ulp of the access share, and it is either a genuine pre-floor value (a
                // positive total below the floor is charged as is) or the floor of the specification,
                // 1e-10, which this access share absorbs as well (share >= ~1e6). a zero total where the
                // floor was due and 1e-10 would have survived is a violation of its own (e.g. a floor
                // constant that became smaller)
                let spec_floor_absorbed = acc + (1.0e-10 - acc) == 0.0;
                if total == 0.0 && t > 0.0 && t <= acc * f64::EPSILON && (!floored_t || spec_floor_absorbed) {
                    // explained by rounding alone: the charged total is below one ulp of the access share
                    ctx.fail(idx, "edge_traversal/floor-absorbed", format!("{}: access {} + (total {} - access) = {}", site, acc, t, total));
                } else if !(total.is_finite() && total > 0.0) {
                    ctx.fail(idx, "edge_traversal/total-not-positive", format!("{}: access {} + (total {} - access) = {}", site, acc, t, total));
                } else if (total - t).abs() > REL * (acc.abs() + t.abs()) {
                    ctx.fail(idx, "edge_traversal/total-differs", format!("{}: access {} + (total {} - access) = {}", site, acc, t, total));
                }
                // the property's formula for the cost charged for accessing plus traversing the edge (sum
                // aggregation): weights x rated state changes + per-edge surcharges + the per-turn surcharge
                // of the edge pair, floored. (corpus witness: the "surcharges that hit" case, turn (1,3))
                if needs_access && !case.mul && total.is_finite() && total > 0.0 {
                    let pair = if k == 0 { (case.pe, case.e) } else { (case.e, case.ne) };
                    let (mut turn, mut abs_turn, mut hits) = (0.0f64, 0.0f64, (0u64, 0u64));
                    for f in &case.feats {
                        let w = f.weight.unwrap_or(0.0);
                        let mut leaves = vec![];
                        if let Some(r) = &f.nrate {
                            r.pair_leaves(pair.0, pair.1, &mut leaves, &mut hits);
                        }
                        turn += w * leaves.iter().sum::<f64>();
                        abs_turn += w.abs() * leaves.iter().map(|x| x.abs()).sum::<f64>();
                    }
                    let s_full = sp.v + sp.n_trav + turn;
                    let tol = REL * (sp.abs_v + sp.abs_trav + abs_turn);
                    if turn.abs() > tol && s_full.is_finite() && tol.is_finite() {
                        ctx.count("turn_surcharge_on_the_pair");
                        let expected = if s_full > tol {
                            Some(s_full)
                        } else if s_full < -tol {
                            Some(min_cost)
                        } else {
                            None
                        };
                        if let Some(x) = expected {
                            if (total - x).abs() > tol {
                                ctx.fail(idx, "edge_traversal/turn-surcharge-not-charged", format!("{}: turn ({}, {}) carries a weighted surcharge of {}; weights x rated changes + edge surcharges + turn surcharge = {} but total_cost() = {} (access share {})", site, pair.0, pair.1, turn, s_full, total, acc));
                            }
                        }
                    }
                }
            }
        }
    }
    // linearity in the weights: doubling every weight is exact in binary floating point, so the
    // pre-floor value doubles exactly (sum) or scales by 2^n (mul)
    {
        let mut c2 = case.clone();
        for f in c2.feats.iter_mut() {
            f.weight = f.weight.map(|w| 2.0 * w);
        }
        let scale = if case.mul { 2f64.powi(n as i32) } else { 2.0 };
        if let (Out::Ok { t: Some(t2), a: Some(a2), est: Some(e2), .. }, _) = eval(&c2, false) {
            for (site, r, r2) in [("traversal_cost", t, t2), ("access_cost", a, a2)] {
                let ok = if r == min_cost { r2 == min_cost || r2 == scale * min_cost } else { r2 == scale * r };
                if !ok && r.is_finite() && r2.is_finite() && r > 1e-280 {
                    ctx.fail(idx, &format!("{}{}/linear-in-weights", site, site_suffix), format!("cost {} becomes {} when every weight is doubled (expected factor {})", r, r2, scale));
                }
            }
            if e2 != scale * est && est.is_finite() && e2.is_finite() && (est == 0.0 || est > 1e-280) {
                ctx.fail(idx, &format!("cost_estimate{}/linear-in-weights", site_suffix), format!("estimate {} becomes {} when every weight is doubled (expected factor {})", est, e2, scale));
            }
        } else {
            ctx.fail(idx, "cost_model/linear-in-weights-error", "doubling the weights changed the outcome kind".into());
        }
    }
    // zero-weight features are ignored (sum aggregation): perturb the state of one of them
    if !case.mul {
        let zeros: Vec<usize> = (0..n).filter(|i| case.feats[*i].weight.unwrap_or(0.0) == 0.0).collect();
        if !zeros.is_empty() {
            let i = *rng.pick(&zeros);
            let mut c2 = case.clone();
            c2.prev[i] = value(rng);
            c2.next[i] = value(rng);
            // its rates do not matter either
            if rng.chance(1, 2) {
                c2.feats[i].vrate = Some(gen_vr(rng, 1));
                c2.feats[i].nrate = Some(gen_nr(rng, 1));
            }
            ctx.count("zero_weight_feature_perturbed");
            match eval(&c2, false) {
                (Out::Ok { t: Some(t2), a: Some(a2), est: Some(e2), .. }, _) => {
                    if t2.to_bits() != t.to_bits() || a2.to_bits() != a.to_bits() || e2.to_bits() != est.to_bits() {
                        ctx.fail(idx, "cost_model/zero-weight-not-ignored", format!("feature {} has weight 0 but changing its state/rates changed ({}, {}, {}) to ({}, {}, {})", i, t, a, est, t2, a2, e2));
                    }
                }
                _ => ctx.fail(idx, "cost_model/zero-weight-not-ignored", format!("feature {} has weight 0 but changing its state changed the outcome kind", i)),
            }
        }
    }
}

fn one(ctx: &mut Ctx, idx: usize, case: &Case, rng: &mut Rng) {
    let ghost = rng.chance(1, 6);
    let (out, order) = eval(case, ghost);
    let line = case_line(case, &order);
    ctx.emit(idx, line.clone(), out.line());
    // input distribution
    let n = case.feats.len();
    ctx.count(if case.mul { "agg_mul" } else { "agg_sum" });
    ctx.count(&format!("features_{}", if n >= 9 { "9plus".to_string() } else { n.to_string() }));
    if ghost {
        ctx.count("mapping_has_unknown_names");
    }
    if order != case.feats.iter().map(|f| f.name.clone()).collect::<Vec<_>>() {
        ctx.count("indexed_iter_order_differs_from_insertion");
    }
    for (i, f) in case.feats.iter().enumerate() {
        match f.weight {
            None => ctx.count("weight_absent"),
            Some(w) if w == 0.0 => ctx.count("weight_zero"),
            Some(w) if w < 0.0 => ctx.count("weight_negative"),
            _ => ctx.count("weight_positive"),
        }
        match &f.vrate {
            None => ctx.count("vrate_absent"),
            Some(r) => {
                r.tally(ctx);
                ctx.count(&format!("vrate_depth_{}", r.depth()));
            }
        }
        match &f.nrate {
            None => ctx.count("nrate_absent"),
            Some(r) => {
                r.tally(ctx);
                ctx.count(&format!("nrate_depth_{}", r.depth()));
            }
        }
        if i < case.prev.len() && i < case.next.len() {
            let d = case.next[i] - case.prev[i];
            ctx.count(if d == 0.0 { "delta_zero" } else if d < 0.0 { "delta_negative" } else { "delta_positive" });
        }
    }
    match &out {
        Out::Panic => ctx.count("outcome_panic"),
        Out::NewErr => ctx.count("outcome_new_rejected"),
        Out::Ok { t: Some(_), a: Some(_), est: Some(_), .. } => {
            ctx.count("outcome_ok");
            let active = case.feats.iter().any(|f| f.weight.unwrap_or(0.0) != 0.0 && !matches!(f.vrate, None | Some(VR::Zero)));
            if active {
                ctx.nontrivial(&line);
            }
        }
        Out::Ok { .. } => ctx.count("outcome_api_error"),
    }
    oracle(ctx, idx, case, &out, rng);
}

/// the three `cost_ops::calculate_*` functions called directly, on arbitrary index lists and vector
/// lengths (reaches what `CostModel::new` never builds: indices outside the vectors, repeated indices,
/// an empty feature list, weights shorter than the rates)
fn ops_case(ctx: &mut Ctx, idx: usize, rng: &mut Rng) {
    let mul = rng.chance(1, 2);
    let len = |rng: &mut Rng| if rng.chance(5, 6) { 4 } else { rng.below(6) };
    let ni = if rng.chance(1, 10) { 0 } else { 1 + rng.below(5) };
    let hi = if rng.chance(2, 3) { 4 } else { 7 };
    let indices: Vec<usize> = (0..ni).map(|_| rng.below(hi)).collect();
    let weights: Vec<f64> = (0..len(rng)).map(|_| if rng.chance(1, 6) { 0.0 } else { value(rng) }).collect();
    let vrates: Vec<VR> = (0..len(rng)).map(|_| gen_vr(rng, 1)).collect();
    let nrates: Vec<NR> = (0..len(rng)).map(|_| gen_nr(rng, 1)).collect();
    let prev: Vec<f64> = (0..len(rng)).map(|_| value(rng)).collect();
    let next: Vec<f64> = (0..len(rng)).map(|_| value(rng)).collect();
    let (e, pe, ne) = (rng.below(6), rng.below(4), rng.below(4));
    let mut line: Vec<String> = vec!["ops".into(), if mul { "mul".into() } else { "sum".into() }];
    line.push(indices.len().to_string());
    line.extend(indices.iter().map(|i| i.to_string()));
    line.push(weights.len().to_string());
    line.extend(weights.iter().map(|x| fbits(*x)));
    line.push(vrates.len().to_string());
    vrates.iter().for_each(|r| r.enc(&mut line));
    line.push(nrates.len().to_string());
    nrates.iter().for_each(|r| r.enc(&mut line));
    line.push(prev.len().to_string());
    line.extend(prev.iter().map(|x| fbits(*x)));
    line.push(next.len().to_string());
    line.extend(next.iter().map(|x| fbits(*x)));
    line.push(e.to_string());
    line.push(pe.to_string());
    line.push(ne.to_string());

    let named: Vec<(String, usize)> = indices.iter().map(|i| (format!("f{}", i), *i)).collect();
    let rv: Vec<VehicleCostRate> = vrates.iter().map(|r| r.real()).collect();
    let rn: Vec<NetworkCostRate> = nrates.iter().map(|r| r.real()).collect();
    let agg = if mul { CostAggregation::Mul } else { CostAggregation::Sum };
    let p: Vec<StateVar> = prev.iter().map(|x| StateVar(*x)).collect();
    let n: Vec<StateVar> = next.iter().map(|x| StateVar(*x)).collect();
    let r = catch_unwind(AssertUnwindSafe(|| {
        let edge = Edge::new(e, 0, 1, 1.0);
        let prev_edge = Edge::new(pe, 2, 0, 1.0);
        let next_edge = Edge::new(ne, 0, 1, 1.0);
        let v = cost_ops::calculate_vehicle_costs((&p, &n), &named, &weights, &rv, &agg).ok().map(|c| c.as_f64());
        let t = cost_ops::calculate_network_traversal_costs((&p, &n), &edge, &named, &weights, &rn, &agg).ok().map(|c| c.as_f64());
        let a = cost_ops::calculate_network_access_costs((&p, &n), (&prev_edge, &next_edge), &named, &weights, &rn, &agg)
            .ok()
            .map(|c| c.as_f64());
        (v, t, a)
    }));
    ctx.count("ops_case");
    match r {
        Err(_) => {
            ctx.emit(idx, line.join(" "), "panic".into());
            ctx.fail(idx, "cost_ops/panic", "cost_ops panicked".into());
        }
        Ok((v, t, a)) => {
            ctx.emit(idx, line.join(" "), format!("ops {} {} {}", fopt(v), fopt(t), fopt(a)));
            // an index outside a vector it reads is an error, never a panic or a silent default
            let ok_v = indices.iter().all(|i| *i < prev.len() && *i < next.len() && *i < vrates.len() && *i < weights.len());
            let ok_t = indices.iter().all(|i| *i < prev.len() && *i < next.len() && *i < nrates.len() && *i < weights.len());
            // (the access loop tolerates a feature beyond the network rates: it contributes zero)
            let ok_a = indices.iter().all(|i| *i >= nrates.len() || (*i < prev.len() && *i < next.len()));
            if v.is_some() != ok_v || t.is_some() != ok_t || a.is_some() != ok_a {
                ctx.fail(idx, "cost_ops/index-range", format!("results {:?} {:?} {:?} but in-range is {} {} {}", v, t, a, ok_v, ok_t, ok_a));
            }
            ctx.count(if ok_v && ok_t && ok_a { "ops_in_range" } else { "ops_out_of_range" });
            if indices.is_empty() {
                ctx.count("ops_empty_feature_list");
                // no feature: nothing is charged, whatever the aggregation
                if v != Some(0.0) || t != Some(0.0) || a != Some(0.0) {
                    ctx.fail(idx, "cost_ops/empty-feature-list", format!("results {:?} {:?} {:?}", v, t, a));
                }
            }
            if ok_v && ok_t && ok_a && !indices.is_empty() {
                ctx.nontrivial(&line.join(" "));
            }
        }
    }
}

#[path = "c07_io.rs"]
mod io;

pub fn run(ctx: &mut Ctx) -> &'static str {
    for case in corpus() {
        let Some(idx) = ctx.begin() else { continue };
        let mut rng = Rng::for_case(ctx.seed, 7, idx as u64);
        ctx.count("corpus");
        one(ctx, idx, &case, &mut rng);
    }
    let n = ctx.n(4000, 150000);
    for _ in 0..n {
        let Some(idx) = ctx.begin() else { continue };
        let mut rng = Rng::for_case(ctx.seed, 7, idx as u64);
        let case = gen_case(&mut rng);
        one(ctx, idx, &case, &mut rng);
    }
    let n = ctx.n(1500, 50000);
    for _ in 0..n {
        let Some(idx) = ctx.begin() else { continue };
        let mut rng = Rng::for_case(ctx.seed, 7, idx as u64);
        ops_case(ctx, idx, &mut rng);
    }
    // the rest of the anchor files, function by function (see c07_io.rs)
    io::run_io(ctx);
    "hand-written corpus, then random cost-model configurations over a real StateModel (0-12 features, every vehicle/network rate constructor, Combined nested to depth 3, sum and mul aggregation, weights absent/zero/negative/zero-sum, state deltas of every sign, lookups that hit and miss, too-short state vectors; EdgeTraversal::forward_traversal / reverse_traversal over a SearchInstance with scripted access and traversal models), then the three cost_ops::calculate_* functions called directly on arbitrary index lists / vector lengths (out-of-range and repeated indices, empty feature list); non-trivial = CostModel::new succeeds, all three API calls return a cost and at least one feature has a non-zero weight with a non-zero vehicle rate, or an in-range non-empty cost_ops call; then (c07_io.rs) agg_iter / agg called directly (empty, single, zeros, negatives, infinities, NaN, Err items at every position), the arithmetic / order / conversions / Display / serde of unit/cost.rs on special values, forward_traversal / reverse_traversal with every error arm, serialize_cost / serialize_cost_info, CostModelBuilder::build + CostModelService::build on valid and malformed configuration and query JSON (both serde forms of the rate enums, unknown weights with and without the ignore flag, zero-sum weights), NetworkCostRateBuilder::build on CSV lookup files (plain, gzip, truncated gzip, missing, empty, header only, missing column, undecodable cells, short rows, blank lines, repeated keys, non-finite costs); every case of these streams is non-trivial; distinct by full case text"
}
