//! C09 — unit conversions and derived-quantity constructors.
//! Correspondence: every ordered unit pair of every family x magnitudes 1e-9..1e9 x both signs, and
//! every unit combination of create_time / create_speed / create_energy, bit-exact against the model.
//! Oracle: identity, round trip, physical factor (hand-written SI table), linearity, definitions.
use crate::ctx::{fbits, Ctx};
use crate::rng::Rng;
use routee_compass_core::model::unit::*;

const D: [DistanceUnit; 5] = [
    DistanceUnit::Meters,
    DistanceUnit::Kilometers,
    DistanceUnit::Miles,
    DistanceUnit::Inches,
    DistanceUnit::Feet,
];
const T: [TimeUnit; 4] = [TimeUnit::Hours, TimeUnit::Minutes, TimeUnit::Seconds, TimeUnit::Milliseconds];
const S: [SpeedUnit; 3] = [SpeedUnit::KilometersPerHour, SpeedUnit::MilesPerHour, SpeedUnit::MetersPerSecond];
const E: [EnergyUnit; 3] = [EnergyUnit::GallonsGasoline, EnergyUnit::GallonsDiesel, EnergyUnit::KilowattHours];
const G: [GradeUnit; 3] = [GradeUnit::Percent, GradeUnit::Decimal, GradeUnit::Millis];
const W: [WeightUnit; 3] = [WeightUnit::Pounds, WeightUnit::Tons, WeightUnit::Kg];
const ER: [EnergyRateUnit; 5] = [
    EnergyRateUnit::GallonsGasolinePerMile,
    EnergyRateUnit::GallonsDieselPerMile,
    EnergyRateUnit::KilowattHoursPerMile,
    EnergyRateUnit::KilowattHoursPerKilometer,
    EnergyRateUnit::KilowattHoursPerMeter,
];

// SI definitions, written independently of the source tables
fn si_d(u: &DistanceUnit) -> f64 {
    match u {
        DistanceUnit::Meters => 1.0,
        DistanceUnit::Kilometers => 1000.0,
        DistanceUnit::Miles => 1609.344,
        DistanceUnit::Inches => 0.0254,
        DistanceUnit::Feet => 0.3048,
    }
}
fn si_t(u: &TimeUnit) -> f64 {
    match u {
        TimeUnit::Hours => 3600.0,
        TimeUnit::Minutes => 60.0,
        TimeUnit::Seconds => 1.0,
        TimeUnit::Milliseconds => 0.001,
    }
}
fn si_s(u: &SpeedUnit) -> f64 {
    match u {
        SpeedUnit::KilometersPerHour => 1000.0 / 3600.0,
        SpeedUnit::MilesPerHour => 1609.344 / 3600.0,
        SpeedUnit::MetersPerSecond => 1.0,
    }
}
fn si_g(u: &GradeUnit) -> f64 {
    match u {
        GradeUnit::Percent => 0.01,
        GradeUnit::Decimal => 1.0,
        GradeUnit::Millis => 0.001,
    }
}
fn si_w(u: &WeightUnit) -> f64 {
    match u {
        WeightUnit::Pounds => 0.45359237,
        WeightUnit::Tons => 907.18474,
        WeightUnit::Kg => 1.0,
    }
}

const TOL: f64 = 1.0e-3;
const EPS: f64 = 1.0e-9;

fn magnitude(rng: &mut Rng, k: usize) -> f64 {
    // k-th decade between 1e-9 and 1e9, random mantissa, plus special values
    let e = (k % 19) as i32 - 9;
    let m = 1.0 + 9.0 * rng.unit();
    m * 10f64.powi(e)
}

fn close(a: f64, b: f64, rel: f64) -> bool {
    (a - b).abs() <= rel * b.abs().max(a.abs()) + 1e-300
}

macro_rules! family {
    ($ctx:expr, $fam:expr, $units:expr, $ty:ident, $si:expr, $reps:expr) => {{
        for u in $units.iter() {
            for v in $units.iter() {
                for k in 0..$reps {
                    let Some(idx) = $ctx.begin() else { continue };
                    let mut rng = Rng::for_case($ctx.seed, 9, idx as u64);
                    let mut x = magnitude(&mut rng, k);
                    if rng.chance(1, 2) {
                        x = -x;
                    }
                    if k == 0 {
                        x = 0.0;
                    }
                    if k == 1 {
                        x = 1.0;
                    }
                    let y = u.convert(&$ty::new(x), v).as_f64();
                    $ctx.emit(idx, format!("conv {} {} {} {}", $fam, u, v, fbits(x)), fbits(y));
                    $ctx.count(concat!("conv_", $fam));
                    if format!("{}", u) != format!("{}", v) && x != 0.0 {
                        $ctx.nontrivial(&format!("conv {} {} {} {}", $fam, u, v, fbits(x)));
                    }
                    // oracle: identity
                    if format!("{}", u) == format!("{}", v) && y.to_bits() != x.to_bits() {
                        $ctx.fail(idx, "convert/identity", format!("{} {}->{} of {} gave {}", $fam, u, v, x, y));
                    }
                    // oracle: round trip within 0.1 percent
                    let back = v.convert(&$ty::new(y), u).as_f64();
                    if !close(back, x, TOL + EPS) {
                        $ctx.fail(idx, "convert/roundtrip", format!("{} {}->{}->{} of {} gave {}", $fam, u, v, u, x, back));
                    }
                    // oracle: physical factor within 0.1 percent
                    if let Some(si) = $si {
                        let expect = x * si(u) / si(v);
                        if !close(y, expect, TOL + EPS) {
                            $ctx.fail(idx, "convert/physical", format!("{} {}->{} of {} gave {} expected {}", $fam, u, v, x, y, expect));
                        }
                    }
                    // oracle: linearity
                    let a = rng.uniform(-3.0, 3.0);
                    let b = rng.uniform(-3.0, 3.0);
                    let x2 = magnitude(&mut rng, k);
                    let lhs = u.convert(&$ty::new(a * x + b * x2), v).as_f64();
                    let rhs = a * u.convert(&$ty::new(x), v).as_f64() + b * u.convert(&$ty::new(x2), v).as_f64();
                    let scale = (a * x).abs().max((b * x2).abs()) * u.convert(&$ty::new(1.0), v).as_f64().abs();
                    if (lhs - rhs).abs() > 1e-12 * scale + 1e-300 {
                        $ctx.fail(idx, "convert/linear", format!("{} {}->{}: f({}*{}+{}*{}) = {} but a f(x)+b f(y) = {}", $fam, u, v, a, x, b, x2, lhs, rhs));
                    }
                }
            }
        }
    }};
}

use routee_compass_core::model::unit::as_f64::AsF64;

/// the text a `from_str` argument stands for once it is read as the body of a JSON string (what
/// `string_deserialize` matches against the serde names), `None` when it is no JSON string body
fn json_body(text: &str) -> Option<String> {
    serde_json::from_str::<String>(&format!("\"{}\"", text)).ok()
}

/// a spelling of the name `cs` with JSON escape sequences: character `i` written as `\uXXXX` (either hex
/// case), or a legal / illegal / truncated escape put in front of it
fn escaped_spelling(rng: &mut Rng, cs: &[char], i: usize) -> String {
    let mut out = String::new();
    for (k, c) in cs.iter().enumerate() {
        if k == i {
            match rng.below(4) {
                0 => out.push_str(&format!("\\u{:04x}", *c as u32)),
                1 => out.push_str(&format!("\\u{:04X}", *c as u32)),
                2 => {
                    out.push_str(*rng.pick(&["\\/", "\\n", "\\\\", "\\\"", "\\u0000", "\\uD83D\\uDE00", "\\ud800", "\\u12", "\\x", "\\U0073", "\\u00e9"]));
                    out.push(*c);
                }
                _ => {
                    out.push(*c);
                    if k + 1 == cs.len() {
                        out.push('\\');
                    } else {
                        out.push_str("\\u");
                    }
                }
            }
        } else {
            out.push(*c);
        }
    }
    out
}

pub fn run(ctx: &mut Ctx) -> &'static str {
    let reps = ctx.n(6, 60);
    family!(ctx, "distance", D, Distance, Some(si_d as fn(&DistanceUnit) -> f64), reps);
    family!(ctx, "time", T, Time, Some(si_t as fn(&TimeUnit) -> f64), reps);
    family!(ctx, "speed", S, Speed, Some(si_s as fn(&SpeedUnit) -> f64), reps);
    family!(ctx, "energy", E, Energy, None::<fn(&EnergyUnit) -> f64>, reps);
    family!(ctx, "grade", G, Grade, Some(si_g as fn(&GradeUnit) -> f64), reps);
    family!(ctx, "weight", W, Weight, Some(si_w as fn(&WeightUnit) -> f64), reps);

    let reps2 = ctx.n(6, 40);
    // create_time over every unit triple
    for su in S.iter() {
        for du in D.iter() {
            for tu in T.iter() {
                for k in 0..reps2 {
                    let Some(idx) = ctx.begin() else { continue };
                    let mut rng = Rng::for_case(ctx.seed, 9, idx as u64);
                    let mut s = { let k = 7 + rng.below(5); magnitude(&mut rng, k) };
                    let mut d = { let k = 5 + rng.below(9); magnitude(&mut rng, k) };
                    match k {
                        0 => s = 0.0,
                        1 => d = 0.0,
                        2 => s = -s,
                        3 if rng.chance(1, 2) => d = -d,
                        // both arguments non-positive at once: a check on the QUOTIENT (or on one argument only)
                        // lets these through — (-10 km/h, -5 km) is 0.5 h
                        4 => {
                            s = -s.abs();
                            d = -d.abs();
                        }
                        5 => match rng.below(3) {
                            0 => {
                                s = 0.0;
                                d = 0.0;
                            }
                            1 => {
                                s = -s.abs();
                                d = 0.0;
                            }
                            _ => {
                                s = 0.0;
                                d = -d.abs();
                            }
                        },
                        _ => {}
                    }
                    let r = Time::create(&Speed::new(s), su, &Distance::new(d), du, tu);
                    let out = match &r {
                        Ok(t) => format!("some {}", fbits(t.as_f64())),
                        Err(_) => "none".to_string(),
                    };
                    ctx.emit(idx, format!("ctime {} {} {} {} {}", su, du, tu, fbits(s), fbits(d)), out);
                    ctx.count(if r.is_ok() { "create_time_ok" } else { "create_time_rejected" });
                    ctx.nontrivial(&format!("ctime {} {} {} {} {}", su, du, tu, fbits(s), fbits(d)));
                    match r {
                        Ok(t) => {
                            if s <= 0.0 || d <= 0.0 {
                                ctx.fail(idx, "create_time/accepts-nonpositive", format!("speed {} {} distance {} {} gave time {}", s, su, d, du, t));
                            } else {
                                let expect = (d * si_d(du)) / (s * si_s(su)) / si_t(tu);
                                if !close(t.as_f64(), expect, TOL + EPS) {
                                    ctx.fail(idx, "create_time/definition", format!("{} {} over {} {} in {}: {} expected {}", d, du, s, su, tu, t, expect));
                                }
                            }
                        }
                        Err(_) => {
                            if s > 0.0 && d > 0.0 {
                                ctx.fail(idx, "create_time/rejects-positive", format!("speed {} {} distance {} {}", s, su, d, du));
                            }
                        }
                    }
                }
            }
        }
    }
    // non-finite arguments (NaN, the infinities, negative zero): outside the property's "every magnitude and
    // sign", so no verdict of the oracle, but the model has to agree with the code bit for bit there too
    // (a NaN speed or distance is NOT rejected: NaN <= 0 is false, so create_time answers Ok(NaN))
    {
        const SPECIAL: [f64; 6] = [f64::NAN, f64::INFINITY, f64::NEG_INFINITY, -0.0, 0.0, 3.5];
        for su in S.iter() {
            for du in D.iter().take(2) {
                for tu in T.iter().take(2) {
                    for s in SPECIAL.iter() {
                        for d in SPECIAL.iter() {
                            if s.is_finite() && d.is_finite() && *s != 0.0 && *d != 0.0 {
                                continue;
                            }
                            let Some(idx) = ctx.begin() else { continue };
                            let r = Time::create(&Speed::new(*s), su, &Distance::new(*d), du, tu);
                            let out = match &r {
                                Ok(t) => format!("some {}", fbits(t.as_f64())),
                                Err(_) => "none".to_string(),
                            };
                            ctx.emit(idx, format!("ctime {} {} {} {} {}", su, du, tu, fbits(*s), fbits(*d)), out);
                            ctx.count(if r.is_ok() { "create_time_nonfinite_ok" } else { "create_time_nonfinite_rejected" });
                        }
                    }
                }
            }
        }
    }
    // create_speed over every unit triple
    for tu in T.iter() {
        for du in D.iter() {
            for su in S.iter() {
                for k in 0..reps2 {
                    let Some(idx) = ctx.begin() else { continue };
                    let mut rng = Rng::for_case(ctx.seed, 9, idx as u64);
                    let mut t = { let k = 6 + rng.below(8); magnitude(&mut rng, k) };
                    let mut d = { let k = 5 + rng.below(9); magnitude(&mut rng, k) };
                    match k {
                        0 => t = 0.0,
                        1 => t = -t,
                        // time and distance both negative: the quotient is positive
                        4 => {
                            t = -t.abs();
                            d = -d.abs();
                        }
                        _ => {}
                    }
                    let r = Speed::create(&Time::new(t), tu, &Distance::new(d), du, su);
                    let out = match &r {
                        Ok(v) => format!("some {}", fbits(v.as_f64())),
                        Err(_) => "none".to_string(),
                    };
                    ctx.emit(idx, format!("cspeed {} {} {} {} {}", tu, du, su, fbits(t), fbits(d)), out);
                    ctx.count(if r.is_ok() { "create_speed_ok" } else { "create_speed_rejected" });
                    ctx.nontrivial(&format!("cspeed {} {} {} {} {}", tu, du, su, fbits(t), fbits(d)));
                    match r {
                        Ok(v) => {
                            if t <= 0.0 {
                                ctx.fail(idx, "create_speed/accepts-nonpositive", format!("time {} {} gave speed {}", t, tu, v));
                            } else {
                                let expect = (d * si_d(du)) / (t * si_t(tu)) / si_s(su);
                                if !close(v.as_f64(), expect, TOL + EPS) {
                                    ctx.fail(idx, "create_speed/definition", format!("{} {} over {} {} in {}: {} expected {}", d, du, t, tu, su, v, expect));
                                }
                            }
                        }
                        Err(_) => {
                            if t > 0.0 {
                                ctx.fail(idx, "create_speed/rejects-positive", format!("time {} {}", t, tu));
                            }
                        }
                    }
                }
            }
        }
    }
    // create_energy over every (rate unit, distance unit)
    for ru in ER.iter() {
        for du in D.iter() {
            for _k in 0..reps2 {
                let Some(idx) = ctx.begin() else { continue };
                let mut rng = Rng::for_case(ctx.seed, 9, idx as u64);
                let mut r = { let k = 6 + rng.below(6); magnitude(&mut rng, k) };
                if rng.chance(1, 4) {
                    r = -r;
                }
                let d = { let k = 5 + rng.below(9); magnitude(&mut rng, k) };
                let res = Energy::create(&EnergyRate::new(r), ru, &Distance::new(d), du);
                let out = match &res {
                    Ok((e, eu)) => format!("{} {}", fbits(e.as_f64()), eu),
                    Err(_) => "err".to_string(),
                };
                ctx.emit(idx, format!("cenergy {} {} {} {}", ru, du, fbits(r), fbits(d)), out);
                ctx.count("create_energy");
                ctx.nontrivial(&format!("cenergy {} {} {} {}", ru, du, fbits(r), fbits(d)));
                match res {
                    Ok((e, eu)) => {
                        let rd = ru.associated_distance_unit();
                        let expect = r * (d * si_d(du) / si_d(&rd));
                        if !close(e.as_f64(), expect, TOL + EPS) {
                            ctx.fail(idx, "create_energy/definition", format!("{} {} x {} {}: {} expected {}", r, ru, d, du, e, expect));
                        }
                        if format!("{}", eu) != format!("{}", ru.associated_energy_unit()) {
                            ctx.fail(idx, "create_energy/unit", format!("{} gave unit {}", ru, eu));
                        }
                        // the rate unit's name must agree with its associated units
                        let name = format!("{}", ru);
                        let okd = name.ends_with(&format!("per_{}", format!("{}", rd).trim_end_matches('s')));
                        let oke = name.starts_with(&format!("{}", eu));
                        if !okd || !oke {
                            ctx.fail(idx, "create_energy/associated-units", format!("{} has distance {} energy {}", ru, rd, eu));
                        }
                    }
                    Err(e) => ctx.fail(idx, "create_energy/error", format!("{}", e)),
                }
            }
        }
    }
    // associated units of the speed units
    for su in S.iter() {
        let Some(idx) = ctx.begin() else { continue };
        let ad = su.associated_distance_unit();
        let at = su.associated_time_unit();
        ctx.emit(idx, format!("assoc {}", su), format!("{} {}", ad, at));
        if !close(si_s(su), si_d(&ad) / si_t(&at), 1e-12) {
            ctx.fail(idx, "speed/associated-units", format!("{} has distance {} time {}", su, ad, at));
        }
    }
    // the rest of speed_unit.rs: From<(DistanceUnit, TimeUnit)> (17 of its 20 arms are `todo!()`: the call
    // panics, which is the recorded outcome, not a violation — nothing in the workspace calls it),
    // from_str, Display, max_american_highway_speed
    for du in D.iter() {
        for tu in T.iter() {
            let Some(idx) = ctx.begin() else { continue };
            let r = std::panic::catch_unwind(|| SpeedUnit::from((*du, *tu)));
            let out = match &r {
                Ok(su) => format!("ok {}", su),
                Err(_) => "panic".to_string(),
            };
            ctx.emit(idx, format!("sufrom {} {}", du, tu), out);
            ctx.count(if r.is_ok() { "speed_unit_from_pair_ok" } else { "speed_unit_from_pair_todo_panic" });
            ctx.nontrivial(&format!("sufrom {} {}", du, tu));
            if let Ok(su) = r {
                // a speed unit made from a pair is the unit of that pair
                if format!("{}", su.associated_distance_unit()) != format!("{}", du) || format!("{}", su.associated_time_unit()) != format!("{}", tu) {
                    ctx.fail(idx, "speed_unit/from-pair-inconsistent", format!("({}, {}) gave {}", du, tu, su));
                }
            }
        }
    }
    {
        let names: Vec<String> = S.iter().map(|u| u.to_string()).collect();
        let mut texts: Vec<String> = names.clone();
        for t in ["", "kph", "mph", "KilometersPerHour", "kilometers_per_hour ", " miles_per_hour", "meters_per_second\"", "\"", "miles\tper_hour", "meters", "hours", "kilometers per hour", "Miles_Per_Hour", "mètres_par_seconde", "kp\\u0068", "\\u006Dph", "mph\\", "mp\\/h", "mp\\u00", "\\ud83d\\ude00"] {
            texts.push(t.to_string());
        }
        let extra = ctx.n(8, 200);
        for k in 0..texts.len() + extra {
            let Some(idx) = ctx.begin() else { continue };
            let mut rng = Rng::for_case(ctx.seed, 9, idx as u64);
            let text = if k < texts.len() {
                texts[k].clone()
            } else {
                // a name with one character changed, dropped or doubled
                let mut cs: Vec<char> = names[rng.below(names.len())].chars().collect();
                let i = rng.below(cs.len());
                let mut esc: Option<String> = None;
                match rng.below(6) {
                    0 => cs[i] = *rng.pick(&['a', 'x', '_', 'S', '-', ' ', '1']),
                    1 => {
                        cs.remove(i);
                    }
                    2 => cs.insert(i, cs[i]),
                    _ => esc = Some(escaped_spelling(&mut rng, &cs, i)),
                }
                match esc {
                    Some(t) => t,
                    None => cs.into_iter().collect(),
                }
            };
            let r = std::panic::catch_unwind(|| text.parse::<SpeedUnit>());
            let out = match &r {
                Ok(Ok(su)) => format!("ok {}", su),
                Ok(Err(_)) => "err".to_string(),
                Err(_) => "panic".to_string(),
            };
            ctx.emit(idx, format!("sustr {}", crate::jsonproto::hex(&text)), out);
            ctx.count(match &r {
                Ok(Ok(_)) => "speed_unit_from_str_ok",
                Ok(Err(_)) => "speed_unit_from_str_err",
                Err(_) => "speed_unit_from_str_panic",
            });
            ctx.nontrivial(&format!("sustr {}", text));
            match r {
                Ok(Ok(su)) => {
                    // Display and from_str are inverse (on the text the argument stands for as a JSON string body)
                    if Some(su.to_string()) != json_body(&text) {
                        ctx.fail(idx, "speed_unit/from-str-not-display", format!("{:?} parsed as {}", text, su));
                    }
                }
                Ok(Err(_)) => {
                    if json_body(&text).map_or(false, |d| names.contains(&d)) {
                        ctx.fail(idx, "speed_unit/from-str-rejects-name", format!("{:?}", text));
                    }
                }
                Err(_) => ctx.fail(idx, "speed_unit/from-str-panic", format!("{:?}", text)),
            }
        }
    }
    // from_str of the other unit families (`string_deserialize`, as for the speed units): names, near-names
    macro_rules! unit_from_str {
        ($fam:expr, $ty:ty, $all:expr) => {{
            let names: Vec<String> = $all.iter().map(|u| u.to_string()).collect();
            let mut texts: Vec<String> = names.clone();
            for t in ["", " ", "Meters", "meters ", " hours", "kwh", "percent\"", "\"", "kilo\twatt_hours", "tons", "KG", "gallons gasoline", "millis", "décimal", "mile\\u0073", "\\u006Deters", "hours\\", "ki\\/lometers", "percen\\u0074", "decima\\u006", "\\ud83d\\ude00"] {
                texts.push(t.to_string());
            }
            let extra = ctx.n(4, 100);
            for k in 0..texts.len() + extra {
                let Some(idx) = ctx.begin() else { continue };
                let mut rng = Rng::for_case(ctx.seed, 9, idx as u64);
                let text = if k < texts.len() {
                    texts[k].clone()
                } else {
                    let mut cs: Vec<char> = names[rng.below(names.len())].chars().collect();
                    let i = rng.below(cs.len());
                    let mut esc: Option<String> = None;
                    match rng.below(6) {
                        0 => cs[i] = *rng.pick(&['a', 'x', '_', 'S', '-', ' ', '1']),
                        1 => {
                            cs.remove(i);
                        }
                        2 => cs.insert(i, cs[i]),
                        _ => esc = Some(escaped_spelling(&mut rng, &cs, i)),
                    }
                    match esc {
                        Some(t) => t,
                        None => cs.into_iter().collect(),
                    }
                };
                let r = std::panic::catch_unwind(|| text.parse::<$ty>());
                let out = match &r {
                    Ok(Ok(u)) => format!("ok {}", u),
                    Ok(Err(_)) => "err".to_string(),
                    Err(_) => "panic".to_string(),
                };
                ctx.emit(idx, format!("ustr {} {}", $fam, crate::jsonproto::hex(&text)), out);
                ctx.count(match &r {
                    Ok(Ok(_)) => "unit_from_str_ok",
                    Ok(Err(_)) => "unit_from_str_err",
                    Err(_) => "unit_from_str_panic",
                });
                ctx.nontrivial(&format!("ustr {} {}", $fam, text));
                match r {
                    Ok(Ok(u)) => {
                        if Some(u.to_string()) != json_body(&text) {
                            ctx.fail(idx, "unit/from-str-not-display", format!("{:?} parsed as {}", text, u));
                        }
                    }
                    Ok(Err(_)) => {
                        if json_body(&text).map_or(false, |d| names.contains(&d)) {
                            ctx.fail(idx, "unit/from-str-rejects-name", format!("{:?}", text));
                        }
                    }
                    Err(_) => ctx.fail(idx, "unit/from-str-panic", format!("{:?}", text)),
                }
            }
        }};
    }
    unit_from_str!("d", DistanceUnit, D);
    unit_from_str!("t", TimeUnit, T);
    unit_from_str!("e", EnergyUnit, E);
    unit_from_str!("r", EnergyRateUnit, ER);
    unit_from_str!("g", GradeUnit, G);
    unit_from_str!("w", WeightUnit, W);
    for su in S.iter() {
        let Some(idx) = ctx.begin() else { continue };
        let v = su.max_american_highway_speed().as_f64();
        ctx.emit(idx, format!("maxhw {}", su), fbits(v));
        // Speed's own accessors agree with each other
        let sp = su.max_american_highway_speed();
        // (Display prints the Debug form of the wrapped float, `InternalFloat(75.0)`: it shows the number)
        if sp.to_f64() != v || !format!("{}", sp).contains(&format!("{:?}", v)) || sp.cmp(&Speed::new(v + 1.0)) != std::cmp::Ordering::Less || sp.cmp(&sp) != std::cmp::Ordering::Equal {
            ctx.fail(idx, "speed/accessors", format!("{} to_f64 {} display {}", v, sp.to_f64(), sp));
        }
        let ratio: Speed = (Distance::new(v), Time::new(1.0)).into();
        if ratio.as_f64() != v {
            ctx.fail(idx, "speed/from-distance-time", format!("{} / 1 gave {}", v, ratio));
        }
        ctx.nontrivial(&format!("maxhw {}", su));
        // one and the same physical speed (75 mph) in every unit, within the property's 0.1 percent
        let expect = 75.0 * si_s(&SpeedUnit::MilesPerHour) / si_s(su);
        if !close(v, expect, TOL + EPS) {
            ctx.fail(idx, "speed_unit/highway-speed", format!("{} in {} but 75 mph is {}", v, su, expect));
        }
        for sv in S.iter() {
            let w = su.convert(&Speed::new(v), sv).as_f64();
            if !close(w, sv.max_american_highway_speed().as_f64(), TOL + EPS) {
                ctx.fail(idx, "speed_unit/highway-speed-inconsistent", format!("{} {} converts to {} {} but that unit's value is {}", v, su, w, sv, sv.max_american_highway_speed()));
            }
        }
    }
    "every ordered unit pair of the six families x magnitudes 1e-9..1e9 (random mantissa, both signs, 0 and 1), every unit combination of create_time/create_speed/create_energy with positive, zero and negative arguments; non-trivial = distinct case with differing units or a constructor call; distinct by full case text; plus every (distance unit, time unit) pair through SpeedUnit::from (17 arms are todo!(): the panic is the recorded outcome), SpeedUnit::from_str on names, near-names and texts that are no JSON string, max_american_highway_speed of every unit"
}
