//! watchdog for searches that no longer return.  The search cases are tiny (a run takes milliseconds); a
//! call of the real search that is not back after `CVH_CASE_LIMIT_S` seconds (default 30) is reported with
//! its input — `<out>/hang.json` — and the process ends with code 3 instead of holding the check until its
//! timeout.  `tools/check.py` turns the file into the replay of the VIOLATION line.
use std::sync::atomic::{AtomicUsize, Ordering};
use std::sync::{Mutex, OnceLock};
use std::time::Instant;

struct Current {
    since: Instant,
    what: String,
}

static OUT: OnceLock<(String, String, u64, String)> = OnceLock::new();
static INDEX: AtomicUsize = AtomicUsize::new(usize::MAX);
static CURRENT: Mutex<Option<Current>> = Mutex::new(None);

pub fn set_index(i: usize) {
    INDEX.store(i, Ordering::Relaxed);
}

/// starts the watchdog thread (once); `out`: the directory of the run's output files
pub fn init(out: &str, prop: &str, seed: u64, tier: &str) {
    if OUT.set((out.to_string(), prop.to_string(), seed, tier.to_string())).is_err() {
        return;
    }
    let limit: u64 = std::env::var("CVH_CASE_LIMIT_S").ok().and_then(|s| s.parse().ok()).unwrap_or(30);
    std::thread::spawn(move || loop {
        std::thread::sleep(std::time::Duration::from_millis(250));
        let hung = {
            let g = CURRENT.lock().unwrap_or_else(|e| e.into_inner());
            match &*g {
                Some(c) if c.since.elapsed().as_secs() >= limit => Some((c.since.elapsed().as_secs_f64(), c.what.clone())),
                _ => None,
            }
        };
        if let Some((secs, what)) = hung {
            let (out, prop, seed, tier) = OUT.get().unwrap();
            let idx = INDEX.load(Ordering::Relaxed);
            let obj = serde_json::json!({
                "kind": "a call of the real search did not return",
                "property": prop, "seed": seed, "tier": tier, "index": idx,
                "seconds_waited": secs,
                "replay_cmd": format!("harness/target/release/cvh {} --seed {} --tier {} --out work/replay --only {}", prop, seed, tier, idx),
                "case": what,
            });
            let _ = std::fs::create_dir_all(out);
            let _ = std::fs::write(format!("{}/hang.json", out), serde_json::to_string_pretty(&obj).unwrap_or_default());
            eprintln!("cvh: case #{} has not returned after {:.0} s; see {}/hang.json", idx, secs, out);
            std::process::exit(3);
        }
    });
}

pub fn enter(what: impl FnOnce() -> String) {
    if OUT.get().is_none() {
        return;
    }
    let mut g = CURRENT.lock().unwrap_or_else(|e| e.into_inner());
    *g = Some(Current { since: Instant::now(), what: what() });
}

pub fn leave() {
    if OUT.get().is_none() {
        return;
    }
    let mut g = CURRENT.lock().unwrap_or_else(|e| e.into_inner());
    *g = None;
}
