//! protocol encoding of serde_json values (see lean/Compass/Drv/JsonProto.lean):
//!   z | t | f | n x<hex lexeme> <f64 bits> | s x<hex utf8> | a <n> v… | o <n> (x<hex key> v)…
use serde_json::Value;

pub fn hex(s: &str) -> String {
    let mut out = String::with_capacity(1 + 2 * s.len());
    out.push('x');
    for b in s.as_bytes() {
        out.push_str(&format!("{:02x}", b));
    }
    out
}

pub fn enc(v: &Value) -> String {
    let mut out = String::new();
    enc_into(v, &mut out);
    out
}

fn enc_into(v: &Value, out: &mut String) {
    match v {
        Value::Null => out.push('z'),
        Value::Bool(true) => out.push('t'),
        Value::Bool(false) => out.push('f'),
        Value::Number(n) => {
            let bits = n.as_f64().map(|x| x.to_bits()).unwrap_or(0);
            out.push_str(&format!("n {} {}", hex(&n.to_string()), bits));
        }
        Value::String(s) => {
            out.push_str("s ");
            out.push_str(&hex(s));
        }
        Value::Array(xs) => {
            out.push_str(&format!("a {}", xs.len()));
            for x in xs {
                out.push(' ');
                enc_into(x, out);
            }
        }
        Value::Object(m) => {
            out.push_str(&format!("o {}", m.len()));
            for (k, x) in m {
                out.push(' ');
                out.push_str(&hex(k));
                out.push(' ');
                enc_into(x, out);
            }
        }
    }
}

/// inverse of `enc` over a token stream (floats are rebuilt from their bit patterns, never from text)
pub fn dec<'a, I: Iterator<Item = &'a str>>(toks: &mut I) -> Option<Value> {
    let t = toks.next()?;
    match t {
        "z" => Some(Value::Null),
        "t" => Some(Value::Bool(true)),
        "f" => Some(Value::Bool(false)),
        "n" => {
            let lex = unhex(toks.next()?)?;
            let bits: u64 = toks.next()?.parse().ok()?;
            if let Ok(u) = lex.parse::<u64>() {
                Some(Value::from(u))
            } else if let Ok(i) = lex.parse::<i64>() {
                Some(Value::from(i))
            } else {
                serde_json::Number::from_f64(f64::from_bits(bits)).map(Value::Number)
            }
        }
        "s" => Some(Value::String(unhex(toks.next()?)?)),
        "a" => {
            let n: usize = toks.next()?.parse().ok()?;
            let mut v = Vec::with_capacity(n);
            for _ in 0..n {
                v.push(dec(toks)?);
            }
            Some(Value::Array(v))
        }
        "o" => {
            let n: usize = toks.next()?.parse().ok()?;
            let mut m = serde_json::Map::new();
            for _ in 0..n {
                let k = unhex(toks.next()?)?;
                let v = dec(toks)?;
                m.insert(k, v);
            }
            Some(Value::Object(m))
        }
        _ => None,
    }
}

pub fn unhex(t: &str) -> Option<String> {
    let b = t.as_bytes();
    if b.first() != Some(&b'x') || b.len() % 2 != 1 {
        return None;
    }
    let mut out = Vec::with_capacity(b.len() / 2);
    let mut i = 1;
    while i < b.len() {
        let h = (b[i] as char).to_digit(16)?;
        let l = (b[i + 1] as char).to_digit(16)?;
        out.push((h * 16 + l) as u8);
        i += 2;
    }
    String::from_utf8(out).ok()
}
