//! protocol encoding of serde_json values (see lean/Compass/Drv/JsonProto.lean):
//!   z | t | f | n x<hex lexeme> <f64 bits> | s x<hex utf8> | a <n> v… | o <n> (x<hex key> v)…
use serde_json::Value;

pub fn hex(s: &str) -> String {
    let mut out = String::with_capacity(1 + 2 * s.len());
    out.push('x');
    for b in s.as_bytes() {
        out.push_str(&format!("{:02x}", b));
    }
    out
}

pub fn enc(v: &Value) -> String {
    let mut out = String::new();
    enc_into(v, &mut out);
    out
}

fn enc_into(v: &Value, out: &mut String) {
    match v {
        Value::Null => out.push('z'),
        Value::Bool(true) => out.push('t'),
        Value::Bool(false) => out.push('f'),
        Value::Number(n) => {
            let bits = n.as_f64().map(|x| x.to_bits()).unwrap_or(0);
            out.push_str(&format!("n {} {}", hex(&n.to_string()), bits));
        }
        Value::String(s) => {
            out.push_str("s ");
            out.push_str(&hex(s));
        }
        Value::Array(xs) => {
            out.push_str(&format!("a {}", xs.len()));
            for x in xs {
                out.push(' ');
                enc_into(x, out);
            }
        }
        Value::Object(m) => {
            out.push_str(&format!("o {}", m.len()));
            for (k, x) in m {
                out.push(' ');
                out.push_str(&hex(k));
                out.push(' ');
                enc_into(x, out);
            }
        }
    }
}
