//! C20 — every output format renders the same route, with geometry in edge order.
//!
//! Entry points of the real code driven here (all in-process, public API only):
//!  * `TraversalOutputFormat::{generate_route_output, generate_tree_output}` for all five formats;
//!  * `traversal_ops::{create_route_linestring, create_route_geojson, create_tree_multilinestring,
//!    create_tree_geojson, create_tree_multipoint, create_edge_geometry, create_branch_geometry,
//!    create_geojson_feature}` and `geo_io_utils::concat_linestrings`;
//!  * `UUIDOutputPlugin::from_file` + `process` on arbitrary output JSON;
//!  * `compass_app::apply_output_processing` with real `TraversalPlugin::from_file` (geometry table written as a
//!    WKT file under work/), `SummaryOutputPlugin` and `UUIDOutputPlugin` on hand-made `SearchAppResult`s and a
//!    real `SearchInstance`.
//! What the real code produced is parsed back (WKT via the `wkt` crate, WKB hex via the `wkb` crate — the hex text
//! itself is also compared, character for character, with the model's encoder — GeoJSON and
//! JSON via serde_json) into (format, edge ids, payload bit patterns, points as f32 bit patterns) and printed as
//! one canonical line which the Lean model must reproduce textually. Tree outputs come out of a `HashMap`; their
//! entries are sorted (lexicographically as number sequences) on both sides.
//! Oracle (plain Rust, independent of the model): ids in route order, geometry = concatenation of the table rows
//! in route order, error on a missing row, one entry per tree branch, uuids = table rows, response is an error
//! or carries the configured keys.
use crate::ctx::{fbits, Ctx};
use crate::jsonproto;
use crate::rng::Rng;
use geo::{Coord, Geometry, LineString};
use routee_compass::app::compass::compass_app::apply_output_processing;
use routee_compass::app::compass::compass_app_error::CompassAppError;
use routee_compass::app::compass::config::cost_model::cost_model_service::CostModelService;
use routee_compass::app::search::search_app::SearchApp;
use routee_compass::app::search::search_app_result::SearchAppResult;
use routee_compass::plugin::output::default::summary::plugin::SummaryOutputPlugin;
use routee_compass::app::compass::config::builders::OutputPluginBuilder;
use routee_compass::app::compass::search_orientation::SearchOrientation;
use routee_compass::plugin::output::default::traversal::builder::TraversalPluginBuilder;
use routee_compass::plugin::output::default::traversal::plugin::TraversalPlugin;
use routee_compass::plugin::output::default::uuid::builder::UUIDOutputPluginBuilder;
use routee_compass::plugin::output::default::traversal::traversal_ops as ops;
use routee_compass::plugin::output::default::traversal::traversal_output_format::TraversalOutputFormat;
use routee_compass::plugin::output::default::uuid::plugin::UUIDOutputPlugin;
use routee_compass::plugin::output::{OutputPlugin, OutputPluginError};
use routee_compass_core::algorithm::search::edge_traversal::EdgeTraversal;
use routee_compass_core::algorithm::search::search_algorithm::SearchAlgorithm;
use routee_compass_core::algorithm::search::search_instance::SearchInstance;
use routee_compass_core::algorithm::search::search_tree_branch::SearchTreeBranch;
use routee_compass_core::model::access::default::no_access_model::NoAccessModel;
use routee_compass_core::model::cost::cost_aggregation::CostAggregation;
use routee_compass_core::model::cost::cost_model::CostModel;
use routee_compass_core::model::cost::vehicle::vehicle_cost_rate::VehicleCostRate;
use routee_compass_core::model::frontier::default::no_restriction::NoRestriction;
use routee_compass_core::model::network::edge_id::EdgeId;
use routee_compass_core::model::network::graph::Graph;
use routee_compass_core::model::network::{Edge, Vertex};
use routee_compass_core::util::compact_ordered_hash_map::CompactOrderedHashMap;
use routee_compass_core::model::network::vertex_id::VertexId;
use routee_compass_core::model::state::state_feature::StateFeature;
use routee_compass_core::model::state::state_model::StateModel;
use routee_compass_core::model::termination::termination_model::TerminationModel;
use routee_compass_core::model::traversal::default::distance_traversal_model::DistanceTraversalModel;
use routee_compass_core::model::traversal::default::distance_traversal_service::DistanceTraversalService;
use routee_compass_core::model::traversal::state::state_variable::StateVar;
use routee_compass_core::model::unit::as_f64::AsF64;
use routee_compass_core::model::unit::{Cost, Distance, DistanceUnit};
use routee_compass_core::util::geo::geo_io_utils;
use serde_json::{json, Value};
use std::collections::HashMap;
use std::panic::{catch_unwind, AssertUnwindSafe};
use std::sync::Arc;
use std::time::Duration;
use wkt::TryFromWkt;

type Pt = (f32, f32);

/// state slots the cost model of `search_instance()` / the end-to-end app reads when serialising a cost
const COST_SLOTS: usize = 1;

const FORMATS: [(&str, TraversalOutputFormat); 5] = [
    ("edge_id", TraversalOutputFormat::EdgeId),
    ("json", TraversalOutputFormat::Json),
    ("geo_json", TraversalOutputFormat::GeoJson),
    ("wkt", TraversalOutputFormat::Wkt),
    ("wkb", TraversalOutputFormat::Wkb),
];

fn uses_geometry(fmt: &str) -> bool {
    matches!(fmt, "geo_json" | "wkt" | "wkb")
}

// ---------------------------------------------------------------------------------------------
// inputs

#[derive(Clone, Debug)]
struct Et {
    edge: usize,
    acc: f64,
    trav: f64,
    state: Vec<f64>,
}

#[derive(Clone, Debug)]
struct Br {
    key: usize,
    terminal: usize,
    et: Et,
}

fn real_et(e: &Et) -> EdgeTraversal {
    EdgeTraversal {
        edge_id: EdgeId(e.edge),
        access_cost: Cost::new(e.acc),
        traversal_cost: Cost::new(e.trav),
        result_state: e.state.iter().map(|x| StateVar(*x)).collect(),
    }
}

fn real_route(r: &[Et]) -> Vec<EdgeTraversal> {
    r.iter().map(real_et).collect()
}

fn real_tree(t: &[Br]) -> HashMap<VertexId, SearchTreeBranch> {
    t.iter()
        .map(|b| {
            (
                VertexId(b.key),
                SearchTreeBranch {
                    terminal_vertex: VertexId(b.terminal),
                    edge_traversal: real_et(&b.et),
                },
            )
        })
        .collect()
}

fn real_table(t: &[Vec<Pt>]) -> Vec<LineString<f32>> {
    t.iter()
        .map(|l| LineString::new(l.iter().map(|(x, y)| Coord { x: *x, y: *y }).collect()))
        .collect()
}

fn f32bits(x: f32) -> u64 {
    x.to_bits() as u64
}

fn num_line(l: &[Pt]) -> Vec<u64> {
    let mut v = vec![l.len() as u64];
    for (x, y) in l {
        v.push(f32bits(*x));
        v.push(f32bits(*y));
    }
    v
}

fn num_et(e: &Et) -> Vec<u64> {
    let mut v = vec![e.edge as u64, e.acc.to_bits(), e.trav.to_bits(), e.state.len() as u64];
    v.extend(e.state.iter().map(|x| x.to_bits()));
    v
}

fn join(v: &[u64]) -> String {
    v.iter().map(|x| x.to_string()).collect::<Vec<_>>().join(" ")
}

fn enc_table(t: &[Vec<Pt>]) -> String {
    let mut v = vec![t.len() as u64];
    for l in t {
        v.extend(num_line(l));
    }
    join(&v)
}

fn enc_route(r: &[Et]) -> String {
    let mut v = vec![r.len() as u64];
    for e in r {
        v.extend(num_et(e));
    }
    join(&v)
}

fn enc_tree(t: &[Br]) -> String {
    let mut v = vec![t.len() as u64];
    for b in t {
        v.push(b.key as u64);
        v.push(b.terminal as u64);
        v.extend(num_et(&b.et));
    }
    join(&v)
}

// ---------------------------------------------------------------------------------------------
// generators

/// `serde_json` prints a payload that is not finite as `null`; in the canonical lines `null` is this token (an
/// all-ones NaN pattern, which no printed number reads back to)
const NULL_PAYLOAD: u64 = u64::MAX;

fn rendered_bits(x: f64) -> u64 {
    if x.is_finite() {
        x.to_bits()
    } else {
        NULL_PAYLOAD
    }
}

fn payload(rng: &mut Rng) -> f64 {
    if rng.chance(1, 10) {
        // costs and state variables are opaque to the output formats: also negative values, a negative zero and the
        // values JSON cannot write
        return [f64::INFINITY, f64::NEG_INFINITY, f64::NAN, -f64::NAN, f64::from_bits(0x7FF0_0000_0000_0001), -0.0, -1.5, f64::MAX, f64::MIN_POSITIVE, 5.0e-324][rng.below(10)];
    }
    match rng.below(4) {
        0 => rng.small_decimal(50, 2),
        1 => rng.uniform(0.0, 1.0e4),
        2 => rng.below(1000) as f64,
        _ => rng.uniform(1.0e-9, 1.0e-3),
    }
}

/// geometry table: row i has distinctive coordinates (x encodes edge and point index), 2..=6 points (0 or 1
/// when `degenerate`), and with `share_joints` the first point of a row repeats the last point of the row before
fn gen_table(rng: &mut Rng, n: usize, degenerate: bool, share_joints: bool) -> Vec<Vec<Pt>> {
    let mut t: Vec<Vec<Pt>> = vec![];
    for i in 0..n {
        let m = if degenerate && rng.chance(1, 6) { rng.below(2) } else { 2 + rng.below(5) };
        let mut l = vec![];
        for j in 0..m {
            let x = (-105.0 + (i as f64) * 0.01 + (j as f64) * 0.001) as f32;
            let y = (39.0 + rng.unit() * 2.0) as f32;
            l.push((x, y));
        }
        if share_joints && i > 0 && !l.is_empty() {
            if let Some(p) = t[i - 1].last() {
                l[0] = *p;
            }
        }
        t.push(l);
    }
    t
}

fn gen_et(rng: &mut Rng, edge: usize, state_len: usize) -> Et {
    Et {
        edge,
        acc: payload(rng),
        trav: payload(rng),
        state: (0..state_len).map(|_| payload(rng)).collect(),
    }
}

/// route of `len` edges over ids `0..id_bound` (repeats allowed: a shift or a reordering becomes visible)
fn gen_route(rng: &mut Rng, len: usize, id_bound: usize, state_len: Option<usize>) -> Vec<Et> {
    (0..len)
        .map(|_| {
            let e = rng.below(id_bound.max(1));
            let sl = state_len.unwrap_or_else(|| rng.below(4));
            gen_et(rng, e, sl)
        })
        .collect()
}

fn gen_tree(rng: &mut Rng, size: usize, id_bound: usize, state_len: Option<usize>) -> Vec<Br> {
    let mut keys: Vec<usize> = (0..(size * 2 + 3)).collect();
    rng.shuffle(&mut keys);
    (0..size)
        .map(|i| {
            let e = rng.below(id_bound.max(1));
            let sl = state_len.unwrap_or_else(|| rng.below(3));
            Br { key: keys[i], terminal: rng.below(size * 2 + 3), et: gen_et(rng, e, sl) }
        })
        .collect()
}

// ---------------------------------------------------------------------------------------------
// parsing back what the real code produced

#[derive(Clone, Debug, PartialEq)]
struct EtP {
    edge: u64,
    acc: u64,
    trav: u64,
    state: Vec<u64>,
}

impl EtP {
    fn nums(&self) -> Vec<u64> {
        let mut v = vec![self.edge, self.acc, self.trav, self.state.len() as u64];
        v.extend(self.state.iter());
        v
    }
    fn of(e: &Et) -> EtP {
        // what the record shows: the edge id, every finite payload bit for bit, `null` for the others
        EtP { edge: e.edge as u64, acc: rendered_bits(e.acc), trav: rendered_bits(e.trav), state: e.state.iter().map(|x| rendered_bits(*x)).collect() }
    }
}

fn f64_of(v: &Value) -> Result<u64, String> {
    if v.is_null() {
        return Ok(NULL_PAYLOAD);
    }
    v.as_f64().map(|x| x.to_bits()).ok_or_else(|| "not-a-number".to_string())
}

fn parse_et(v: &Value) -> Result<EtP, String> {
    let o = v.as_object().ok_or("record-not-object")?;
    if o.len() != 4 {
        return Err("record-key-count".into());
    }
    let edge = o.get("edge_id").and_then(|x| x.as_u64()).ok_or("edge_id")?;
    let acc = f64_of(o.get("access_cost").ok_or("access_cost")?)?;
    let trav = f64_of(o.get("traversal_cost").ok_or("traversal_cost")?)?;
    let state = o
        .get("result_state")
        .and_then(|x| x.as_array())
        .ok_or("result_state")?
        .iter()
        .map(f64_of)
        .collect::<Result<Vec<_>, _>>()?;
    Ok(EtP { edge, acc, trav, state })
}

fn pt_of_f64(x: f64, y: f64) -> Result<Pt, String> {
    let (a, b) = (x as f32, y as f32);
    if (a as f64).to_bits() != x.to_bits() || (b as f64).to_bits() != y.to_bits() {
        return Err("coordinate-not-f32".into());
    }
    Ok((a, b))
}

fn parse_coords(v: &Value) -> Result<Vec<Pt>, String> {
    v.as_array()
        .ok_or("coordinates")?
        .iter()
        .map(|p| {
            let a = p.as_array().ok_or("position")?;
            if a.len() != 2 {
                return Err("position-arity".to_string());
            }
            pt_of_f64(a[0].as_f64().ok_or("x")?, a[1].as_f64().ok_or("y")?)
        })
        .collect()
}

fn parse_feature(f: &Value) -> Result<(u64, EtP, Vec<Pt>), String> {
    let fo = f.as_object().ok_or("feature-not-object")?;
    if fo.get("type").and_then(|t| t.as_str()) != Some("Feature") {
        return Err("feature-type".to_string());
    }
    let id = fo.get("id").and_then(|x| x.as_u64()).ok_or("feature-id")?;
    let props = parse_et(fo.get("properties").ok_or("properties")?)?;
    let g = fo.get("geometry").and_then(|g| g.as_object()).ok_or("geometry")?;
    if g.get("type").and_then(|t| t.as_str()) != Some("LineString") {
        return Err("geometry-type".to_string());
    }
    let pts = parse_coords(g.get("coordinates").ok_or("coordinates")?)?;
    Ok((id, props, pts))
}

fn parse_features(v: &Value) -> Result<Vec<(u64, EtP, Vec<Pt>)>, String> {
    let o = v.as_object().ok_or("fc-not-object")?;
    if o.get("type").and_then(|t| t.as_str()) != Some("FeatureCollection") {
        return Err("fc-type".into());
    }
    o.get("features").and_then(|f| f.as_array()).ok_or("features")?.iter().map(parse_feature).collect()
}

/// `x y, x y, …`
fn tiny_wkt_points(body: &str) -> Result<Vec<Pt>, String> {
    let body = body.trim();
    if body.is_empty() {
        return Ok(vec![]);
    }
    body.split(',')
        .map(|p| {
            let xy: Vec<&str> = p.split_whitespace().collect();
            if xy.len() != 2 {
                return Err("wkt-position".to_string());
            }
            Ok((xy[0].parse::<f32>().map_err(|_| "wkt-number")?, xy[1].parse::<f32>().map_err(|_| "wkt-number")?))
        })
        .collect()
}

/// `MULTILINESTRING EMPTY` or `MULTILINESTRING((…),(…),())`
fn tiny_wkt_multilinestring(s: &str) -> Result<Vec<Vec<Pt>>, String> {
    let rest = s.strip_prefix("MULTILINESTRING").ok_or("wkt-not-multilinestring")?.trim();
    if rest == "EMPTY" {
        return Ok(vec![]);
    }
    let inner = rest.strip_prefix('(').and_then(|r| r.strip_suffix(')')).ok_or("wkt-parens")?;
    let mut out = vec![];
    let mut depth = 0;
    let mut start = 0;
    for (i, c) in inner.char_indices() {
        match c {
            '(' => {
                if depth != 0 {
                    return Err("wkt-nesting".into());
                }
                depth = 1;
                start = i + 1;
            }
            ')' => {
                if depth != 1 {
                    return Err("wkt-nesting".into());
                }
                depth = 0;
                out.push(tiny_wkt_points(&inner[start..i])?);
            }
            ',' | ' ' => {}
            _ => {
                if depth == 0 {
                    return Err("wkt-stray-text".into());
                }
            }
        }
    }
    if depth != 0 {
        return Err("wkt-parens".into());
    }
    Ok(out)
}

fn line_of_geo32(l: &LineString<f32>) -> Vec<Pt> {
    l.0.iter().map(|c| (c.x, c.y)).collect()
}

fn line_of_geo64(l: &LineString<f64>) -> Result<Vec<Pt>, String> {
    l.0.iter().map(|c| pt_of_f64(c.x, c.y)).collect()
}

fn unhex(s: &str) -> Result<Vec<u8>, String> {
    let b = s.as_bytes();
    if b.len() % 2 != 0 {
        return Err("hex-odd".into());
    }
    (0..b.len() / 2)
        .map(|i| u8::from_str_radix(&s[2 * i..2 * i + 2], 16).map_err(|_| "hex-digit".to_string()))
        .collect()
}

fn parse_wkb(s: &str) -> Result<Geometry<f64>, String> {
    if s.chars().any(|c| c.is_ascii_lowercase()) {
        return Err("hex-lowercase".into());
    }
    let bytes = unhex(s)?;
    // the declared counts must fit the bytes that are there BEFORE the `wkb` crate is let loose on them: a text
    // that lost a character (every later byte shifted by a nibble) declares billions of points, and the crate
    // reserves for them (a panic or an allocation failure of the harness, not a verdict on the code)
    wkb_structure(&bytes)?;
    let decoded = catch_unwind(AssertUnwindSafe(|| {
        let mut rd: &[u8] = &bytes;
        let g = wkb::wkb_to_geom(&mut rd).map_err(|_| "wkb-decode".to_string())?;
        if !rd.is_empty() {
            return Err("wkb-trailing-bytes".to_string());
        }
        Ok(g)
    }));
    match decoded {
        Ok(r) => r,
        Err(_) => Err("wkb-decode-panic".into()),
    }
}

/// little-endian LineString (type 2) or MultiLineString (type 5) whose point / member counts account for every
/// byte of the buffer
fn wkb_structure(b: &[u8]) -> Result<(), String> {
    fn line(b: &[u8], at: usize) -> Result<usize, String> {
        if at + 9 > b.len() || b[at] != 1 || b[at + 1..at + 5] != [2, 0, 0, 0] {
            return Err("wkb-structure".into());
        }
        let n = u32::from_le_bytes([b[at + 5], b[at + 6], b[at + 7], b[at + 8]]) as usize;
        let end = at + 9 + 16 * n;
        if end > b.len() {
            return Err("wkb-structure".into());
        }
        Ok(end)
    }
    if b.len() < 9 || b[0] != 1 {
        return Err("wkb-structure".into());
    }
    match b[1..5] {
        [2, 0, 0, 0] => {
            if line(b, 0)? != b.len() {
                return Err("wkb-structure".into());
            }
            Ok(())
        }
        [5, 0, 0, 0] => {
            let m = u32::from_le_bytes([b[5], b[6], b[7], b[8]]) as usize;
            let mut at = 9;
            for _ in 0..m {
                if at >= b.len() {
                    return Err("wkb-structure".into());
                }
                at = line(b, at)?;
            }
            if at != b.len() {
                return Err("wkb-structure".into());
            }
            Ok(())
        }
        // other geometry types are left to the crate (small fixed-size records; the callers refuse them)
        _ => Ok(()),
    }
}

/// the hex text of a multilinestring with its member records in sorted order (the hash map's order is
/// unspecified): 18 header characters, then every member record (`01 02000000 n points`) as its own token
fn canonical_multi_hex(text: &str) -> Result<String, String> {
    let bytes = unhex(text)?;
    if bytes.len() < 9 {
        return Err("wkb-short".into());
    }
    let mut members: Vec<String> = vec![];
    let mut at = 9;
    while at < bytes.len() {
        if at + 9 > bytes.len() {
            return Err("wkb-member-header".into());
        }
        let n = u32::from_le_bytes([bytes[at + 5], bytes[at + 6], bytes[at + 7], bytes[at + 8]]) as usize;
        let end = at + 9 + 16 * n;
        if end > bytes.len() {
            return Err("wkb-member-short".into());
        }
        members.push(text[2 * at..2 * end].to_string());
        at = end;
    }
    members.sort();
    let mut out = text[..18].to_string();
    for m in members {
        out.push(' ');
        out.push_str(&m);
    }
    Ok(out)
}

enum ROut {
    Ids(Vec<u64>),
    Recs(Vec<EtP>),
    Feats(Vec<(u64, EtP, Vec<Pt>)>),
    Wkt(Vec<Pt>),
    /// the points decoded by the `wkb` crate, and the stored hex text itself
    Wkb(Vec<Pt>, String),
}

fn parse_route_out(fmt: &str, v: &Value) -> Result<ROut, String> {
    match fmt {
        "edge_id" => Ok(ROut::Ids(
            v.as_array().ok_or("ids-not-array")?.iter().map(|x| x.as_u64().ok_or("id".to_string())).collect::<Result<_, _>>()?,
        )),
        "json" => Ok(ROut::Recs(v.as_array().ok_or("recs-not-array")?.iter().map(parse_et).collect::<Result<_, _>>()?)),
        "geo_json" => Ok(ROut::Feats(parse_features(v)?)),
        "wkt" => {
            let s = v.as_str().ok_or("wkt-not-string")?;
            if !s.starts_with("LINESTRING") {
                return Err("wkt-not-linestring".into());
            }
            let l = LineString::<f32>::try_from_wkt_str(s).map_err(|_| "wkt-parse".to_string())?;
            Ok(ROut::Wkt(line_of_geo32(&l)))
        }
        "wkb" => {
            let text = v.as_str().ok_or("wkb-not-string")?;
            match parse_wkb(text)? {
                Geometry::LineString(l) => Ok(ROut::Wkb(line_of_geo64(&l)?, text.to_string())),
                _ => Err("wkb-not-linestring".into()),
            }
        }
        _ => Err("format".into()),
    }
}

fn feat_nums(f: &(u64, EtP, Vec<Pt>)) -> Vec<u64> {
    let mut v = vec![f.0];
    v.extend(f.1.nums());
    v.extend(num_line(&f.2));
    v
}

fn show_route_out(o: &ROut) -> String {
    match o {
        ROut::Ids(ids) => format!("ids {} {}", ids.len(), join(ids)).trim_end().to_string(),
        ROut::Recs(rs) => {
            let mut v = vec![rs.len() as u64];
            for r in rs {
                v.extend(r.nums());
            }
            format!("recs {}", join(&v))
        }
        ROut::Feats(fs) => {
            let mut v = vec![fs.len() as u64];
            for f in fs {
                v.extend(feat_nums(f));
            }
            format!("feats {}", join(&v))
        }
        ROut::Wkt(l) => format!("wkt {}", join(&num_line(l))),
        ROut::Wkb(l, text) => format!("wkb {} hex {}", join(&num_line(l)), text),
    }
}

enum TOut {
    Ids(Vec<u64>),
    Recs(Vec<(u64, EtP)>),
    Feats(Vec<(u64, EtP, Vec<Pt>)>),
    Wkt(Vec<Vec<Pt>>),
    /// the members decoded by the `wkb` crate, and the stored hex text with its member records sorted
    Wkb(Vec<Vec<Pt>>, String),
}

fn parse_tree_out(fmt: &str, v: &Value) -> Result<TOut, String> {
    match fmt {
        "edge_id" => Ok(TOut::Ids(
            v.as_array().ok_or("ids-not-array")?.iter().map(|x| x.as_u64().ok_or("id".to_string())).collect::<Result<_, _>>()?,
        )),
        "json" => Ok(TOut::Recs(
            v.as_array()
                .ok_or("recs-not-array")?
                .iter()
                .map(|b| {
                    let o = b.as_object().ok_or("branch-not-object")?;
                    if o.len() != 2 {
                        return Err("branch-key-count".to_string());
                    }
                    let t = o.get("terminal_vertex").and_then(|x| x.as_u64()).ok_or("terminal_vertex")?;
                    let et = parse_et(o.get("edge_traversal").ok_or("edge_traversal")?)?;
                    Ok((t, et))
                })
                .collect::<Result<_, _>>()?,
        )),
        "geo_json" => Ok(TOut::Feats(parse_features(v)?)),
        "wkt" => {
            let s = v.as_str().ok_or("wkt-not-string")?;
            if !s.starts_with("MULTILINESTRING") {
                return Err("wkt-not-multilinestring".into());
            }
            let mine = tiny_wkt_multilinestring(s)?;
            // the `wkt` crate prints a 0-point member as `()`, which its own parser rejects; everything else is
            // parsed by the crate as well and must agree with the tiny parser
            if !s.contains("()") {
                let m = geo::MultiLineString::<f32>::try_from_wkt_str(s).map_err(|_| "wkt-parse".to_string())?;
                let theirs: Vec<Vec<Pt>> = m.0.iter().map(line_of_geo32).collect();
                if theirs.len() != mine.len() || theirs.iter().zip(&mine).any(|(a, b)| !same_pts(a, b)) {
                    return Err("wkt-parsers-disagree".into());
                }
            }
            Ok(TOut::Wkt(mine))
        }
        "wkb" => {
            let text = v.as_str().ok_or("wkb-not-string")?;
            match parse_wkb(text)? {
                Geometry::MultiLineString(m) => Ok(TOut::Wkb(m.0.iter().map(line_of_geo64).collect::<Result<_, _>>()?, canonical_multi_hex(text)?)),
                _ => Err("wkb-not-multilinestring".into()),
            }
        }
        _ => Err("format".into()),
    }
}

/// entries sorted lexicographically as number sequences (the same order the driver uses)
fn show_sorted(tag: &str, mut entries: Vec<Vec<u64>>) -> String {
    entries.sort();
    let mut v = vec![entries.len() as u64];
    for e in entries {
        v.extend(e);
    }
    format!("{} {}", tag, join(&v))
}

fn show_tree_out(o: &TOut) -> String {
    match o {
        TOut::Ids(ids) => show_sorted("ids", ids.iter().map(|i| vec![*i]).collect()),
        TOut::Recs(rs) => show_sorted(
            "recs",
            rs.iter()
                .map(|(t, e)| {
                    let mut v = vec![*t];
                    v.extend(e.nums());
                    v
                })
                .collect(),
        ),
        TOut::Feats(fs) => show_sorted("feats", fs.iter().map(feat_nums).collect()),
        TOut::Wkt(ls) => show_sorted("wkt", ls.iter().map(|l| num_line(l)).collect()),
        TOut::Wkb(ls, canon) => format!("{} hex {}", show_sorted("wkb", ls.iter().map(|l| num_line(l)).collect()), canon),
    }
}

fn err_kind(e: &OutputPluginError) -> String {
    match e {
        OutputPluginError::BuildFailed(_) => "err build".into(),
        OutputPluginError::MissingExpectedQueryField(f) => format!("err missing-field {}", f.to_str()),
        OutputPluginError::MissingQueryFieldPair(_, _) => "err missing-pair".into(),
        OutputPluginError::QueryFieldHasInvalidType(f, _) => format!("err invalid-type {}", f.to_str()),
        OutputPluginError::UnexpectedQueryStructure(_) => "err query-structure".into(),
        OutputPluginError::JsonError { .. } => "err json".into(),
        OutputPluginError::OutputPluginFailed(_) => "err failed".into(),
        OutputPluginError::InternalError(_) => "err internal".into(),
    }
}

// ---------------------------------------------------------------------------------------------
// oracle helpers (plain Rust statements of the property)

fn expected_concat(table: &[Vec<Pt>], ids: &[usize]) -> Option<Vec<Pt>> {
    let mut out = vec![];
    for i in ids {
        out.extend(table.get(*i)?.iter().cloned());
    }
    Some(out)
}

fn same_pts(a: &[Pt], b: &[Pt]) -> bool {
    a.len() == b.len() && a.iter().zip(b).all(|(p, q)| p.0.to_bits() == q.0.to_bits() && p.1.to_bits() == q.1.to_bits())
}

/// oracle for one rendered route; `site` prefixes the key
fn check_route(ctx: &mut Ctx, idx: usize, site: &str, fmt: &str, table: &[Vec<Pt>], route: &[Et], got: &Result<ROut, String>) {
    let ids: Vec<usize> = route.iter().map(|e| e.edge).collect();
    let ids64: Vec<u64> = ids.iter().map(|x| *x as u64).collect();
    let missing = ids.iter().any(|i| *i >= table.len());
    match got {
        Err(kind) if kind.starts_with("err ") => {
            if !(uses_geometry(fmt) && missing) {
                ctx.fail(idx, &format!("{}/unexpected-error", site), format!("format {} route {:?} table rows {}: {}", fmt, ids, table.len(), kind));
            }
        }
        Err(kind) => ctx.fail(idx, &format!("{}/unparsable-output", site), format!("format {}: {}", fmt, kind)),
        Ok(out) => {
            if uses_geometry(fmt) && missing {
                ctx.fail(
                    idx,
                    &format!("{}/missing-geometry-not-error", site),
                    format!("format {} route {:?} but the table has {} rows; output {}", fmt, ids, table.len(), show_route_out(out)),
                );
                return;
            }
            let want_geom = expected_concat(table, &ids);
            let want_recs: Vec<EtP> = route.iter().map(EtP::of).collect();
            match out {
                ROut::Ids(got_ids) => {
                    if got_ids != &ids64 {
                        ctx.fail(idx, &format!("{}/edge-order", site), format!("edge_id: {:?} for route {:?}", got_ids, ids));
                    }
                }
                ROut::Recs(rs) => {
                    if rs.iter().map(|r| r.edge).collect::<Vec<_>>() != ids64 {
                        ctx.fail(idx, &format!("{}/edge-order", site), format!("json: {:?} for route {:?}", rs.iter().map(|r| r.edge).collect::<Vec<_>>(), ids));
                    } else if rs != &want_recs {
                        ctx.fail(idx, &format!("{}/record-payload", site), "json records differ from the traversals".into());
                    }
                }
                ROut::Feats(fs) => {
                    let fids: Vec<u64> = fs.iter().map(|f| f.0).collect();
                    if fids != ids64 || fs.iter().map(|f| f.1.edge).collect::<Vec<_>>() != ids64 {
                        ctx.fail(idx, &format!("{}/edge-order", site), format!("geo_json: ids {:?} for route {:?}", fids, ids));
                    } else if fs.iter().map(|f| f.1.clone()).collect::<Vec<_>>() != want_recs {
                        ctx.fail(idx, &format!("{}/record-payload", site), "geo_json properties differ from the traversals".into());
                    } else {
                        for (k, f) in fs.iter().enumerate() {
                            if !same_pts(&f.2, &table[ids[k]]) {
                                ctx.fail(idx, &format!("{}/geometry", site), format!("geo_json feature {} (edge {}) does not carry row {}", k, ids[k], ids[k]));
                                break;
                            }
                        }
                    }
                }
                ROut::Wkt(l) | ROut::Wkb(l, _) => {
                    if !same_pts(l, want_geom.as_deref().unwrap_or(&[])) {
                        ctx.fail(
                            idx,
                            &format!("{}/geometry", site),
                            format!("{}: {} points, expected the {} points of rows {:?} in order", fmt, l.len(), want_geom.map(|g| g.len()).unwrap_or(0), ids),
                        );
                    }
                }
            }
        }
    }
}

fn sorted<T: Ord + Clone>(v: &[T]) -> Vec<T> {
    let mut w = v.to_vec();
    w.sort();
    w
}

fn check_tree(ctx: &mut Ctx, idx: usize, site: &str, fmt: &str, table: &[Vec<Pt>], tree: &[Br], got: &Result<TOut, String>) {
    let ids: Vec<usize> = tree.iter().map(|b| b.et.edge).collect();
    let ids64: Vec<u64> = sorted(&ids.iter().map(|x| *x as u64).collect::<Vec<_>>());
    let missing = ids.iter().any(|i| *i >= table.len());
    match got {
        Err(kind) if kind.starts_with("err ") => {
            if !(uses_geometry(fmt) && missing) {
                ctx.fail(idx, &format!("{}/unexpected-error", site), format!("format {} tree edges {:?} table rows {}: {}", fmt, ids, table.len(), kind));
            }
        }
        Err(kind) => ctx.fail(idx, &format!("{}/unparsable-output", site), format!("format {}: {}", fmt, kind)),
        Ok(out) => {
            if uses_geometry(fmt) && missing {
                ctx.fail(idx, &format!("{}/missing-geometry-not-error", site), format!("format {} tree edges {:?} but the table has {} rows", fmt, ids, table.len()));
                return;
            }
            let n = match out {
                TOut::Ids(v) => v.len(),
                TOut::Recs(v) => v.len(),
                TOut::Feats(v) => v.len(),
                TOut::Wkt(v) | TOut::Wkb(v, _) => v.len(),
            };
            if n != tree.len() {
                ctx.fail(idx, &format!("{}/entry-count", site), format!("format {}: {} entries for {} branches", fmt, n, tree.len()));
                return;
            }
            let want_lines: Vec<Vec<u64>> = sorted(&ids.iter().map(|i| num_line(table.get(*i).map(|l| l.as_slice()).unwrap_or(&[]))).collect::<Vec<_>>());
            match out {
                TOut::Ids(v) => {
                    if sorted(v) != ids64 {
                        ctx.fail(idx, &format!("{}/edge-ids", site), format!("edge_id: {:?} for branches {:?}", v, ids));
                    }
                }
                TOut::Recs(v) => {
                    let want: Vec<Vec<u64>> = sorted(
                        &tree
                            .iter()
                            .map(|b| {
                                let mut w = vec![b.terminal as u64];
                                w.extend(EtP::of(&b.et).nums());
                                w
                            })
                            .collect::<Vec<_>>(),
                    );
                    let got: Vec<Vec<u64>> = sorted(
                        &v.iter()
                            .map(|(t, e)| {
                                let mut w = vec![*t];
                                w.extend(e.nums());
                                w
                            })
                            .collect::<Vec<_>>(),
                    );
                    if got != want {
                        ctx.fail(idx, &format!("{}/edge-ids", site), "json: branch records differ from the tree's branches".into());
                    }
                }
                TOut::Feats(v) => {
                    if sorted(&v.iter().map(|f| f.0).collect::<Vec<_>>()) != ids64 {
                        ctx.fail(idx, &format!("{}/edge-ids", site), format!("geo_json: ids {:?} for branches {:?}", v.iter().map(|f| f.0).collect::<Vec<_>>(), ids));
                    } else if v.iter().any(|f| f.0 != f.1.edge || !same_pts(&f.2, &table[f.0 as usize])) {
                        ctx.fail(idx, &format!("{}/geometry", site), "geo_json: a feature's geometry is not the row of its id".into());
                    }
                }
                TOut::Wkt(v) | TOut::Wkb(v, _) => {
                    if sorted(&v.iter().map(|l| num_line(l)).collect::<Vec<_>>()) != want_lines {
                        ctx.fail(idx, &format!("{}/geometry", site), format!("{}: the linestrings are not the rows of the branch edges", fmt));
                    }
                }
            }
        }
    }
}

// ---------------------------------------------------------------------------------------------
// a real SearchInstance / SearchApp (content irrelevant to the path; needed by `process`)

fn state_model() -> Arc<StateModel> {
    Arc::new(
        StateModel::empty()
            .extend(vec![(
                String::from("distance"),
                StateFeature::Distance { distance_unit: DistanceUnit::Kilometers, initial: Distance::new(0.0) },
            )])
            .expect("state model"),
    )
}

fn empty_graph() -> Graph {
    Graph { adj: vec![].into_boxed_slice(), rev: vec![].into_boxed_slice(), edges: vec![].into_boxed_slice(), vertices: vec![].into_boxed_slice() }
}

fn search_instance() -> SearchInstance {
    let sm = state_model();
    let cost_model = CostModel::new(
        Arc::new(HashMap::from([(String::from("distance"), 1.0)])),
        Arc::new(HashMap::from([(String::from("distance"), VehicleCostRate::Raw)])),
        Arc::new(HashMap::new()),
        CostAggregation::Sum,
        sm.clone(),
    )
    .expect("cost model");
    SearchInstance {
        directed_graph: Arc::new(empty_graph()),
        state_model: sm,
        traversal_model: Arc::new(DistanceTraversalModel::new(DistanceUnit::Meters)),
        access_model: Arc::new(NoAccessModel {}),
        cost_model: Arc::new(cost_model),
        frontier_model: Arc::new(NoRestriction {}),
        termination_model: Arc::new(TerminationModel::IterationsLimit { limit: 20 }),
    }
}

fn clone_si(si: &SearchInstance) -> SearchInstance {
    SearchInstance {
        directed_graph: si.directed_graph.clone(),
        state_model: si.state_model.clone(),
        traversal_model: si.traversal_model.clone(),
        access_model: si.access_model.clone(),
        cost_model: si.cost_model.clone(),
        frontier_model: si.frontier_model.clone(),
        termination_model: si.termination_model.clone(),
    }
}

fn search_app() -> SearchApp {
    SearchApp::new(
        SearchAlgorithm::Dijkstra,
        empty_graph(),
        state_model(),
        Arc::new(DistanceTraversalService { distance_unit: DistanceUnit::Meters }),
        Arc::new(NoAccessModel {}),
        CostModelService {
            vehicle_rates: Arc::new(HashMap::from([(String::from("distance"), VehicleCostRate::Raw)])),
            network_rates: Arc::new(HashMap::new()),
            weights: Arc::new(HashMap::from([(String::from("distance"), 1.0)])),
            cost_aggregation: CostAggregation::Sum,
            ignore_unknown_weights: false,
        },
        Arc::new(NoRestriction {}),
        TerminationModel::IterationsLimit { limit: 20 },
    )
}

fn app_result(routes: &[Vec<Et>], trees: &[Vec<Br>]) -> SearchAppResult {
    SearchAppResult {
        routes: routes.iter().map(|r| real_route(r)).collect(),
        trees: trees.iter().map(|t| real_tree(t)).collect(),
        search_executed_time: String::from("1970-01-01T00:00:00+00:00"),
        search_runtime: Duration::ZERO,
        iterations: 0,
    }
}

fn scratch_dir() -> String {
    let d = format!("work/C20_files_{}", std::process::id());
    std::fs::create_dir_all(&d).expect("scratch dir");
    d
}

fn wkt_row(l: &[Pt]) -> String {
    if l.is_empty() {
        "LINESTRING EMPTY".to_string()
    } else {
        format!("LINESTRING ({})", l.iter().map(|(x, y)| format!("{} {}", x, y)).collect::<Vec<_>>().join(", "))
    }
}

fn write_rows(path: &str, rows: &[String]) {
    let mut s = String::new();
    for r in rows {
        s.push_str(r);
        s.push('\n');
    }
    std::fs::write(path, s).expect("write table file");
}

// ---------------------------------------------------------------------------------------------
// case kinds

fn route_case(ctx: &mut Ctx, idx: usize, fmt_i: usize, table: &[Vec<Pt>], route: &[Et]) {
    let (fname, fmt) = FORMATS[fmt_i];
    let geoms = real_table(table);
    let rr = real_route(route);
    let res = catch_unwind(AssertUnwindSafe(|| fmt.generate_route_output(&rr, &geoms)));
    let (line, parsed): (String, Result<ROut, String>) = match res {
        Err(_) => ("panic".into(), Err("panic".into())),
        Ok(Err(e)) => (err_kind(&e), Err(err_kind(&e))),
        Ok(Ok(v)) => match parse_route_out(fname, &v) {
            Ok(o) => (format!("ok {}", show_route_out(&o)), Ok(o)),
            Err(k) => (format!("unparsable {}", k), Err(k)),
        },
    };
    ctx.emit(idx, format!("route {} {} {}", fname, enc_table(table), enc_route(route)), line);
    ctx.count(&format!("route_{}", fname));
    let missing = route.iter().any(|e| e.edge >= table.len());
    if missing {
        ctx.count("route_with_missing_geometry");
    }
    if route.is_empty() {
        ctx.count("route_empty");
    }
    if route.len() >= 2 {
        ctx.nontrivial(&format!("route {} {} {}", fname, enc_table(table), enc_route(route)));
    }
    check_route(ctx, idx, "generate_route_output", fname, table, route, &parsed);
}

/// the WKB text of a route over an in-memory table that holds NaNs (quiet, signalling, negative) and infinities:
/// exercises the f32 -> f64 widening of every non-finite class; compared as exact hex text with the model
fn wkb_hex_case(ctx: &mut Ctx, idx: usize, table: &[Vec<Pt>], route: &[Et]) {
    let geoms = real_table(table);
    let rr = real_route(route);
    let res = catch_unwind(AssertUnwindSafe(|| TraversalOutputFormat::Wkb.generate_route_output(&rr, &geoms)));
    let line = match &res {
        Err(_) => "panic".to_string(),
        Ok(Err(e)) => err_kind(e),
        Ok(Ok(v)) => match v.as_str() {
            Some(s) => format!("ok {}", s),
            None => "unparsable wkb-not-string".to_string(),
        },
    };
    let case = format!("wkbhex {} {}", enc_table(table), enc_route(route));
    ctx.emit(idx, case.clone(), line.clone());
    ctx.nontrivial(&case);
    ctx.count("route_wkb_nonfinite_table");
    // oracle: the text is the header plus 16 bytes per stored point of the route's rows, or an error on a missing row
    let ids: Vec<usize> = route.iter().map(|e| e.edge).collect();
    match (expected_concat(table, &ids), &res) {
        (Some(w), Ok(Ok(v))) => {
            if v.as_str().map(|s| s.len()) != Some(2 * (9 + 16 * w.len())) {
                ctx.fail(idx, "generate_route_output/geometry", format!("wkb text of {} points has {} characters", w.len(), v.as_str().map(|s| s.len()).unwrap_or(0)));
            }
        }
        (None, Ok(Err(_))) => {}
        (None, Ok(Ok(_))) => ctx.fail(idx, "generate_route_output/missing-geometry-not-error", "wkb over a table with non-finite coordinates".into()),
        (Some(_), _) => ctx.fail(idx, "generate_route_output/unexpected-error", line),
        (None, Err(_)) => ctx.fail(idx, "generate_route_output/unexpected-error", line),
    }
}

fn tree_case(ctx: &mut Ctx, idx: usize, fmt_i: usize, table: &[Vec<Pt>], tree: &[Br]) {
    let (fname, fmt) = FORMATS[fmt_i];
    let geoms = real_table(table);
    let rt = real_tree(tree);
    let res = catch_unwind(AssertUnwindSafe(|| fmt.generate_tree_output(&rt, &geoms)));
    let (line, parsed): (String, Result<TOut, String>) = match res {
        Err(_) => ("panic".into(), Err("panic".into())),
        Ok(Err(e)) => (err_kind(&e), Err(err_kind(&e))),
        Ok(Ok(v)) => match parse_tree_out(fname, &v) {
            Ok(o) => (format!("ok {}", show_tree_out(&o)), Ok(o)),
            Err(k) => (format!("unparsable {}", k), Err(k)),
        },
    };
    ctx.emit(idx, format!("tree {} {} {}", fname, enc_table(table), enc_tree(tree)), line);
    ctx.count(&format!("tree_{}", fname));
    if tree.iter().any(|b| b.et.edge >= table.len()) {
        ctx.count("tree_with_missing_geometry");
    }
    if tree.len() >= 2 {
        ctx.nontrivial(&format!("tree {} {} {}", fname, enc_table(table), enc_tree(tree)));
    }
    check_tree(ctx, idx, "generate_tree_output", fname, table, tree, &parsed);
}

fn res_line<T>(r: Result<T, OutputPluginError>, f: impl Fn(&T) -> String) -> String {
    match r {
        Ok(v) => format!("ok {}", f(&v)),
        Err(e) => err_kind(&e),
    }
}

/// the public functions of traversal_ops and concat_linestrings, called directly
fn ops_case(ctx: &mut Ctx, idx: usize, table: &[Vec<Pt>], route: &[Et], tree: &[Br]) {
    let geoms = real_table(table);
    let geoms64: Vec<LineString<f64>> = table
        .iter()
        .map(|l| LineString::new(l.iter().map(|(x, y)| Coord { x: *x as f64, y: *y as f64 }).collect()))
        .collect();
    let rr = real_route(route);
    let rt = real_tree(tree);
    let r = catch_unwind(AssertUnwindSafe(|| {
        let mut parts: Vec<String> = vec![];
        // concat_linestrings on the rows that exist
        let present: Vec<&LineString<f32>> = route.iter().filter_map(|e| geoms.get(e.edge)).collect();
        let cat = geo_io_utils::concat_linestrings(present);
        parts.push(format!("concat {}", join(&num_line(&line_of_geo32(&cat)))));
        parts.push(format!("linestring {}", res_line(ops::create_route_linestring(&rr, &geoms), |l| join(&num_line(&line_of_geo32(l))))));
        parts.push(format!(
            "geojson {}",
            res_line(ops::create_route_geojson(&rr, &geoms), |v| match parse_features(v) {
                Ok(fs) => show_route_out(&ROut::Feats(fs)),
                Err(k) => format!("unparsable {}", k),
            })
        ));
        parts.push(format!(
            "multilinestring {}",
            res_line(ops::create_tree_multilinestring(&rt, &geoms), |m| show_sorted("lines", m.0.iter().map(|l| num_line(&line_of_geo32(l))).collect()))
        ));
        parts.push(format!(
            "treegeojson {}",
            res_line(ops::create_tree_geojson(&rt, &geoms), |v| match parse_features(v) {
                Ok(fs) => show_sorted("feats", fs.iter().map(feat_nums).collect()),
                Err(k) => format!("unparsable {}", k),
            })
        ));
        parts.push(format!(
            "multipoint {}",
            res_line(ops::create_tree_multipoint(&rt, &geoms64), |m| {
                let pts: Result<Vec<Vec<u64>>, String> =
                    m.0.iter().map(|p| pt_of_f64(p.x(), p.y()).map(|q| vec![f32bits(q.0), f32bits(q.1)])).collect();
                match pts {
                    Ok(p) => show_sorted("points", p),
                    Err(k) => format!("unparsable {}", k),
                }
            })
        ));
        // per-edge / per-branch geometry of the first element
        if let Some(e) = rr.first() {
            parts.push(format!("edge {}", res_line(ops::create_edge_geometry(e, &geoms), |l| join(&num_line(&line_of_geo32(l))))));
        } else {
            parts.push("edge none".into());
        }
        // create_geojson_feature on the first edge that has a row
        match rr.iter().find(|e| e.edge_id.0 < geoms.len()) {
            Some(e) => parts.push(format!(
                "feature {}",
                res_line(ops::create_geojson_feature(e, geoms[e.edge_id.0].clone()), |f| match serde_json::to_value(f).map_err(|_| "serialize".to_string()).and_then(|v| parse_feature(&v)) {
                    Ok(pf) => join(&feat_nums(&pf)),
                    Err(k) => format!("unparsable {}", k),
                })
            )),
            None => parts.push("feature none".into()),
        }
        if let Some(b) = tree.first() {
            let rb = SearchTreeBranch { terminal_vertex: VertexId(b.terminal), edge_traversal: real_et(&b.et) };
            parts.push(format!("branch {}", res_line(ops::create_branch_geometry(&rb, &geoms), |l| join(&num_line(&line_of_geo32(l))))));
        } else {
            parts.push("branch none".into());
        }
        parts.join(" | ")
    }));
    let line = r.unwrap_or_else(|_| "panic".into());
    ctx.emit(idx, format!("ops {} {} {}", enc_table(table), enc_route(route), enc_tree(tree)), line.clone());
    ctx.count("traversal_ops");
    ctx.nontrivial(&format!("ops {} {}", enc_route(route), enc_tree(tree)));
    // oracle on the two route functions
    let ids: Vec<usize> = route.iter().map(|e| e.edge).collect();
    match (expected_concat(table, &ids), ops::create_route_linestring(&rr, &geoms)) {
        (None, Ok(l)) => ctx.fail(idx, "create_route_linestring/missing-geometry-not-error", format!("route {:?}, table rows {}, got {} points", ids, table.len(), l.0.len())),
        (Some(_), Err(e)) => ctx.fail(idx, "create_route_linestring/unexpected-error", format!("{}", e)),
        (Some(w), Ok(l)) => {
            if !same_pts(&w, &line_of_geo32(&l)) {
                ctx.fail(idx, "create_route_linestring/geometry", format!("route {:?}: {} points, expected {}", ids, l.0.len(), w.len()));
            }
        }
        (None, Err(_)) => {}
    }
    match ops::create_tree_multilinestring(&rt, &geoms) {
        Ok(m) => {
            if tree.iter().any(|b| b.et.edge >= table.len()) {
                ctx.fail(idx, "create_tree_multilinestring/missing-geometry-not-error", format!("{} lines", m.0.len()));
            } else if m.0.len() != tree.len() {
                ctx.fail(idx, "create_tree_multilinestring/entry-count", format!("{} lines for {} branches", m.0.len(), tree.len()));
            }
        }
        Err(_) => {
            if !tree.iter().any(|b| b.et.edge >= table.len()) {
                ctx.fail(idx, "create_tree_multilinestring/unexpected-error", "all rows present".into());
            }
        }
    }
}

fn opt_hex(v: Option<&Value>) -> String {
    match v {
        None => "n".into(),
        Some(Value::String(s)) => format!("s {}", jsonproto::hex(s)),
        Some(_) => "not-a-string".into(),
    }
}

/// UUIDOutputPlugin::process on an arbitrary output JSON
fn uuid_case(ctx: &mut Ctx, idx: usize, dir: &str, search_ok: bool, table: &[String], output: &Value) {
    let path = format!("{}/uuid_{}.txt", dir, idx);
    write_rows(&path, table);
    let plugin = UUIDOutputPlugin::from_file(&path);
    let _ = std::fs::remove_file(&path);
    let case = format!(
        "uuid {} {} {} {}",
        if search_ok { 1 } else { 0 },
        table.len(),
        table.iter().map(|s| jsonproto::hex(s)).collect::<Vec<_>>().join(" "),
        jsonproto::enc(output)
    )
    .replace("  ", " ");
    let plugin = match plugin {
        Ok(p) => p,
        Err(e) => {
            ctx.emit(idx, case, err_kind(&e));
            ctx.fail(idx, "uuid_plugin/table-not-loaded", format!("{}", e));
            return;
        }
    };
    let sr: Result<(SearchAppResult, SearchInstance), CompassAppError> =
        if search_ok { Ok((app_result(&[], &[]), search_instance())) } else { Err(CompassAppError::InternalError("search failed".into())) };
    let mut out = output.clone();
    let r = catch_unwind(AssertUnwindSafe(|| plugin.process(&mut out, &sr)));
    let line = match &r {
        Err(_) => "panic".to_string(),
        Ok(Err(e)) => err_kind(e),
        Ok(Ok(())) => format!("ok {}", jsonproto::enc(&out)),
    };
    ctx.emit(idx, case.clone(), line.clone());
    ctx.count(match &r {
        Err(_) => "uuid_panic",
        Ok(Err(_)) => "uuid_error",
        Ok(Ok(())) => {
            if search_ok {
                "uuid_attached"
            } else {
                "uuid_search_failed_untouched"
            }
        }
    });
    ctx.nontrivial(&case);
    // oracle: when the request names two vertices with stored identifiers, exactly those are attached
    let o = output.get("request").and_then(|r| r.get("origin_vertex")).and_then(|v| v.as_u64());
    let d = output.get("request").and_then(|r| r.get("destination_vertex")).and_then(|v| v.as_u64());
    if !search_ok {
        if !matches!(&r, Ok(Ok(()))) || out != *output {
            ctx.fail(idx, "uuid_plugin/failed-search-modified", line.clone());
        }
        return;
    }
    match (o, d) {
        (Some(o), Some(d)) if (o as usize) < table.len() && (d as usize) < table.len() && output.get("request").map(|r| r.is_object()).unwrap_or(false) => match &r {
            Ok(Ok(())) => {
                let go = out.get("origin_vertex_uuid").and_then(|v| v.as_str());
                let gd = out.get("destination_vertex_uuid").and_then(|v| v.as_str());
                if go != Some(table[o as usize].as_str()) || gd != Some(table[d as usize].as_str()) {
                    ctx.fail(idx, "uuid_plugin/lookup", format!("origin {} destination {}: attached {:?} / {:?}, stored {:?} / {:?}", o, d, go, gd, table[o as usize], table[d as usize]));
                }
            }
            _ => ctx.fail(idx, "uuid_plugin/unexpected-failure", format!("origin {} destination {} both stored: {}", o, d, line)),
        },
        _ => {
            if let Ok(Ok(())) = &r {
                ctx.fail(idx, "uuid_plugin/attached-without-stored-id", format!("origin {:?} destination {:?} table rows {}: {}", o, d, table.len(), line));
            }
        }
    }
}

#[derive(Clone)]
enum PluginSpec {
    Traversal { table: Vec<Vec<Pt>>, route: Option<usize>, tree: Option<usize> },
    Summary,
    Uuid { table: Vec<String> },
}

fn enc_optfmt(f: &Option<usize>) -> String {
    match f {
        None => "n".into(),
        Some(i) => format!("s {}", FORMATS[*i].0),
    }
}

fn shape_route(fmt: &str, v: &Value) -> Result<String, String> {
    match v {
        Value::Null => Ok("null".into()),
        Value::Object(o) => {
            let p = o.get("path").ok_or("route-without-path")?;
            Ok(format!("one {}", show_route_out(&parse_route_out(fmt, p)?)))
        }
        Value::Array(a) => {
            let mut s = format!("many {}", a.len());
            for r in a {
                let p = r.get("path").ok_or("route-without-path")?;
                s.push(' ');
                s.push_str(&show_route_out(&parse_route_out(fmt, p)?));
            }
            Ok(s)
        }
        _ => Err("route-shape".into()),
    }
}

fn shape_tree(fmt: &str, n_trees: usize, v: &Value) -> Result<String, String> {
    // null for no tree, the bare tree output for one, an array of outputs otherwise; the bare outputs of the
    // json / edge_id formats are arrays themselves, so the number of trees decides how to read the value
    match n_trees {
        0 => {
            if v.is_null() {
                Ok("null".into())
            } else {
                Err("tree-shape".into())
            }
        }
        1 => Ok(format!("one {}", show_tree_out(&parse_tree_out(fmt, v)?))),
        _ => {
            let a = v.as_array().ok_or("tree-shape")?;
            let mut s = format!("many {}", a.len());
            for t in a {
                s.push(' ');
                s.push_str(&show_tree_out(&parse_tree_out(fmt, t)?));
            }
            Ok(s)
        }
    }
}

/// the real `apply_output_processing` with real plugins built from files
#[allow(clippy::too_many_arguments)]
fn resp_case(
    ctx: &mut Ctx,
    idx: usize,
    dir: &str,
    app: &SearchApp,
    search_ok: bool,
    req: &Value,
    plugins: &[PluginSpec],
    routes: &[Vec<Et>],
    trees: &[Vec<Br>],
    real_si: Option<&SearchInstance>,
    via_builders: bool,
) {
    // cost slots of the search instance: both the mock instance and the end-to-end one read slot 0 ("distance")
    let mut case = format!("resp {} {} {} {}", if search_ok { 1 } else { 0 }, COST_SLOTS, jsonproto::enc(req), plugins.len());
    let mut real: Vec<Arc<dyn OutputPlugin>> = vec![];
    let mut build_failed = None;
    for (k, p) in plugins.iter().enumerate() {
        match p {
            PluginSpec::Traversal { table, route, tree } => {
                case.push_str(&format!(" trav {} {} {}", enc_table(table), enc_optfmt(route), enc_optfmt(tree)));
                let path = format!("{}/geom_{}_{}.txt", dir, idx, k);
                write_rows(&path, &table.iter().map(|l| wkt_row(l)).collect::<Vec<_>>());
                if via_builders {
                    // the configuration route: `[[plugin.output_plugins]] type = "traversal" …`
                    let mut params = serde_json::Map::new();
                    params.insert("type".into(), json!("traversal"));
                    params.insert("geometry_input_file".into(), json!(path));
                    if let Some(i) = route {
                        params.insert("route".into(), json!(FORMATS[*i].0));
                    }
                    if let Some(i) = tree {
                        params.insert("tree".into(), json!(FORMATS[*i].0));
                    }
                    let pl = TraversalPluginBuilder {}.build(&Value::Object(params));
                    let _ = std::fs::remove_file(&path);
                    match pl {
                        Ok(pl) => real.push(pl),
                        Err(e) => build_failed = Some(format!("{}", e)),
                    }
                } else {
                    let pl = TraversalPlugin::from_file(&path, route.map(|i| FORMATS[i].1), tree.map(|i| FORMATS[i].1));
                    let _ = std::fs::remove_file(&path);
                    match pl {
                        Ok(pl) => real.push(Arc::new(pl)),
                        Err(e) => build_failed = Some(format!("{}", e)),
                    }
                }
            }
            PluginSpec::Summary => {
                case.push_str(" summary");
                real.push(Arc::new(SummaryOutputPlugin {}));
            }
            PluginSpec::Uuid { table } => {
                case.push_str(&format!(" uuid {} {}", table.len(), table.iter().map(|s| jsonproto::hex(s)).collect::<Vec<_>>().join(" ")));
                let path = format!("{}/uuid_{}_{}.txt", dir, idx, k);
                write_rows(&path, table);
                if via_builders {
                    let pl = UUIDOutputPluginBuilder {}.build(&json!({"type": "uuid", "uuid_input_file": path}));
                    let _ = std::fs::remove_file(&path);
                    match pl {
                        Ok(pl) => real.push(pl),
                        Err(e) => build_failed = Some(format!("{}", e)),
                    }
                } else {
                    let pl = UUIDOutputPlugin::from_file(&path);
                    let _ = std::fs::remove_file(&path);
                    match pl {
                        Ok(pl) => real.push(Arc::new(pl)),
                        Err(e) => build_failed = Some(format!("{}", e)),
                    }
                }
            }
        }
    }
    case.push_str(&format!(" {}", routes.len()));
    for r in routes {
        case.push(' ');
        case.push_str(&enc_route(r));
    }
    case.push_str(&format!(" {}", trees.len()));
    for t in trees {
        case.push(' ');
        case.push_str(&enc_tree(t));
    }
    let case = case.replace("  ", " ");
    if let Some(e) = build_failed {
        ctx.emit(idx, case, "build-failed".into());
        ctx.fail(idx, "plugin/table-not-loaded", e);
        return;
    }
    let sr: Result<(SearchAppResult, SearchInstance), CompassAppError> = if search_ok {
        Ok((app_result(routes, trees), real_si.map(clone_si).unwrap_or_else(search_instance)))
    } else {
        Err(CompassAppError::InternalError("search failed".into()))
    };
    let resp = catch_unwind(AssertUnwindSafe(|| apply_output_processing(req, sr, app, &real)));
    // the traversal plugin that writes last decides the keys
    let mut route_fmt: Option<usize> = None;
    let mut tree_fmt: Option<usize> = None;
    let mut has_summary = false;
    let mut has_uuid = false;
    for p in plugins {
        match p {
            PluginSpec::Traversal { route, tree, .. } => {
                if route.is_some() {
                    route_fmt = *route;
                }
                if tree.is_some() {
                    tree_fmt = *tree;
                }
            }
            PluginSpec::Summary => has_summary = true,
            PluginSpec::Uuid { .. } => has_uuid = true,
        }
    }
    let line = match &resp {
        Err(_) => "panic".to_string(),
        Ok(v) => {
            if v.get("request") != Some(req) {
                ctx.fail(idx, "response/request-not-echoed", "the response does not carry the request".into());
            }
            if v.get("error").is_some() {
                if v.get("route").is_some() || v.get("tree").is_some() {
                    ctx.fail(idx, "response/error-with-route", "error response also carries route/tree".into());
                }
                "error".to_string()
            } else {
                let route = match (v.get("route"), route_fmt) {
                    (None, _) => "n".to_string(),
                    (Some(x), Some(f)) => match shape_route(FORMATS[f].0, x) {
                        Ok(s) => format!("s {}", s),
                        Err(k) => format!("unparsable {}", k),
                    },
                    (Some(_), None) => "unexpected-route-key".to_string(),
                };
                let tree = match (v.get("tree"), tree_fmt) {
                    (None, _) => "n".to_string(),
                    (Some(x), Some(f)) => match shape_tree(FORMATS[f].0, trees.len(), x) {
                        Ok(s) => format!("s {}", s),
                        Err(k) => format!("unparsable {}", k),
                    },
                    (Some(_), None) => "unexpected-tree-key".to_string(),
                };
                let num = |k: &str| match v.get(k) {
                    None => "n".to_string(),
                    Some(x) => match x.as_u64() {
                        Some(n) => format!("s {}", n),
                        None => "not-a-count".to_string(),
                    },
                };
                format!(
                    "ok route {} tree {} re {} ts {} ou {} du {}",
                    route,
                    tree,
                    num("route_edges"),
                    num("tree_size_count"),
                    opt_hex(v.get("origin_vertex_uuid")),
                    opt_hex(v.get("destination_vertex_uuid"))
                )
            }
        }
    };
    ctx.emit(idx, case.clone(), line.clone());
    ctx.nontrivial(&case);
    ctx.count(if line == "error" { "response_error" } else if line == "panic" { "response_panic" } else { "response_ok" });
    // oracle
    let Ok(v) = &resp else {
        ctx.fail(idx, "response/panic", "apply_output_processing panicked".into());
        return;
    };
    let is_err = v.get("error").is_some();
    if !search_ok {
        if !is_err {
            ctx.fail(idx, "response/failed-search-without-error", line.clone());
        }
        return;
    }
    // does any configured geometry format meet a missing row?
    let mut geometry_missing = false;
    let mut empty_route = false;
    let mut short_state = false;
    for p in plugins {
        if let PluginSpec::Traversal { table, route, tree } = p {
            if let Some(f) = route {
                if uses_geometry(FORMATS[*f].0) && routes.iter().any(|r| r.iter().any(|e| e.edge >= table.len())) {
                    geometry_missing = true;
                }
                if routes.iter().any(|r| r.is_empty()) {
                    empty_route = true;
                }
                if routes.iter().any(|r| r.last().map(|e| e.state.len() < COST_SLOTS).unwrap_or(false)) {
                    short_state = true;
                }
            }
            if let Some(f) = tree {
                if uses_geometry(FORMATS[*f].0) && trees.iter().any(|t| t.iter().any(|b| b.et.edge >= table.len())) {
                    geometry_missing = true;
                }
            }
        }
    }
    if geometry_missing {
        ctx.count("response_missing_geometry");
        if !is_err {
            ctx.fail(idx, "response/missing-geometry-not-error", line.clone());
        }
        return;
    }
    if short_state {
        // a hand-made state vector shorter than the cost model's slots: `serialize_cost` fails, error response
        ctx.count("response_short_state");
        if !is_err {
            ctx.fail(idx, "response/short-state-not-error", line.clone());
        }
        return;
    }
    if empty_route {
        // observed behaviour (reported, not part of C20): an empty route makes the traversal plugin fail
        ctx.count("response_empty_route");
        if std::env::var("C20_DEBUG").is_ok() {
            eprintln!("EMPTY-ROUTE request {} routes {:?} -> {}", req, routes.iter().map(|r| r.len()).collect::<Vec<_>>(), v);
        }
        return;
    }
    if is_err {
        // only the uuid plugin may still fail: missing / ill-typed ids or ids beyond the table
        let uuid_can_fail = plugins.iter().any(|p| match p {
            PluginSpec::Uuid { table } => {
                let o = req.get("origin_vertex").and_then(|x| x.as_u64());
                let d = req.get("destination_vertex").and_then(|x| x.as_u64());
                !matches!((o, d), (Some(o), Some(d)) if (o as usize) < table.len() && (d as usize) < table.len())
            }
            _ => false,
        });
        if !uuid_can_fail {
            ctx.fail(idx, "response/unexpected-error", format!("{}", v.get("error").map(|e| e.to_string()).unwrap_or_default()));
        } else {
            ctx.count("response_uuid_error");
            if req.get("destination_vertex").is_none() && req.get("origin_vertex").and_then(|x| x.as_u64()).is_some() {
                // observed behaviour (reported, outside the literal statement of C20): a destination-less query
                // with the uuid plugin configured is answered with an error response, the tree is lost
                ctx.count("response_uuid_error_destinationless_query");
                if std::env::var("C20_DEBUG").is_ok() {
                    eprintln!("UUID-NO-DESTINATION request {} trees {:?} -> {}", req, trees.iter().map(|t| t.len()).collect::<Vec<_>>(), v);
                }
            }
        }
        return;
    }
    // neither error nor the configured key
    if route_fmt.is_some() && v.get("route").is_none() {
        ctx.fail(idx, "response/neither-route-nor-error", "route format configured, no route key, no error".into());
    }
    if tree_fmt.is_some() && v.get("tree").is_none() {
        ctx.fail(idx, "response/neither-tree-nor-error", "tree format configured, no tree key, no error".into());
    }
    // the rendered routes / trees against the inputs (table of the plugin that wrote last)
    let last_table = |want_route: bool| {
        plugins.iter().rev().find_map(|p| match p {
            PluginSpec::Traversal { table, route, tree } if (want_route && route.is_some()) || (!want_route && tree.is_some()) => Some(table.clone()),
            _ => None,
        })
    };
    if let (Some(f), Some(x)) = (route_fmt, v.get("route")) {
        let table = last_table(true).unwrap_or_default();
        let rendered: Vec<&Value> = match x {
            Value::Null => vec![],
            Value::Array(a) => a.iter().collect(),
            other => vec![other],
        };
        if rendered.len() != routes.len() {
            ctx.fail(idx, "response/route-count", format!("{} routes rendered for {} routes", rendered.len(), routes.len()));
        } else {
            for (r, rv) in routes.iter().zip(rendered) {
                let parsed = rv.get("path").ok_or("route-without-path".to_string()).and_then(|p| parse_route_out(FORMATS[f].0, p));
                check_route(ctx, idx, "response", FORMATS[f].0, &table, r, &parsed);
            }
        }
    }
    if let (Some(f), Some(x)) = (tree_fmt, v.get("tree")) {
        let table = last_table(false).unwrap_or_default();
        let rendered: Vec<&Value> = match trees.len() {
            0 => vec![],
            1 => vec![x],
            _ => x.as_array().map(|a| a.iter().collect()).unwrap_or_default(),
        };
        if rendered.len() != trees.len() {
            ctx.fail(idx, "response/tree-count", format!("{} trees rendered for {} trees", rendered.len(), trees.len()));
        } else {
            for (t, tv) in trees.iter().zip(rendered) {
                let parsed = parse_tree_out(FORMATS[f].0, tv);
                check_tree(ctx, idx, "response", FORMATS[f].0, &table, t, &parsed);
            }
        }
    }
    if has_summary {
        let re: usize = routes.iter().map(|r| r.len()).sum();
        let ts: usize = trees.iter().map(|t| t.len()).sum();
        if v.get("route_edges").and_then(|x| x.as_u64()) != Some(re as u64) {
            ctx.fail(idx, "summary/route-edges", format!("route_edges {:?} for {} edges", v.get("route_edges"), re));
        }
        if v.get("tree_size_count").and_then(|x| x.as_u64()) != Some(ts as u64) {
            ctx.fail(idx, "summary/tree-size-count", format!("tree_size_count {:?} for {} branches", v.get("tree_size_count"), ts));
        }
    }
    if has_uuid {
        if let Some(PluginSpec::Uuid { table }) = plugins.iter().rev().find(|p| matches!(p, PluginSpec::Uuid { .. })) {
            let o = req.get("origin_vertex").and_then(|x| x.as_u64()).map(|i| i as usize);
            let d = req.get("destination_vertex").and_then(|x| x.as_u64()).map(|i| i as usize);
            let wo = o.and_then(|i| table.get(i)).map(|s| s.as_str());
            let wd = d.and_then(|i| table.get(i)).map(|s| s.as_str());
            if v.get("origin_vertex_uuid").and_then(|x| x.as_str()) != wo || v.get("destination_vertex_uuid").and_then(|x| x.as_str()) != wd {
                ctx.fail(idx, "response/uuid-lookup", format!("origin {:?} destination {:?}", o, d));
            }
        }
    }
}

// ---------------------------------------------------------------------------------------------
// end to end: a real search on a random network, its routes and trees through the real plugins

fn extract_et(e: &EdgeTraversal) -> Et {
    Et { edge: e.edge_id.0, acc: e.access_cost.as_f64(), trav: e.traversal_cost.as_f64(), state: e.result_state.iter().map(|s| s.0).collect() }
}

fn e2e_case(ctx: &mut Ctx, idx: usize, dir: &str, rng: &mut Rng) {
    let n = 3 + rng.below(10);
    let coords: Vec<Pt> = (0..n).map(|i| ((-105.0 + 0.01 * i as f64 + 0.001 * rng.unit()) as f32, (39.0 + rng.unit()) as f32)).collect();
    let vertices: Vec<Vertex> = coords.iter().enumerate().map(|(i, (x, y))| Vertex::new(i, *x, *y)).collect();
    let mut out_deg = vec![0usize; n];
    let mut in_deg = vec![0usize; n];
    let mut pairs: Vec<(usize, usize)> = vec![];
    for i in 0..n {
        if rng.chance(5, 6) {
            pairs.push((i, (i + 1) % n));
        }
    }
    for _ in 0..rng.below(2 * n + 1) {
        let (u, v) = (rng.below(n), rng.below(n));
        if u != v {
            pairs.push((u, v));
        }
    }
    let mut edges: Vec<Edge> = vec![];
    for (u, v) in pairs {
        // at most four out- and in-edges per vertex (keeps clear of the adjacency container's large-map path)
        if out_deg[u] < 4 && in_deg[v] < 4 {
            out_deg[u] += 1;
            in_deg[v] += 1;
            edges.push(Edge::new(edges.len(), u, v, rng.small_decimal(900, 1) + 10.0));
        }
    }
    let mut adj = vec![CompactOrderedHashMap::empty(); n];
    let mut rev = vec![CompactOrderedHashMap::empty(); n];
    for e in &edges {
        adj[e.src_vertex_id.0].insert(e.edge_id, e.dst_vertex_id);
        rev[e.dst_vertex_id.0].insert(e.edge_id, e.src_vertex_id);
    }
    let m = edges.len();
    let edge_ends: Vec<(usize, usize)> = edges.iter().map(|e| (e.src_vertex_id.0, e.dst_vertex_id.0)).collect();
    let graph = Graph { adj: adj.into_boxed_slice(), rev: rev.into_boxed_slice(), edges: edges.into_boxed_slice(), vertices: vertices.into_boxed_slice() };
    let (alg_name, alg) = match rng.below(4) {
        0 => ("dijkstra", SearchAlgorithm::Dijkstra),
        1 => ("a_star", SearchAlgorithm::AStarAlgorithm { weight_factor: None }),
        2 => ("ksp_single_via", SearchAlgorithm::KspSingleVia { k: 2 + rng.below(2), underlying: Box::new(SearchAlgorithm::Dijkstra), similarity: None, termination: None }),
        _ => ("dijkstra", SearchAlgorithm::Dijkstra),
    };
    let app = SearchApp::new(
        alg,
        graph,
        state_model(),
        Arc::new(DistanceTraversalService { distance_unit: DistanceUnit::Meters }),
        Arc::new(NoAccessModel {}),
        CostModelService {
            vehicle_rates: Arc::new(HashMap::from([(String::from("distance"), VehicleCostRate::Raw)])),
            network_rates: Arc::new(HashMap::new()),
            weights: Arc::new(HashMap::from([(String::from("distance"), 1.0)])),
            cost_aggregation: CostAggregation::Sum,
            ignore_unknown_weights: false,
        },
        Arc::new(NoRestriction {}),
        TerminationModel::IterationsLimit { limit: 100_000 },
    );
    let edge_oriented = m > 0 && rng.chance(1, 5);
    let with_destination = alg_name == "ksp_single_via" || !rng.chance(1, 4);
    let (req, orientation) = if edge_oriented {
        let mut q = serde_json::Map::new();
        q.insert("origin_edge".into(), json!(rng.below(m)));
        if with_destination {
            q.insert("destination_edge".into(), json!(rng.below(m)));
        }
        (Value::Object(q), SearchOrientation::Edge)
    } else {
        let mut q = serde_json::Map::new();
        q.insert("origin_vertex".into(), json!(rng.below(n)));
        if with_destination {
            q.insert("destination_vertex".into(), json!(rng.below(n)));
        }
        (Value::Object(q), SearchOrientation::Vertex)
    };
    let searched = catch_unwind(AssertUnwindSafe(|| app.run(&req, &orientation)));
    // the geometry of an edge runs from its source vertex to its destination vertex: consecutive edges share
    // the joint point; the last rows are sometimes missing
    let mut table: Vec<Vec<Pt>> = edge_ends
        .iter()
        .map(|(u, v)| {
            let mut l = vec![coords[*u]];
            for _ in 0..rng.below(4) {
                l.push(((coords[*u].0 + coords[*v].0) / 2.0 + rng.unit() as f32 * 0.001, (coords[*u].1 + coords[*v].1) / 2.0 + rng.unit() as f32 * 0.001));
            }
            l.push(coords[*v]);
            l
        })
        .collect();
    if rng.chance(1, 5) && !table.is_empty() {
        let keep = rng.below(table.len());
        table.truncate(keep.max(1));
    }
    let fmt_route = rng.below(5);
    let fmt_tree = rng.below(5);
    let mut plugins = vec![PluginSpec::Traversal { table, route: Some(fmt_route), tree: if rng.chance(3, 4) { Some(fmt_tree) } else { None } }, PluginSpec::Summary];
    if !edge_oriented && rng.chance(3, 4) {
        plugins.push(PluginSpec::Uuid { table: gen_uuid_table(rng, n) });
    }
    ctx.count(&format!("e2e_{}", alg_name));
    ctx.count(if edge_oriented { "e2e_edge_oriented" } else { "e2e_vertex_oriented" });
    match searched {
        Err(_) => {
            // a panic inside the search is another property's business (C12/C13); nothing to render
            ctx.count("e2e_search_panicked");
            ctx.emit(idx, "skip".into(), "bad-case".into());
        }
        Ok(Err(e)) => {
            if std::env::var("C20_DEBUG").is_ok() {
                eprintln!("E2E search failed: {}", e);
            }
            ctx.count("e2e_search_failed");
            resp_case(ctx, idx, dir, &app, false, &req, &plugins, &[], &[], None, true);
        }
        Ok(Ok((result, si))) => {
            let routes: Vec<Vec<Et>> = result.routes.iter().map(|r| r.iter().map(extract_et).collect()).collect();
            let trees: Vec<Vec<Br>> = result
                .trees
                .iter()
                .map(|t| t.iter().map(|(k, b)| Br { key: k.0, terminal: b.terminal_vertex.0, et: extract_et(&b.edge_traversal) }).collect())
                .collect();
            ctx.count(&format!("e2e_routes_{}", routes.len().min(3)));
            if routes.iter().any(|r| r.len() >= 2) {
                ctx.count("e2e_route_with_joint");
            }
            resp_case(ctx, idx, dir, &app, true, &req, &plugins, &routes, &trees, Some(&si), true);
        }
    }
}


// ---------------------------------------------------------------------------------------------
// lookup-table files: loaders, row parsers, builders

#[derive(Clone, Debug)]
enum GRow {
    /// a row the WKT parser accepts, with the text variant it is written in
    Well(Vec<Pt>, usize),
    /// a row the WKT parser rejects (index into MALFORMED)
    Bad(usize),
}

/// from this index on: rows whose text the `wkt` lexer accepts but which denote a coordinate that is not finite
/// (NaN, an infinity, or a literal that overflows f32) — rejected by `parse_wkt_linestring` since the repair
const NONFINITE_FROM: usize = 14;

const MALFORMED: [&str; 23] = [
    "",
    " ",
    "LINESTRING (1 2, 3 4",
    "LINESTRING 1 2, 3 4",
    "LINESTRING (1 2, 3)",
    "LINESTRING (1 2 3, 4 5 6)",
    "POINT (1 2)",
    "LINESTRING (a b, c d)",
    "LINESTRING (1,2, 3,4)",
    "MULTILINESTRING ((1 2, 3 4))",
    "\"LINESTRING (1 2, 3 4)\"",
    "0,LINESTRING (1 2, 3 4)",
    "LINESTRING (NaN 2, 3 4)",
    "SRID=4326;LINESTRING (1 2, 3 4)",
    "LINESTRING (-105.1 39.5, +NaN 39.6)",
    "LINESTRING (-nan 2, 3 4)",
    "LINESTRING (1 2, 3 +INF)",
    "LINESTRING (1e39 0, 0 0)",
    "LINESTRING (1 2, 3 -inf)",
    "LINESTRING (-infinity 2, 3 4)",
    "LINESTRING (1 -1e39, 3 4)",
    "LINESTRING (3.5e38 0, 1 1)",
    "LINESTRING Z (1 2 3, +NaN 5 6)",
];

fn grow_text(r: &GRow) -> String {
    match r {
        GRow::Bad(k) => MALFORMED[*k].to_string(),
        GRow::Well(l, variant) => {
            if l.is_empty() {
                return "LINESTRING EMPTY".into();
            }
            let pts = |sep: &str, z: bool| l.iter().map(|(x, y)| if z { format!("{} {} 7", x, y) } else { format!("{} {}", x, y) }).collect::<Vec<_>>().join(sep);
            match variant {
                1 => format!("LINESTRING({})", pts(",", false)),
                2 => format!("linestring ({})", pts(", ", false)),
                3 => format!("  LINESTRING ({})  ", pts(", ", false)),
                4 => format!("LINESTRING Z ({})", pts(", ", true)),
                // what the third-party parser tolerates after / inside the geometry (rows exported with extra columns)
                6 => format!("LINESTRING ({}),17,\"Main St\"", pts(", ", false)),
                7 => format!("LINESTRING ({}) garbage", pts(", ", false)),
                8 => format!("LINESTRING M ({})", pts(", ", true)),
                9 => format!("LINESTRING ZM ({})", l.iter().map(|(x, y)| format!("{} {} 7 8", x, y)).collect::<Vec<_>>().join(", ")),
                _ => format!("LINESTRING ({})", pts(", ", false)),
            }
        }
    }
}

fn enc_grows(rows: &[GRow]) -> String {
    let mut s = format!("{}", rows.len());
    for r in rows {
        match r {
            GRow::Bad(_) => s.push_str(" m"),
            GRow::Well(l, _) => {
                s.push_str(" w ");
                s.push_str(&join(&num_line(l)));
            }
        }
    }
    s
}

#[derive(Clone, Copy, Debug)]
struct FileShape {
    /// the path is a file but cannot be opened: mode 000, and the loader is called by an unprivileged user
    /// (forked child, uid 65534); implies `!readable`
    noperm: bool,
    readable: bool,
    /// false: the byte stream does not decode to its end — a gzip member cut off in the middle, or
    /// (`bad_utf8`) a line that is not UTF-8
    intact: bool,
    bad_utf8: bool,
    gz: bool,
    crlf: bool,
    final_nl: bool,
}

fn gen_file_shape(rng: &mut Rng, n_rows: usize, last_row_empty: bool) -> FileShape {
    let gz = rng.chance(1, 3);
    let cut = gz && n_rows >= 1 && rng.chance(1, 8);
    let bad_utf8 = !cut && rng.chance(1, 10);
    let readable = !rng.chance(1, 12);
    FileShape {
        noperm: !readable && is_root() && rng.chance(1, 2),
        readable,
        intact: !(cut || bad_utf8),
        bad_utf8,
        gz,
        crlf: rng.chance(1, 5),
        // an empty last row without a final line break would not be a row at all
        final_nl: last_row_empty || !rng.chance(1, 4),
    }
}

fn is_root() -> bool {
    unsafe { libc::geteuid() == 0 }
}

/// runs `f` in a forked child that has dropped to uid/gid 65534 and returns the line it produced
fn as_nobody(f: impl FnOnce() -> String) -> String {
    unsafe {
        let mut fds = [0i32; 2];
        if libc::pipe(fds.as_mut_ptr()) != 0 {
            return "nobody-unavailable".into();
        }
        let pid = libc::fork();
        if pid < 0 {
            return "nobody-unavailable".into();
        }
        if pid == 0 {
            libc::close(fds[0]);
            let devnull = libc::open(b"/dev/null\0".as_ptr() as *const libc::c_char, libc::O_WRONLY);
            if devnull >= 0 {
                libc::dup2(devnull, 2);
            }
            libc::alarm(20);
            let dropped = libc::setgroups(0, std::ptr::null()) == 0 && libc::setgid(65534) == 0 && libc::setuid(65534) == 0;
            let msg = if dropped { catch_unwind(AssertUnwindSafe(f)).unwrap_or_else(|_| "panic".to_string()) } else { "nobody-unavailable".to_string() };
            let b = msg.as_bytes();
            let mut off = 0;
            while off < b.len() {
                let n = libc::write(fds[1], b[off..].as_ptr() as *const libc::c_void, b.len() - off);
                if n <= 0 {
                    break;
                }
                off += n as usize;
            }
            libc::_exit(0);
        }
        libc::close(fds[1]);
        let mut buf = Vec::new();
        let mut chunk = [0u8; 4096];
        loop {
            let n = libc::read(fds[0], chunk.as_mut_ptr() as *mut libc::c_void, chunk.len());
            if n <= 0 {
                break;
            }
            buf.extend_from_slice(&chunk[..n as usize]);
        }
        libc::close(fds[0]);
        let mut status = 0i32;
        libc::waitpid(pid, &mut status, 0);
        if buf.is_empty() {
            "diverges".into()
        } else {
            String::from_utf8_lossy(&buf).to_string()
        }
    }
}

fn enc_shape(f: &FileShape) -> String {
    format!("{} {} {} {} {} {}", (f.readable || f.noperm) as u8, f.readable as u8, f.intact as u8, f.gz as u8, f.crlf as u8, f.final_nl as u8)
}

/// writes the rows as the shape says; returns the path (which does not exist when `!readable`)
fn write_table_file(dir: &str, name: &str, rows: &[String], f: &FileShape) -> String {
    let path = format!("{}/{}", dir, name);
    let _ = std::fs::remove_file(&path);
    if !f.readable && !f.noperm {
        return path;
    }
    let sep = if f.crlf { "\r\n" } else { "\n" };
    let mut text: Vec<u8> = vec![];
    for (i, r) in rows.iter().enumerate() {
        if f.bad_utf8 && i == rows.len() / 2 {
            // a line that is not UTF-8, in the middle of the file
            text.extend_from_slice(b"\xff\xfe not utf-8");
            text.extend_from_slice(sep.as_bytes());
        }
        text.extend_from_slice(r.as_bytes());
        if i + 1 < rows.len() || f.final_nl {
            text.extend_from_slice(sep.as_bytes());
        }
    }
    if f.bad_utf8 && rows.is_empty() {
        text.extend_from_slice(b"\xff\xfe not utf-8");
        text.extend_from_slice(sep.as_bytes());
    }
    let bytes = if f.gz {
        use std::io::Write;
        let mut enc = flate2::write::GzEncoder::new(Vec::new(), flate2::Compression::default());
        enc.write_all(&text).expect("gz");
        let mut b = enc.finish().expect("gz");
        if !f.intact && !f.bad_utf8 {
            b.truncate((b.len() / 2).max(10));
        }
        b
    } else {
        text
    };
    std::fs::write(&path, bytes).expect("write table file");
    if f.noperm {
        use std::os::unix::fs::PermissionsExt;
        std::fs::set_permissions(&path, std::fs::Permissions::from_mode(0o000)).expect("chmod");
    }
    path
}

fn gen_grows(rng: &mut Rng, n: usize, bad_chance: u64) -> Vec<GRow> {
    let table = gen_table(rng, n, true, false);
    table
        .into_iter()
        .map(|mut l| {
            if bad_chance > 0 && rng.chance(1, bad_chance) {
                GRow::Bad(rng.below(MALFORMED.len()))
            } else {
                if rng.chance(1, 8) {
                    // finite values at the ends of the f32 range, zeros and subnormals also come through files
                    let exotic = [0.0f32, -0.0, f32::from_bits(1), f32::from_bits(0x0040_0001), f32::MIN_POSITIVE, f32::MAX, f32::MIN, 3.0e38, -3.0e38, 1.0e-40];
                    for p in l.iter_mut() {
                        if rng.chance(1, 2) {
                            p.0 = exotic[rng.below(exotic.len())];
                        }
                        if rng.chance(1, 2) {
                            p.1 = exotic[rng.below(exotic.len())];
                        }
                    }
                }
                GRow::Well(l, rng.below(12))
            }
        })
        .collect()
}

fn intended_table(rows: &[GRow], f: &FileShape) -> Option<Vec<Vec<Pt>>> {
    if !f.readable || !f.intact {
        return None;
    }
    rows.iter().map(|r| match r { GRow::Well(l, _) => Some(l.clone()), GRow::Bad(_) => None }).collect()
}

fn show_table(t: &[Vec<Pt>]) -> String {
    let mut v = vec![t.len() as u64];
    for l in t {
        v.extend(num_line(l));
    }
    join(&v)
}

fn one_edge(e: usize) -> Et {
    Et { edge: e, acc: 0.0, trav: 1.0, state: vec![1.0] }
}

/// the geometry table a built traversal plugin holds, read back through `process` (geo_json, one route that
/// visits every row once), plus whether the row after the last one is missing
fn read_back_table(plugin: &dyn OutputPlugin, n: usize) -> (String, String) {
    let table = if n == 0 {
        "0".to_string()
    } else {
        let route: Vec<Et> = (0..n).map(one_edge).collect();
        let sr: Result<(SearchAppResult, SearchInstance), CompassAppError> = Ok((app_result(&[route], &[]), search_instance()));
        let mut out = json!({});
        match plugin.process(&mut out, &sr) {
            Err(e) => err_kind(&e),
            Ok(()) => match out.get("route").and_then(|r| r.get("path")).ok_or("no-path".to_string()).and_then(parse_features) {
                Ok(fs) => show_table(&fs.into_iter().map(|f| f.2).collect::<Vec<_>>()),
                Err(k) => format!("unparsable {}", k),
            },
        }
    };
    let sr: Result<(SearchAppResult, SearchInstance), CompassAppError> = Ok((app_result(&[vec![one_edge(n)]], &[]), search_instance()));
    let mut out = json!({});
    let beyond = match plugin.process(&mut out, &sr) {
        Err(_) => "err",
        Ok(()) => "ok",
    };
    (table, beyond.to_string())
}

/// does `f` return within `secs` seconds?  Run in a forked child (alarm), so that a call that never returns
/// shows up as an oracle failure instead of hanging the check.
fn returns_within(secs: u32, f: impl FnOnce()) -> bool {
    unsafe {
        let pid = libc::fork();
        if pid < 0 {
            f();
            return true;
        }
        if pid == 0 {
            let devnull = libc::open(b"/dev/null\0".as_ptr() as *const libc::c_char, libc::O_WRONLY);
            if devnull >= 0 {
                libc::dup2(devnull, 2);
            }
            libc::alarm(secs);
            let _ = catch_unwind(AssertUnwindSafe(f));
            libc::_exit(0);
        }
        let mut status = 0i32;
        libc::waitpid(pid, &mut status, 0);
        libc::WIFEXITED(status) && libc::WEXITSTATUS(status) == 0
    }
}

/// a file whose byte stream breaks off (truncated gzip): the loaders count its lines first; guard that call
fn line_count_returns(path: &str) -> bool {
    use routee_compass_core::util::fs::fs_utils;
    let p = path.to_string();
    returns_within(5, move || {
        let _ = fs_utils::line_count(&p, fs_utils::is_gzip(&p));
    })
}

fn load_case(ctx: &mut Ctx, idx: usize, dir: &str, rows: &[GRow], shape: &FileShape) {
    let texts: Vec<String> = rows.iter().map(grow_text).collect();
    let path = write_table_file(dir, &format!("load_{}.txt", idx), &texts, shape);
    if shape.readable && !shape.intact && !line_count_returns(&path) {
        let _ = std::fs::remove_file(&path);
        ctx.emit(idx, format!("load {} {}", enc_shape(shape), enc_grows(rows)), "diverges".into());
        ctx.count("load_diverges");
        ctx.fail(idx, "geometry_file/truncated-gzip-hangs", format!("fs_utils::line_count did not return within 5 s on a gzip file of {} rows cut off in the middle (reached from TraversalPlugin::from_file and read_linestring_text_file)", rows.len()));
        return;
    }
    let work = || {
        let read = match geo_io_utils::read_linestring_text_file(&path) {
            Ok(t) => format!("ok {}", show_table(&t.iter().map(line_of_geo32).collect::<Vec<_>>())),
            Err(_) => "err io".to_string(),
        };
        let plugin = match TraversalPlugin::from_file(&path, Some(TraversalOutputFormat::GeoJson), None) {
            Err(e) => err_kind(&e),
            Ok(p) => {
                let (t, beyond) = read_back_table(&p, rows.len());
                format!("ok {} beyond {}", t, beyond)
            }
        };
        format!("read {} | plugin {}", read, plugin)
    };
    let line = if shape.noperm { as_nobody(work) } else { catch_unwind(AssertUnwindSafe(work)).unwrap_or_else(|_| "panic".into()) };
    let _ = std::fs::remove_file(&path);
    if shape.noperm {
        ctx.count("load_no_read_permission");
    }
    let case = format!("load {} {}", enc_shape(shape), enc_grows(rows));
    ctx.emit(idx, case.clone(), line.clone());
    ctx.nontrivial(&case);
    ctx.count("load_geometry_file");
    if shape.gz {
        ctx.count("load_gzip");
    }
    // oracle: all rows in order, or a load error — never a table with a row skipped
    match intended_table(rows, shape) {
        None => {
            ctx.count("load_rejected");
            let only_nonfinite = shape.readable && shape.intact && rows.iter().all(|r| !matches!(r, GRow::Bad(k) if *k < NONFINITE_FROM));
            if line != "read err io | plugin err build" && only_nonfinite {
                ctx.fail(
                    idx,
                    "geometry_file/non-finite-coordinate-loaded",
                    format!("rows {:?}: the table loads with a coordinate that is NaN / infinite; the formats then disagree (wkt prints text its own loader rejects, geo_json prints null): {}", texts, line.chars().take(200).collect::<String>()),
                );
            } else if line != "read err io | plugin err build" {
                ctx.fail(idx, "geometry_file/bad-file-loaded", format!("rows {:?} shape {:?}: {}", texts, shape, line.chars().take(300).collect::<String>()));
            }
        }
        Some(t) => {
            let want = format!("read ok {} | plugin ok {} beyond err", show_table(&t), show_table(&t));
            if line != want {
                ctx.fail(idx, "geometry_file/rows-differ", format!("{} rows: {}", t.len(), line.chars().take(300).collect::<String>()));
            }
        }
    }
}

/// an `f64` whose eight bytes are ASCII and which is exactly an `f32`: the WKB text can live in a `String`
fn ascii_f64(rng: &mut Rng) -> f64 {
    let b = [0u8, 0, 0, [0x00u8, 0x20, 0x40, 0x60][rng.below(4)], rng.below(0x80) as u8, rng.below(0x80) as u8, rng.below(0x80) as u8, 0x40];
    f64::from_le_bytes(b)
}

fn wkb_row_case(ctx: &mut Ctx, idx: usize, rng: &mut Rng) {
    let kind = rng.below(6);
    let (case, bytes): (String, Vec<u8>) = match kind {
        0 => ("wkbrow other".into(), {
            let mut b = vec![1u8, 1, 0, 0, 0];
            b.extend(ascii_f64(rng).to_le_bytes());
            b.extend(ascii_f64(rng).to_le_bytes());
            b
        }),
        1 => match rng.below(6) {
            // the bytes end early
            0 => ("wkbrow trunc".into(), vec![]),
            1 => ("wkbrow trunc".into(), vec![1u8, 2, 0, 0, 0, 5, 0, 0, 0, 0, 0]),
            // big-endian marker
            2 => ("wkbrow be".into(), vec![0u8, 0, 0, 0, 2, 0, 0, 0, 0]),
            // what a hex-encoded WKB text row looks like to `row.as_bytes()`: first byte '0'
            3 => ("wkbrow order".into(), b"0102000000020000000000000000000040000000000000084000000000000010400000000000001440".to_vec()),
            4 => ("wkbrow order".into(), b"LINESTRING (1 2, 3 4)".to_vec()),
            _ => ("wkbrow type".into(), vec![1u8, 99, 0, 0, 0]),
        },
        _ => {
            let n = rng.below(7);
            let pts: Vec<(f64, f64)> = (0..n).map(|_| (ascii_f64(rng), ascii_f64(rng))).collect();
            let mut b = vec![1u8, 2, 0, 0, 0, n as u8, 0, 0, 0];
            for (x, y) in &pts {
                b.extend(x.to_le_bytes());
                b.extend(y.to_le_bytes());
            }
            let l: Vec<Pt> = pts.iter().map(|(x, y)| (*x as f32, *y as f32)).collect();
            (format!("wkbrow ls {}", join(&num_line(&l))), b)
        }
    };
    let row = String::from_utf8(bytes).expect("ascii wkb");
    if std::env::var("C20_DEBUG").is_ok() {
        eprintln!("WKBROW {} bytes {:?}", case, row.as_bytes());
    }
    let r = catch_unwind(AssertUnwindSafe(|| geo_io_utils::parse_wkb_linestring(0, row)));
    let line = match &r {
        Err(_) => "panic".to_string(),
        Ok(Err(_)) => "err io".to_string(),
        Ok(Ok(l)) => format!("ok {}", join(&num_line(&line_of_geo32(l)))),
    };
    ctx.emit(idx, case.clone(), line.clone());
    ctx.nontrivial(&case);
    ctx.count("parse_wkb_linestring");
    // oracle: a linestring comes back point for point; nothing else comes back as a linestring
    // (the panics of the `wkb` crate on a bad first byte / unknown type are modelled outcomes, not C20 failures)
    let bad = if kind >= 2 { line != format!("ok {}", &case["wkbrow ls ".len()..]) } else { line.starts_with("ok") };
    if bad {
        ctx.fail(idx, "parse_wkb_linestring/result", format!("{}: {}", case, line));
    }
    if line == "panic" {
        ctx.count("parse_wkb_linestring_panics");
    }
}

fn gen_uuid_rows(rng: &mut Rng, n: usize) -> Vec<String> {
    (0..n)
        .map(|i| match rng.below(10) {
            0 => String::new(),
            1 => format!("  padded {} ", i),
            2 => format!("caf\u{e9}-{}", i),
            3 => format!("a,b;\"q\",{}", i),
            4 => "same".to_string(),
            _ => format!("{:08x}-{}", rng.next() as u32, i),
        })
        .collect()
}

fn uuid_load_case(ctx: &mut Ctx, idx: usize, dir: &str, rows: &[String], shape: &FileShape) {
    let path = write_table_file(dir, &format!("uuidload_{}.txt", idx), rows, shape);
    let n = rows.len();
    if shape.readable && !shape.intact && !line_count_returns(&path) {
        let _ = std::fs::remove_file(&path);
        let case = format!("uuidload {} {} {}", enc_shape(shape), n, rows.iter().map(|s| jsonproto::hex(s)).collect::<Vec<_>>().join(" ")).trim_end().to_string();
        ctx.emit(idx, case, "diverges".into());
        ctx.count("load_diverges");
        ctx.fail(idx, "uuid_file/truncated-gzip-hangs", format!("fs_utils::line_count did not return within 5 s on a gzip file of {} rows cut off in the middle (reached from UUIDOutputPlugin::from_file)", n));
        return;
    }
    let work = || match UUIDOutputPlugin::from_file(&path) {
        Err(e) => err_kind(&e),
        Ok(p) => {
            let sr: Result<(SearchAppResult, SearchInstance), CompassAppError> = Ok((app_result(&[], &[]), search_instance()));
            let mut got = vec![];
            for i in 0..n {
                let mut out = json!({"request": {"origin_vertex": i, "destination_vertex": n - 1 - i}});
                match p.process(&mut out, &sr) {
                    Ok(()) => got.push(format!("{} {}", opt_hex(out.get("origin_vertex_uuid")), opt_hex(out.get("destination_vertex_uuid")))),
                    Err(e) => got.push(err_kind(&e)),
                }
            }
            let mut out = json!({"request": {"origin_vertex": 0, "destination_vertex": n}});
            let beyond = if p.process(&mut out, &sr).is_err() { "err" } else { "ok" };
            format!("ok {} {} beyond {}", n, got.join(" "), beyond).replace("  ", " ")
        }
    };
    let line = if shape.noperm { as_nobody(work) } else { catch_unwind(AssertUnwindSafe(work)).unwrap_or_else(|_| "panic".into()) };
    let _ = std::fs::remove_file(&path);
    let case = format!("uuidload {} {} {}", enc_shape(shape), n, rows.iter().map(|s| jsonproto::hex(s)).collect::<Vec<_>>().join(" ")).trim_end().to_string();
    ctx.emit(idx, case.clone(), line.clone());
    ctx.nontrivial(&case);
    ctx.count("load_uuid_file");
    let want = if !shape.readable || !shape.intact {
        "err build".to_string()
    } else {
        let got: Vec<String> = (0..n).map(|i| format!("s {} s {}", jsonproto::hex(&rows[i]), jsonproto::hex(&rows[n - 1 - i]))).collect();
        format!("ok {} {} beyond err", n, got.join(" ")).replace("  ", " ")
    };
    if line != want {
        ctx.fail(idx, "uuid_file/rows-differ", format!("rows {:?} shape {:?}: {}", rows, shape, line.chars().take(300).collect::<String>()));
    }
}

fn add_od_case(ctx: &mut Ctx, idx: usize, output: &Value, ou: &str, du: &str) {
    use routee_compass::plugin::output::default::uuid::output_json_extensions::UUIDJsonExtensions;
    let mut out = output.clone();
    let r = catch_unwind(AssertUnwindSafe(|| out.add_od_uuids(ou.to_string(), du.to_string())));
    let line = match &r {
        Err(_) => "panic".to_string(),
        Ok(Err(e)) => err_kind(e),
        Ok(Ok(())) => format!("ok {}", jsonproto::enc(&out)),
    };
    let case = format!("addod {} {} {}", jsonproto::hex(ou), jsonproto::hex(du), jsonproto::enc(output));
    ctx.emit(idx, case.clone(), line.clone());
    ctx.nontrivial(&case);
    ctx.count("add_od_uuids");
    let req_is_obj = output.get("request").map(|r| r.is_object()).unwrap_or(false);
    match &r {
        Ok(Ok(())) => {
            let rq = out.get("request");
            if !req_is_obj
                || rq.and_then(|r| r.get("origin_vertex_uuid")).and_then(|v| v.as_str()) != Some(ou)
                || rq.and_then(|r| r.get("destination_vertex_uuid")).and_then(|v| v.as_str()) != Some(du)
            {
                ctx.fail(idx, "add_od_uuids/result", line);
            }
        }
        Ok(Err(_)) => {
            if req_is_obj || out != *output {
                ctx.fail(idx, "add_od_uuids/unexpected-error", line);
            }
        }
        Err(_) => ctx.fail(idx, "add_od_uuids/panic", line),
    }
}

fn route_wkt_case(ctx: &mut Ctx, idx: usize, output: &Value) {
    use routee_compass::plugin::output::default::traversal::json_extensions::TraversalJsonExtensions;
    let r = catch_unwind(AssertUnwindSafe(|| output.get_route_geometry_wkt()));
    let line = match &r {
        Err(_) => "panic".to_string(),
        Ok(Err(e)) => err_kind(e),
        Ok(Ok(s)) => format!("ok {}", jsonproto::hex(s)),
    };
    ctx.emit(idx, format!("routewkt {}", jsonproto::enc(output)), line.clone());
    ctx.count("get_route_geometry_wkt");
    let want = output.get("route").and_then(|v| v.as_str());
    let ok = match (&r, want) {
        (Ok(Ok(s)), Some(w)) => s == w,
        (Ok(Err(_)), None) => true,
        _ => false,
    };
    if !ok {
        ctx.fail(idx, "get_route_geometry_wkt/result", line);
    }
}

fn fields_case(ctx: &mut Ctx, idx: usize) {
    use routee_compass::plugin::input::InputField;
    use routee_compass::plugin::output::default::traversal::json_extensions::TraversalJsonField;
    use routee_compass::plugin::output::default::uuid::output_json_extensions::UUIDJsonField as U;
    let mut names = vec![];
    let mut consistent = true;
    for mk in [|| U::Request, || U::OriginVertexId, || U::DestinationVertexId, || U::OriginVertexUUID, || U::DestinationVertexUUID] {
        let a = mk().as_str().to_string();
        let b = mk().to_string();
        let c = InputField::from(mk()).to_str().to_string();
        consistent &= a == b && b == c;
        names.push(a);
    }
    for f in [TraversalJsonField::RouteOutput, TraversalJsonField::TreeOutput] {
        consistent &= f.as_str() == f.to_string();
        names.push(f.as_str().to_string());
    }
    ctx.emit(idx, "fields".into(), names.join(" "));
    ctx.count("field_names");
    if !consistent {
        ctx.fail(idx, "field_names/inconsistent", names.join(" "));
    }
}

/// prefix encoding of a JSON value with numbers by lexeme only
fn enc_lex(v: &Value) -> String {
    match v {
        Value::Null => "z".into(),
        Value::Bool(true) => "t".into(),
        Value::Bool(false) => "f".into(),
        Value::Number(n) => format!("n {}", jsonproto::hex(&n.to_string())),
        Value::String(s) => format!("s {}", jsonproto::hex(s)),
        Value::Array(a) => {
            let mut s = format!("a {}", a.len());
            for x in a {
                s.push(' ');
                s.push_str(&enc_lex(x));
            }
            s
        }
        Value::Object(m) => {
            let mut s = format!("o {}", m.len());
            for (k, x) in m {
                s.push(' ');
                s.push_str(&jsonproto::hex(k));
                s.push(' ');
                s.push_str(&enc_lex(x));
            }
            s
        }
    }
}

fn summary_case(ctx: &mut Ctx, idx: usize, search_ok: bool, time: &str, millis: u64, iterations: u64, route_lens: &[usize], tree_sizes: &[usize], output: &Value) {
    use routee_compass_core::util::duration_extension::DurationExtension;
    let runtime = Duration::from_millis(millis);
    let runtime_text = runtime.hhmmss();
    let routes: Vec<Vec<Et>> = route_lens.iter().map(|n| (0..*n).map(one_edge).collect()).collect();
    let trees: Vec<Vec<Br>> = tree_sizes.iter().map(|n| (0..*n).map(|k| Br { key: k + 1, terminal: k, et: one_edge(k) }).collect()).collect();
    let sr: Result<(SearchAppResult, SearchInstance), CompassAppError> = if search_ok {
        let mut r = app_result(&routes, &trees);
        r.search_executed_time = time.to_string();
        r.search_runtime = runtime;
        r.iterations = iterations;
        Ok((r, search_instance()))
    } else {
        Err(CompassAppError::InternalError("search failed".into()))
    };
    let mut out = output.clone();
    // every other case builds the plugin the way the configuration does
    let plugin: Arc<dyn OutputPlugin> = if idx % 2 == 0 {
        Arc::new(SummaryOutputPlugin {})
    } else {
        routee_compass::plugin::output::default::summary::builder::SummaryOutputPluginBuilder {}.build(&json!({"type": "summary"})).expect("summary builder")
    };
    let r = catch_unwind(AssertUnwindSafe(|| plugin.process(&mut out, &sr)));
    let mut mib_ok = true;
    let line = match &r {
        Err(_) => "panic".to_string(),
        Ok(Err(e)) => err_kind(e),
        Ok(Ok(())) => {
            if search_ok {
                // memory sizes are not compared: checked to be a positive number, then blanked
                mib_ok = out.get("search_result_size_mib").and_then(|v| v.as_f64()).map(|x| x > 0.0).unwrap_or(false);
                if let Some(m) = out.as_object_mut() {
                    if m.contains_key("search_result_size_mib") {
                        m.insert("search_result_size_mib".into(), Value::Null);
                    }
                }
            }
            format!("ok {}", enc_lex(&out))
        }
    };
    let case = format!(
        "summary {} {} {} {} {} {} {}",
        search_ok as u8,
        jsonproto::hex(time),
        jsonproto::hex(&runtime_text),
        iterations,
        join(&std::iter::once(route_lens.len() as u64).chain(route_lens.iter().map(|x| *x as u64)).collect::<Vec<_>>()),
        join(&std::iter::once(tree_sizes.len() as u64).chain(tree_sizes.iter().map(|x| *x as u64)).collect::<Vec<_>>()),
        jsonproto::enc(output)
    );
    ctx.emit(idx, case.clone(), line.clone());
    ctx.nontrivial(&case);
    ctx.count(if !search_ok { "summary_search_failed" } else if line == "panic" { "summary_panic" } else { "summary_ok" });
    let assignable = output.is_object() || output.is_null();
    match &r {
        Ok(Ok(())) => {
            if !search_ok {
                if out != *output {
                    ctx.fail(idx, "summary/failed-search-modified", line);
                }
                return;
            }
            let re: usize = route_lens.iter().sum();
            let ts: usize = tree_sizes.iter().sum();
            if !assignable {
                ctx.fail(idx, "summary/wrote-into-non-object", line);
            } else if out.get("route_edges").and_then(|v| v.as_u64()) != Some(re as u64) || out.get("tree_size_count").and_then(|v| v.as_u64()) != Some(ts as u64) {
                ctx.fail(idx, "summary/route-edges", format!("{} edges {} branches: {}", re, ts, line));
            } else if out.get("iterations").and_then(|v| v.as_u64()) != Some(iterations) || out.get("search_executed_time").and_then(|v| v.as_str()) != Some(time) || !mib_ok {
                ctx.fail(idx, "summary/other-fields", line);
            } else if let Some(m) = output.as_object() {
                let ours = ["search_executed_time", "search_runtime", "route_edges", "tree_size_count", "search_result_size_mib", "iterations"];
                if m.iter().any(|(k, v)| !ours.contains(&k.as_str()) && out.get(k) != Some(v)) {
                    ctx.fail(idx, "summary/other-keys-changed", line);
                }
            }
        }
        Ok(Err(_)) => ctx.fail(idx, "summary/unexpected-error", line),
        Err(_) => {
            if !search_ok || assignable {
                ctx.fail(idx, "summary/panic", line);
            }
        }
    }
}

fn output_of_kind(kind: &str, stale: bool) -> Value {
    match kind {
        "null" => Value::Null,
        "arr" => json!([{"request": {}}]),
        "str" => json!("output"),
        _ => {
            if stale {
                json!({"request": {"origin_vertex": 0}, "route": "stale", "keep": [1, 2], "tree": "stale"})
            } else {
                json!({"request": {"origin_vertex": 0}, "keep": [1, 2]})
            }
        }
    }
}

fn show_resp_keys(v: &Value, route_fmt: Option<usize>, tree_fmt: Option<usize>, n_trees: usize) -> String {
    let route = match route_fmt {
        None => "n".to_string(),
        Some(f) => match v.get("route") {
            None => "missing".to_string(),
            Some(x) => match shape_route(FORMATS[f].0, x) {
                Ok(s) => format!("s {}", s),
                Err(k) => format!("unparsable {}", k),
            },
        },
    };
    let tree = match tree_fmt {
        None => "n".to_string(),
        Some(f) => match v.get("tree") {
            None => "missing".to_string(),
            Some(x) => match shape_tree(FORMATS[f].0, n_trees, x) {
                Ok(s) => format!("s {}", s),
                Err(k) => format!("unparsable {}", k),
            },
        },
    };
    format!("ok route {} tree {}", route, tree)
}

/// `TraversalPlugin::process` called directly
#[allow(clippy::too_many_arguments)]
fn tproc_case(ctx: &mut Ctx, idx: usize, dir: &str, search_ok: bool, kind: &str, stale: bool, table: &[Vec<Pt>], route_fmt: Option<usize>, tree_fmt: Option<usize>, routes: &[Vec<Et>], trees: &[Vec<Br>]) {
    let path = format!("{}/tproc_{}.txt", dir, idx);
    write_rows(&path, &table.iter().map(|l| wkt_row(l)).collect::<Vec<_>>());
    let plugin = TraversalPlugin::from_file(&path, route_fmt.map(|i| FORMATS[i].1), tree_fmt.map(|i| FORMATS[i].1));
    let _ = std::fs::remove_file(&path);
    let mut case = format!("tproc {} {} {} {} {} {}", search_ok as u8, kind, COST_SLOTS, enc_table(table), enc_optfmt(&route_fmt), enc_optfmt(&tree_fmt));
    case.push_str(&format!(" {}", routes.len()));
    for r in routes {
        case.push(' ');
        case.push_str(&enc_route(r));
    }
    case.push_str(&format!(" {}", trees.len()));
    for t in trees {
        case.push(' ');
        case.push_str(&enc_tree(t));
    }
    let case = case.replace("  ", " ");
    let Ok(plugin) = plugin else {
        ctx.emit(idx, case, "build-failed".into());
        ctx.fail(idx, "plugin/table-not-loaded", "traversal plugin".into());
        return;
    };
    let input = output_of_kind(kind, stale);
    let mut out = input.clone();
    let sr: Result<(SearchAppResult, SearchInstance), CompassAppError> =
        if search_ok { Ok((app_result(routes, trees), search_instance())) } else { Err(CompassAppError::InternalError("search failed".into())) };
    let r = catch_unwind(AssertUnwindSafe(|| plugin.process(&mut out, &sr)));
    let line = match &r {
        Err(_) => "panic".to_string(),
        Ok(Err(e)) => err_kind(e),
        Ok(Ok(())) => {
            if !search_ok {
                if out == input { "unchanged".to_string() } else { "modified".to_string() }
            } else {
                show_resp_keys(&out, route_fmt, tree_fmt, trees.len())
            }
        }
    };
    ctx.emit(idx, case.clone(), line.clone());
    ctx.nontrivial(&case);
    ctx.count(&format!("process_{}_{}_{}", if route_fmt.is_some() { "route" } else { "noroute" }, if tree_fmt.is_some() { "tree" } else { "notree" }, if search_ok { "ok" } else { "failed" }));
    // oracle
    if !search_ok {
        if line != "unchanged" {
            ctx.fail(idx, "traversal_plugin/failed-search-modified", line);
        }
        return;
    }
    let must_fail = route_fmt.map(|f| routes.iter().any(|r| r.is_empty() || r.last().map(|e| e.state.len() < COST_SLOTS).unwrap_or(false) || (uses_geometry(FORMATS[f].0) && r.iter().any(|e| e.edge >= table.len())))).unwrap_or(false)
        || tree_fmt.map(|f| uses_geometry(FORMATS[f].0) && trees.iter().any(|t| t.iter().any(|b| b.et.edge >= table.len()))).unwrap_or(false);
    let writes = route_fmt.is_some() || tree_fmt.is_some();
    let assignable = kind == "obj" || kind == "null";
    match &r {
        Ok(Ok(())) => {
            if must_fail {
                ctx.fail(idx, "traversal_plugin/missing-geometry-not-error", line.chars().take(300).collect());
            } else if writes && !assignable {
                ctx.fail(idx, "traversal_plugin/wrote-into-non-object", line.chars().take(300).collect());
            } else {
                if route_fmt.is_some() != out.get("route").map(|v| v != "stale").unwrap_or(false) && !(route_fmt.is_none() && out.get("route").is_none()) {
                    ctx.fail(idx, "traversal_plugin/route-key", format!("route configured {:?}, key {:?}", route_fmt.is_some(), out.get("route").is_some()));
                }
                if tree_fmt.is_some() != out.get("tree").map(|v| v != "stale").unwrap_or(false) && !(tree_fmt.is_none() && out.get("tree").is_none()) {
                    ctx.fail(idx, "traversal_plugin/tree-key", format!("tree configured {:?}, key {:?}", tree_fmt.is_some(), out.get("tree").is_some()));
                }
                if kind == "obj" && (out.get("keep") != input.get("keep") || out.get("request") != input.get("request")) {
                    ctx.fail(idx, "traversal_plugin/other-keys-changed", "keep/request".into());
                }
                if let (Some(f), Some(x)) = (route_fmt, out.get("route")) {
                    let rendered: Vec<&Value> = match x {
                        Value::Null => vec![],
                        Value::Array(a) => a.iter().collect(),
                        other => vec![other],
                    };
                    if rendered.len() != routes.len() {
                        ctx.fail(idx, "traversal_plugin/route-count", format!("{} rendered for {}", rendered.len(), routes.len()));
                    } else {
                        for (rt, rv) in routes.iter().zip(rendered) {
                            let parsed = rv.get("path").ok_or("route-without-path".to_string()).and_then(|p| parse_route_out(FORMATS[f].0, p));
                            check_route(ctx, idx, "traversal_plugin", FORMATS[f].0, table, rt, &parsed);
                        }
                    }
                }
                if let (Some(f), Some(x)) = (tree_fmt, out.get("tree")) {
                    let rendered: Vec<&Value> = match trees.len() {
                        0 => vec![],
                        1 => vec![x],
                        _ => x.as_array().map(|a| a.iter().collect()).unwrap_or_default(),
                    };
                    if rendered.len() != trees.len() {
                        ctx.fail(idx, "traversal_plugin/tree-count", format!("{} rendered for {}", rendered.len(), trees.len()));
                    } else {
                        for (t, tv) in trees.iter().zip(rendered) {
                            let parsed = parse_tree_out(FORMATS[f].0, tv);
                            check_tree(ctx, idx, "traversal_plugin", FORMATS[f].0, table, t, &parsed);
                        }
                    }
                }
            }
        }
        Ok(Err(_)) => {
            if !must_fail {
                ctx.fail(idx, "traversal_plugin/unexpected-error", line);
            }
        }
        Err(_) => {
            if assignable || !writes {
                ctx.fail(idx, "traversal_plugin/panic", line);
            }
        }
    }
}

#[derive(Clone, Debug)]
enum FileParam<T> {
    Absent,
    NotString,
    NoSuchFile,
    File(Vec<T>, FileShape),
}

fn enc_param(p: &Option<Value>) -> String {
    match p {
        None => "absent".into(),
        Some(v) => format!("json {}", jsonproto::enc(v)),
    }
}

fn gen_fmt_param(rng: &mut Rng) -> Option<Value> {
    match rng.below(24) {
        0..=4 => None,
        5 => Some(Value::Null),
        6 => Some(json!(3)),
        7 => Some(json!(["wkt"])),
        8 => Some(json!({"type": "wkt"})),
        9 => Some(json!(["WKT", "GeoJson", "geojson", "edge-id", "shapefile", "", "Json ", "edgeid"][rng.below(8)])),
        // serde's externally tagged form of a unit variant: a single-key object `{"<name>": null}` is accepted too
        10 | 11 => {
            let mut m = serde_json::Map::new();
            m.insert(FORMATS[rng.below(5)].0.to_string(), Value::Null);
            Some(Value::Object(m))
        }
        12 => Some(
            [
                json!({"wkt": 1}),
                json!({"wkt": []}),
                json!({"wkt": {}}),
                json!({"wkt": "wkt"}),
                json!({"wkt": false}),
                json!({"wkt": null, "wkb": null}),
                json!({"json": null, "x": 1}),
                json!({}),
                json!({"WKT": null}),
                json!({"shapefile": null}),
            ][rng.below(10)]
            .clone(),
        ),
        _ => Some(json!(FORMATS[rng.below(5)].0)),
    }
}

fn config_err_kind(e: &routee_compass::app::compass::config::compass_configuration_error::CompassConfigurationError) -> &'static str {
    use routee_compass::app::compass::config::compass_configuration_error::CompassConfigurationError as E;
    match e {
        E::ExpectedFieldForComponent(_, _) => "err expected-field",
        E::ExpectedFieldWithType(_, _) => "err field-type",
        E::FileNotFoundForComponent(_, _, _) => "err file-not-found",
        E::SerdeDeserializationError(_) => "err serde",
        E::PluginError(_) => "err plugin",
        _ => "err other",
    }
}

fn fmt_of_param(p: &Option<Value>) -> Result<Option<usize>, ()> {
    match p {
        None => Ok(None),
        Some(Value::String(s)) => FORMATS.iter().position(|(n, _)| n == s).map(Some).ok_or(()),
        // externally tagged unit variant: exactly one key, a format name, holding `null`
        Some(Value::Object(m)) if m.len() == 1 => match m.iter().next() {
            Some((k, Value::Null)) => FORMATS.iter().position(|(n, _)| n == k).map(Some).ok_or(()),
            _ => Err(()),
        },
        Some(_) => Err(()),
    }
}

fn build_traversal_case(ctx: &mut Ctx, idx: usize, dir: &str, file: &FileParam<GRow>, route: &Option<Value>, tree: &Option<Value>) {
    let mut params = serde_json::Map::new();
    params.insert("type".into(), json!("traversal"));
    let mut path_to_remove = None;
    let file_enc = match file {
        FileParam::Absent => "absent".to_string(),
        FileParam::NotString => {
            params.insert("geometry_input_file".into(), json!(17));
            "notstring".to_string()
        }
        FileParam::NoSuchFile => {
            params.insert("geometry_input_file".into(), json!(format!("{}/no_such_file_{}.txt", dir, idx)));
            "nofile".to_string()
        }
        FileParam::File(rows, shape) => {
            let path = write_table_file(dir, &format!("build_{}.txt", idx), &rows.iter().map(grow_text).collect::<Vec<_>>(), shape);
            if shape.readable && !shape.intact && !line_count_returns(&path) {
                let _ = std::fs::remove_file(&path);
                ctx.emit(idx, format!("build trav file {} {} {} {}", enc_shape(shape), enc_grows(rows), enc_param(route), enc_param(tree)), "diverges".into());
                ctx.count("load_diverges");
                ctx.fail(idx, "geometry_file/truncated-gzip-hangs", "TraversalPluginBuilder::build: fs_utils::line_count did not return within 5 s".into());
                return;
            }
            params.insert("geometry_input_file".into(), json!(path.clone()));
            path_to_remove = Some(path);
            format!("file {} {}", enc_shape(shape), enc_grows(rows))
        }
    };
    if let Some(v) = route {
        params.insert("route".into(), v.clone());
    }
    if let Some(v) = tree {
        params.insert("tree".into(), v.clone());
    }
    let case = format!("build trav {} {} {}", file_enc, enc_param(route), enc_param(tree));
    let noperm = matches!(file, FileParam::File(_, shape) if shape.noperm);
    if noperm {
        // exists but does not open: only the error arm matters; the builder runs as an unprivileged user
        let params = Value::Object(params);
        let line = as_nobody(|| match (TraversalPluginBuilder {}).build(&params) {
            Err(e) => config_err_kind(&e).to_string(),
            Ok(_) => "ok built-without-read-permission".to_string(),
        });
        if let Some(p) = path_to_remove {
            let _ = std::fs::remove_file(p);
        }
        ctx.emit(idx, case.clone(), line.clone());
        ctx.nontrivial(&case);
        ctx.count("build_no_read_permission");
        if line.starts_with("ok") {
            ctx.fail(idx, "traversal_builder/accepts-or-rejects-wrongly", format!("{} -> {}", case.chars().take(200).collect::<String>(), line));
        }
        return;
    }
    let built = catch_unwind(AssertUnwindSafe(|| TraversalPluginBuilder {}.build(&Value::Object(params))));
    if let Some(p) = path_to_remove {
        let _ = std::fs::remove_file(p);
    }
    // probe of a successful build: one route over row 0 (when there is one) and a one-branch tree
    let n_rows = match file {
        FileParam::File(rows, _) => rows.len(),
        _ => 0,
    };
    let probe_routes: Vec<Vec<Et>> = if n_rows > 0 { vec![vec![one_edge(0)]] } else { vec![] };
    let probe_trees: Vec<Vec<Br>> = vec![vec![Br { key: 1, terminal: 0, et: one_edge(0) }]];
    let want_route = fmt_of_param(route);
    let want_tree = fmt_of_param(tree);
    let line = match &built {
        Err(_) => "panic".to_string(),
        Ok(Err(e)) => config_err_kind(e).to_string(),
        Ok(Ok(plugin)) => {
            let sr: Result<(SearchAppResult, SearchInstance), CompassAppError> = Ok((app_result(&probe_routes, &probe_trees), search_instance()));
            let mut out = json!({});
            match catch_unwind(AssertUnwindSafe(|| plugin.process(&mut out, &sr))) {
                Err(_) => "ok probe panic".to_string(),
                Ok(Err(e)) => format!("ok probe {}", err_kind(&e)),
                Ok(Ok(())) => format!("ok probe {}", show_resp_keys(&out, want_route.unwrap_or(None), want_tree.unwrap_or(None), 1)),
            }
        }
    };
    ctx.emit(idx, case.clone(), line.clone());
    ctx.nontrivial(&case);
    ctx.count(if line.starts_with("ok") { "build_traversal_ok" } else { "build_traversal_rejected" });
    // oracle: a plugin is built only from a readable, fully parseable file and known format names
    let file_ok = match file {
        FileParam::File(rows, shape) => intended_table(rows, shape).is_some(),
        _ => false,
    };
    let should_build = file_ok && want_route.is_ok() && want_tree.is_ok();
    if should_build != line.starts_with("ok") {
        ctx.fail(idx, "traversal_builder/accepts-or-rejects-wrongly", format!("{} -> {}", case.chars().take(200).collect::<String>(), line.chars().take(200).collect::<String>()));
    }
}

fn build_uuid_case(ctx: &mut Ctx, idx: usize, dir: &str, file: &FileParam<String>) {
    let mut params = serde_json::Map::new();
    params.insert("type".into(), json!("uuid"));
    let mut path_to_remove = None;
    let file_enc = match file {
        FileParam::Absent => "absent".to_string(),
        FileParam::NotString => {
            params.insert("uuid_input_file".into(), json!({"path": "x"}));
            "notstring".to_string()
        }
        FileParam::NoSuchFile => {
            params.insert("uuid_input_file".into(), json!(format!("{}/no_such_file_{}.txt", dir, idx)));
            "nofile".to_string()
        }
        FileParam::File(rows, shape) => {
            let path = write_table_file(dir, &format!("buildu_{}.txt", idx), rows, shape);
            if shape.readable && !shape.intact && !line_count_returns(&path) {
                let _ = std::fs::remove_file(&path);
                ctx.emit(idx, format!("build uuid file {} {} {}", enc_shape(shape), rows.len(), rows.iter().map(|s| jsonproto::hex(s)).collect::<Vec<_>>().join(" ")).trim_end().to_string(), "diverges".into());
                ctx.count("load_diverges");
                ctx.fail(idx, "uuid_file/truncated-gzip-hangs", "UUIDOutputPluginBuilder::build: fs_utils::line_count did not return within 5 s".into());
                return;
            }
            params.insert("uuid_input_file".into(), json!(path.clone()));
            path_to_remove = Some(path);
            format!("file {} {} {}", enc_shape(shape), rows.len(), rows.iter().map(|s| jsonproto::hex(s)).collect::<Vec<_>>().join(" ")).trim_end().to_string()
        }
    };
    let case = format!("build uuid {}", file_enc);
    let noperm = matches!(file, FileParam::File(_, shape) if shape.noperm);
    if noperm {
        let params = Value::Object(params);
        let line = as_nobody(|| match (UUIDOutputPluginBuilder {}).build(&params) {
            Err(e) => config_err_kind(&e).to_string(),
            Ok(_) => "ok built-without-read-permission".to_string(),
        });
        if let Some(p) = path_to_remove {
            let _ = std::fs::remove_file(p);
        }
        ctx.emit(idx, case.clone(), line.clone());
        ctx.nontrivial(&case);
        ctx.count("build_no_read_permission");
        if line.starts_with("ok") {
            ctx.fail(idx, "uuid_builder/accepts-or-rejects-wrongly", format!("{} -> {}", case, line));
        }
        return;
    }
    let built = catch_unwind(AssertUnwindSafe(|| UUIDOutputPluginBuilder {}.build(&Value::Object(params))));
    if let Some(p) = path_to_remove {
        let _ = std::fs::remove_file(p);
    }
    let n = match file {
        FileParam::File(rows, _) => rows.len(),
        _ => 0,
    };
    let line = match &built {
        Err(_) => "panic".to_string(),
        Ok(Err(e)) => config_err_kind(e).to_string(),
        Ok(Ok(plugin)) => {
            // probe: origin = first row, destination = last row
            let sr: Result<(SearchAppResult, SearchInstance), CompassAppError> = Ok((app_result(&[], &[]), search_instance()));
            let mut out = json!({"request": {"origin_vertex": 0, "destination_vertex": n.saturating_sub(1)}});
            match plugin.process(&mut out, &sr) {
                Err(e) => format!("ok probe {}", err_kind(&e)),
                Ok(()) => format!("ok probe ok {} {}", opt_hex(out.get("origin_vertex_uuid")), opt_hex(out.get("destination_vertex_uuid"))),
            }
        }
    };
    ctx.emit(idx, case.clone(), line.clone());
    ctx.nontrivial(&case);
    ctx.count(if line.starts_with("ok") { "build_uuid_ok" } else { "build_uuid_rejected" });
    let should_build = matches!(file, FileParam::File(_, shape) if shape.readable && shape.intact);
    if should_build != line.starts_with("ok") {
        ctx.fail(idx, "uuid_builder/accepts-or-rejects-wrongly", format!("{} -> {}", case.chars().take(200).collect::<String>(), line));
    }
}

fn new_streams(ctx: &mut Ctx, dir: &str) {
    // hand-written first: blank line in the middle, wrong geometry type, CSV-prefixed rows, a clean gzip file
    let clean = FileShape { noperm: false, readable: true, intact: true, bad_utf8: false, gz: false, crlf: false, final_nl: true };
    let l0: Vec<Pt> = vec![(1.0, 2.0), (3.0, 4.0)];
    let l1: Vec<Pt> = vec![(5.0, 6.0), (7.0, 8.0), (9.0, 10.0)];
    for rows in [
        vec![GRow::Well(l0.clone(), 0), GRow::Bad(0), GRow::Well(l1.clone(), 0)],
        vec![GRow::Well(l0.clone(), 0), GRow::Bad(6)],
        vec![GRow::Bad(11), GRow::Bad(11)],
        vec![GRow::Well(l0.clone(), 0), GRow::Well(l1.clone(), 1), GRow::Well(vec![], 0)],
        vec![],
    ] {
        for shape in [clean, FileShape { gz: true, ..clean }, FileShape { crlf: true, final_nl: false, ..clean }] {
            if let Some(idx) = ctx.begin() {
                load_case(ctx, idx, dir, &rows, &shape);
            }
        }
    }
    // the single-key object form of a format name (audit witness): builds exactly like the plain name
    for (route, tree) in [
        (Some(json!({"wkt": null})), None),
        (Some(json!({"geo_json": null})), Some(json!({"edge_id": null}))),
        (Some(json!({"wkt": 1})), None),
        (None, Some(json!({"wkt": null, "wkb": null}))),
        (Some(json!({})), None),
    ] {
        if let Some(idx) = ctx.begin() {
            build_traversal_case(ctx, idx, dir, &FileParam::File(vec![GRow::Well(l0.clone(), 0), GRow::Well(l1.clone(), 0)], clean), &route, &tree);
        }
    }
    // witness of the (fixed) acceptance of non-finite coordinates: `+NaN`, an infinity, a literal beyond f32
    for k in [14usize, 16, 17] {
        if let Some(idx) = ctx.begin() {
            load_case(ctx, idx, dir, &[GRow::Well(l0.clone(), 0), GRow::Bad(k), GRow::Well(l1.clone(), 0)], &clean);
        }
    }
    // finite coordinates at the ends of the f32 range, trailing columns after the geometry
    if let Some(idx) = ctx.begin() {
        load_case(ctx, idx, dir, &[GRow::Well(vec![(3.0e38, 0.0), (-3.0e38, 0.0)], 0), GRow::Well(l0.clone(), 6), GRow::Well(l1.clone(), 9)], &clean);
    }
    // a lookup file that exists but does not open (mode 000, caller uid 65534): the loader's error, wrapped by the
    // builder as a plugin error — not "file not found"
    if is_root() {
        let locked = FileShape { noperm: true, readable: false, ..clean };
        if let Some(idx) = ctx.begin() {
            build_traversal_case(ctx, idx, dir, &FileParam::File(vec![GRow::Well(l0.clone(), 0)], locked), &Some(json!("wkt")), &None);
        }
        if let Some(idx) = ctx.begin() {
            build_uuid_case(ctx, idx, dir, &FileParam::File(vec!["a".to_string()], locked));
        }
        if let Some(idx) = ctx.begin() {
            load_case(ctx, idx, dir, &[GRow::Well(l0.clone(), 0)], &locked);
        }
    }
    // witness of the (fixed) line_count hang: a two-row gzip geometry file and a uuid file cut off in the middle
    let cut = FileShape { gz: true, intact: false, ..clean };
    if let Some(idx) = ctx.begin() {
        load_case(ctx, idx, dir, &[GRow::Well(l0.clone(), 0), GRow::Well(l1.clone(), 0)], &cut);
    }
    if let Some(idx) = ctx.begin() {
        uuid_load_case(ctx, idx, dir, &["a".to_string(), "b".to_string()], &cut);
    }
    // a line that is not UTF-8: counted, then rejected by the row reader
    let garbled = FileShape { intact: false, bad_utf8: true, ..clean };
    if let Some(idx) = ctx.begin() {
        load_case(ctx, idx, dir, &[GRow::Well(l0.clone(), 0), GRow::Well(l1.clone(), 0)], &garbled);
    }
    if let Some(idx) = ctx.begin() {
        uuid_load_case(ctx, idx, dir, &["a".to_string(), "b".to_string()], &garbled);
    }
    if let Some(idx) = ctx.begin() {
        build_uuid_case(ctx, idx, dir, &FileParam::File(vec!["a".to_string()], garbled));
    }
    if let Some(idx) = ctx.begin() {
        build_uuid_case(ctx, idx, dir, &FileParam::File(vec!["a".to_string(), "b".to_string()], cut));
    }
    if let Some(idx) = ctx.begin() {
        fields_case(ctx, idx);
    }
    for out in [
        json!({"route": "LINESTRING(1 2,3 4)"}),
        json!({"request": {}, "route": {"path": "LINESTRING(1 2,3 4)"}}),
        json!({"request": {}}),
        json!({"route": null}),
        json!(["route"]),
        json!({"route": ""}),
    ] {
        if let Some(idx) = ctx.begin() {
            route_wkt_case(ctx, idx, &out);
        }
    }
    // uuid ids at the boundaries of the table and of the integer types
    let table3: Vec<String> = vec!["a".into(), "b".into(), "c".into()];
    let big: Value = serde_json::from_str("18446744073709551615").unwrap();
    let too_big: Value = serde_json::from_str("18446744073709551616").unwrap();
    for (o, d) in [
        (json!(0), json!(2)),
        (json!(2), json!(0)),
        (json!(3), json!(0)),
        (json!(0), json!(3)),
        (big.clone(), json!(0)),
        (json!(0), big.clone()),
        (too_big.clone(), json!(0)),
        (json!(0), json!(4294967296u64)),
        (json!(-0.0), json!(1)),
        (json!(1), json!(2.0)),
        (json!(-1), json!(1)),
        (json!("1"), json!(1)),
        (json!(1), json!(true)),
    ] {
        if let Some(idx) = ctx.begin() {
            uuid_case(ctx, idx, dir, true, &table3, &json!({"request": {"origin_vertex": o, "destination_vertex": d}}));
        }
    }
    if let Some(idx) = ctx.begin() {
        uuid_case(ctx, idx, dir, true, &[], &json!({"request": {"origin_vertex": 0, "destination_vertex": 0}}));
    }

    let n_load = ctx.n(150, 4000);
    for _ in 0..n_load {
        let Some(idx) = ctx.begin() else { continue };
        let mut rng = Rng::for_case(ctx.seed, 20, idx as u64);
        let n = if rng.chance(1, 10) { 0 } else { 1 + rng.below(12) };
        let bad = if rng.chance(1, 2) { 0 } else { 4 + rng.below(6) as u64 };
        let rows = gen_grows(&mut rng, n, bad);
        let last_empty = matches!(rows.last(), Some(GRow::Bad(0)));
        let shape = gen_file_shape(&mut rng, n, last_empty);
        load_case(ctx, idx, dir, &rows, &shape);
    }
    let n_wkb = ctx.n(60, 1500);
    for _ in 0..n_wkb {
        let Some(idx) = ctx.begin() else { continue };
        let mut rng = Rng::for_case(ctx.seed, 20, idx as u64);
        wkb_row_case(ctx, idx, &mut rng);
    }
    let n_uload = ctx.n(100, 3000);
    for _ in 0..n_uload {
        let Some(idx) = ctx.begin() else { continue };
        let mut rng = Rng::for_case(ctx.seed, 20, idx as u64);
        let n = rng.below(10);
        let rows = gen_uuid_rows(&mut rng, n);
        let last_empty = rows.last().map(|s| s.is_empty()).unwrap_or(false);
        let shape = gen_file_shape(&mut rng, n, last_empty);
        uuid_load_case(ctx, idx, dir, &rows, &shape);
    }
    let n_addod = ctx.n(80, 2000);
    for _ in 0..n_addod {
        let Some(idx) = ctx.begin() else { continue };
        let mut rng = Rng::for_case(ctx.seed, 20, idx as u64);
        let mut out = gen_uuid_output(&mut rng, 5);
        if rng.chance(1, 4) {
            // the identifiers are already present inside the request: positions are kept
            if let Some(rq) = out.get_mut("request").and_then(|r| r.as_object_mut()) {
                rq.insert("destination_vertex_uuid".into(), json!("old"));
                rq.insert("z".into(), json!(1));
            }
        }
        let ou = format!("o-{}", rng.below(100));
        let du = if rng.chance(1, 6) { ou.clone() } else { format!("d-{}", rng.below(100)) };
        add_od_case(ctx, idx, &out, &ou, &du);
    }
    let n_sum = ctx.n(120, 3000);
    for _ in 0..n_sum {
        let Some(idx) = ctx.begin() else { continue };
        let mut rng = Rng::for_case(ctx.seed, 20, idx as u64);
        let search_ok = !rng.chance(1, 6);
        let output = match rng.below(10) {
            0 => Value::Null,
            1 => json!([1, 2]),
            2 => json!("text"),
            3 => json!(7),
            4 => json!(true),
            5 => json!({"request": {"origin_vertex": 1}, "route_edges": "stale", "iterations": 3, "zz": null}),
            _ => json!({"request": gen_request(&mut rng, 5), "route": {"path": [1, 2]}}),
        };
        let n_routes = rng.below(4);
        let route_lens: Vec<usize> = (0..n_routes).map(|_| rng.below(30)).collect();
        let n_trees = rng.below(3);
        let tree_sizes: Vec<usize> = (0..n_trees).map(|_| rng.below(30)).collect();
        let iterations = match rng.below(6) {
            0 => 0,
            1 => u64::MAX,
            _ => rng.below(1_000_000) as u64,
        };
        let millis = match rng.below(5) {
            0 => 0,
            1 => 86_400_000 * (1 + rng.below(3) as u64) + rng.below(100_000) as u64,
            _ => rng.below(10_000_000) as u64,
        };
        let time = format!("2026-09-26T0{}:{:02}:00+00:00", rng.below(10), rng.below(60));
        summary_case(ctx, idx, search_ok, &time, millis, iterations, &route_lens, &tree_sizes, &output);
    }
    // TraversalPlugin::process directly: every format x {route, tree, both, none} x {success, error result}
    let n_tproc = ctx.n(216, 4320);
    for k in 0..n_tproc {
        let Some(idx) = ctx.begin() else { continue };
        let mut rng = Rng::for_case(ctx.seed, 20, idx as u64);
        let combo = k % 72;
        let route_fmt = if combo % 6 == 5 { None } else { Some(combo % 6) };
        let tree_fmt = if (combo / 6) % 6 == 5 { None } else { Some((combo / 6) % 6) };
        let search_ok = combo / 36 == 0 || rng.chance(1, 2);
        let kind = match rng.below(8) {
            0 => "null",
            1 => "arr",
            2 => "str",
            _ => "obj",
        };
        let n_rows = 1 + rng.below(12);
        let share = rng.chance(1, 2);
        let table = gen_table(&mut rng, n_rows, false, share);
        let bound = if rng.chance(1, 5) { n_rows + 1 } else { n_rows };
        let n_routes = match rng.below(6) {
            0 => 0,
            1 => 2,
            _ => 1,
        };
        let routes: Vec<Vec<Et>> = (0..n_routes)
            .map(|_| {
                let len = if rng.chance(1, 20) { 0 } else { 1 + rng.below(10) };
                let mut r = gen_route(&mut rng, len, bound, Some(1));
                if rng.chance(1, 15) {
                    if let Some(e) = r.last_mut() {
                        e.state.clear();
                    }
                }
                r
            })
            .collect();
        let n_trees = match rng.below(6) {
            0 => 0,
            1 => 2,
            _ => 1,
        };
        let trees: Vec<Vec<Br>> = (0..n_trees)
            .map(|_| {
                let size = rng.below(10);
                gen_tree(&mut rng, size, bound, Some(1))
            })
            .collect();
        let stale = rng.chance(1, 4);
        tproc_case(ctx, idx, dir, search_ok, kind, stale, &table, route_fmt, tree_fmt, &routes, &trees);
    }
    // the configuration builders
    let n_build = ctx.n(200, 4000);
    for _ in 0..n_build {
        let Some(idx) = ctx.begin() else { continue };
        let mut rng = Rng::for_case(ctx.seed, 20, idx as u64);
        if rng.chance(1, 4) {
            let file = match rng.below(8) {
                0 => FileParam::Absent,
                1 => FileParam::NotString,
                2 => FileParam::NoSuchFile,
                _ => {
                    let n = rng.below(8);
                    let rows = gen_uuid_rows(&mut rng, n);
                    let last_empty = rows.last().map(|s| s.is_empty()).unwrap_or(false);
                    let shape = gen_file_shape(&mut rng, n, last_empty);
                    FileParam::File(rows, shape)
                }
            };
            build_uuid_case(ctx, idx, dir, &file);
        } else {
            let file = match rng.below(10) {
                0 => FileParam::Absent,
                1 => FileParam::NotString,
                2 => FileParam::NoSuchFile,
                _ => {
                    let n = rng.below(8);
                    let bad = if rng.chance(3, 4) { 0 } else { 5 };
                    let rows = gen_grows(&mut rng, n, bad);
                    let last_empty = matches!(rows.last(), Some(GRow::Bad(0)));
                    let shape = gen_file_shape(&mut rng, n, last_empty);
                    FileParam::File(rows, shape)
                }
            };
            let route = gen_fmt_param(&mut rng);
            let tree = gen_fmt_param(&mut rng);
            build_traversal_case(ctx, idx, dir, &file, &route, &tree);
        }
    }
}

// ---------------------------------------------------------------------------------------------

fn gen_uuid_table(rng: &mut Rng, n: usize) -> Vec<String> {
    (0..n)
        .map(|i| match rng.below(8) {
            0 => format!("dup-{}", rng.below(3)),
            1 => format!("way/{} node {}", rng.below(100000), i),
            _ => format!("{:08x}-{:04x}-{}", rng.next() as u32, rng.next() as u16, i),
        })
        .collect()
}

fn gen_vertex_value(rng: &mut Rng, n: usize) -> Value {
    match rng.below(12) {
        0 => json!(n + rng.below(3)),
        1 => json!(-(rng.below(4) as i64) - 1),
        2 => json!(rng.below(n.max(1)) as f64),
        3 => json!(format!("{}", rng.below(n.max(1)))),
        4 => Value::Null,
        _ => json!(rng.below(n.max(1))),
    }
}

fn gen_request(rng: &mut Rng, n: usize) -> Value {
    let mut m = serde_json::Map::new();
    if rng.chance(1, 3) {
        m.insert("query_id".into(), json!(rng.below(1000)));
    }
    let dest_first = rng.chance(1, 4);
    if dest_first && !rng.chance(1, 8) {
        m.insert("destination_vertex".into(), gen_vertex_value(rng, n));
    }
    if !rng.chance(1, 10) {
        m.insert("origin_vertex".into(), gen_vertex_value(rng, n));
    }
    if !dest_first && !rng.chance(1, 8) {
        m.insert("destination_vertex".into(), gen_vertex_value(rng, n));
    }
    if rng.chance(1, 4) {
        m.insert("weights".into(), json!({"distance": 1.0}));
    }
    Value::Object(m)
}

fn gen_uuid_output(rng: &mut Rng, n: usize) -> Value {
    match rng.below(14) {
        0 => Value::Null,
        1 => json!([{"request": {"origin_vertex": 0, "destination_vertex": 0}}]),
        2 => json!("request"),
        3 => json!({"route": [1, 2]}),
        4 => json!({"request": [0, 1]}),
        5 => json!({"request": null}),
        _ => {
            let mut m = serde_json::Map::new();
            if rng.chance(1, 4) {
                // a key that is already present keeps its position
                m.insert("destination_vertex_uuid".into(), json!("stale"));
            }
            m.insert("request".into(), gen_request(rng, n));
            if rng.chance(1, 2) {
                m.insert("route".into(), json!({"path": [rng.below(9), rng.below(9)]}));
            }
            if rng.chance(1, 5) {
                m.insert("origin_vertex_uuid".into(), json!("stale"));
            }
            Value::Object(m)
        }
    }
}

pub fn run(ctx: &mut Ctx) -> &'static str {
    let dir = scratch_dir();
    let app = search_app();

    // ---- corpus: hand-written cases first -------------------------------------------------------
    // the unit test's three-edge route, every format
    let t0: Vec<Vec<Pt>> = vec![vec![(1.0, 0.0), (1.0, 0.0), (1.0, 1.0)], vec![(2.0, 2.0), (2.0, 3.0)], vec![(3.0, 3.0), (3.0, 4.0)]];
    let r0 = vec![
        Et { edge: 0, acc: 0.0, trav: 10.0, state: vec![10.0] },
        Et { edge: 1, acc: 5.0, trav: 9.0, state: vec![24.0] },
        Et { edge: 2, acc: 0.0, trav: 11.0, state: vec![35.0] },
    ];
    for f in 0..5 {
        if let Some(idx) = ctx.begin() {
            route_case(ctx, idx, f, &t0, &r0);
        }
    }
    // a route whose middle edge has no geometry row; an empty route; a route that repeats an edge
    let r1 = vec![r0[0].clone(), Et { edge: 7, acc: 1.0, trav: 2.0, state: vec![] }, r0[2].clone()];
    let r2 = vec![r0[1].clone(), r0[1].clone(), r0[0].clone(), r0[1].clone()];
    for f in 0..5 {
        if let Some(idx) = ctx.begin() {
            route_case(ctx, idx, f, &t0, &r1);
        }
        if let Some(idx) = ctx.begin() {
            route_case(ctx, idx, f, &t0, &[]);
        }
        if let Some(idx) = ctx.begin() {
            route_case(ctx, idx, f, &t0, &r2);
        }
    }
    // trees: empty, one branch, three branches with one missing row
    let tr1 = vec![Br { key: 4, terminal: 0, et: r0[1].clone() }];
    let tr3 = vec![
        Br { key: 1, terminal: 0, et: r0[0].clone() },
        Br { key: 2, terminal: 1, et: r0[2].clone() },
        Br { key: 3, terminal: 1, et: Et { edge: 3, acc: 0.5, trav: 0.25, state: vec![1.5] } },
    ];
    for f in 0..5 {
        if let Some(idx) = ctx.begin() {
            tree_case(ctx, idx, f, &t0, &[]);
        }
        if let Some(idx) = ctx.begin() {
            tree_case(ctx, idx, f, &t0, &tr1);
        }
        if let Some(idx) = ctx.begin() {
            tree_case(ctx, idx, f, &t0, &tr3);
        }
    }
    // responses: missing row in the middle of the route, every geometry format; empty route; uuid without destination
    let ids0: Vec<String> = vec!["a".into(), "b".into(), "c".into()];
    for f in 0..5 {
        if let Some(idx) = ctx.begin() {
            let plugins = vec![PluginSpec::Traversal { table: t0.clone(), route: Some(f), tree: None }, PluginSpec::Summary, PluginSpec::Uuid { table: ids0.clone() }];
            resp_case(ctx, idx, &dir, &app, true, &json!({"origin_vertex": 0, "destination_vertex": 2}), &plugins, &[r1.clone()], &[tr1.clone()], None, false);
        }
        if let Some(idx) = ctx.begin() {
            let plugins = vec![PluginSpec::Traversal { table: t0.clone(), route: Some(f), tree: Some(f) }, PluginSpec::Summary, PluginSpec::Uuid { table: ids0.clone() }];
            resp_case(ctx, idx, &dir, &app, true, &json!({"origin_vertex": 2, "destination_vertex": 1}), &plugins, &[r0.clone()], &[tr1.clone()], None, false);
        }
    }
    if let Some(idx) = ctx.begin() {
        let plugins = vec![PluginSpec::Traversal { table: t0.clone(), route: Some(0), tree: None }];
        resp_case(ctx, idx, &dir, &app, true, &json!({"origin_vertex": 1, "destination_vertex": 1}), &plugins, &[vec![]], &[vec![]], None, false);
    }
    if let Some(idx) = ctx.begin() {
        let plugins = vec![PluginSpec::Traversal { table: t0.clone(), route: None, tree: Some(0) }, PluginSpec::Uuid { table: ids0.clone() }];
        resp_case(ctx, idx, &dir, &app, true, &json!({"origin_vertex": 1}), &plugins, &[], &[tr1.clone()], None, false);
    }

    // ---- generated: generate_route_output -------------------------------------------------------
    let n_route = ctx.n(120, 6000);
    for k in 0..n_route {
        // the same route and table through all five formats
        let mut base = Rng::for_case(ctx.seed, 20, 1_000_000 + k as u64);
        let n_rows = 1 + base.below(30);
        let degenerate = base.chance(1, 5);
        let share = base.chance(1, 2);
        let table = gen_table(&mut base, n_rows, degenerate, share);
        let len = match base.below(10) {
            0 => 0,
            1 => 1,
            2 => 40,
            _ => base.below(41),
        };
        let bound = if base.chance(1, 3) { n_rows + 1 + base.below(3) } else { n_rows };
        let mut route = gen_route(&mut base, len, bound, None);
        if base.chance(1, 4) && route.len() >= 2 {
            // a contiguous-looking route: consecutive ids
            let s = base.below(n_rows);
            for (j, e) in route.iter_mut().enumerate() {
                e.edge = (s + j) % n_rows;
            }
        }
        let mut table = table;
        if base.chance(1, 8) {
            // zeros, a negative zero, subnormals and the ends of the f32 range: the f32 -> f64 widening of the WKB
            // and GeoJSON writers and the WKT printing meet every class of finite value
            let exotic = [0.0f32, -0.0, f32::from_bits(1), f32::from_bits(0x0040_0001), -f32::from_bits(0x007f_ffff), f32::MIN_POSITIVE, f32::MAX, f32::MIN, 1.0e-40, 16777216.0];
            for l in table.iter_mut() {
                for p in l.iter_mut() {
                    if base.chance(1, 3) {
                        p.0 = exotic[base.below(exotic.len())];
                    }
                    if base.chance(1, 3) {
                        p.1 = exotic[base.below(exotic.len())];
                    }
                }
            }
        }
        for f in 0..5 {
            let Some(idx) = ctx.begin() else { continue };
            route_case(ctx, idx, f, &table, &route);
        }
        if k % 4 == 0 {
            // the same route over the table with NaNs and infinities put in (in-memory tables only)
            let nonfinite = [f32::NAN, -f32::NAN, f32::from_bits(0x7F80_0001), f32::from_bits(0xFFA0_0000), f32::from_bits(0x7FFF_FFFF), f32::INFINITY, f32::NEG_INFINITY];
            let mut t2 = table.clone();
            for l in t2.iter_mut() {
                for p in l.iter_mut() {
                    if base.chance(1, 3) {
                        p.0 = nonfinite[base.below(nonfinite.len())];
                    }
                    if base.chance(1, 4) {
                        p.1 = nonfinite[base.below(nonfinite.len())];
                    }
                }
            }
            if let Some(idx) = ctx.begin() {
                wkb_hex_case(ctx, idx, &t2, &route);
            }
        }
    }
    // ---- generated: generate_tree_output --------------------------------------------------------
    let n_tree = ctx.n(80, 4000);
    for k in 0..n_tree {
        let mut base = Rng::for_case(ctx.seed, 20, 2_000_000 + k as u64);
        let n_rows = 1 + base.below(30);
        let degenerate = base.chance(1, 5);
        let table = gen_table(&mut base, n_rows, degenerate, false);
        let size = match base.below(8) {
            0 => 0,
            1 => 1,
            _ => base.below(31),
        };
        let bound = if base.chance(1, 3) { n_rows + 1 + base.below(3) } else { n_rows };
        let tree = gen_tree(&mut base, size, bound, None);
        let mut table = table;
        if base.chance(1, 8) {
            // zeros, subnormals and the ends of the f32 range in tree geometries too
            let exotic = [0.0f32, -0.0, f32::from_bits(1), f32::from_bits(0x0040_0001), f32::MIN_POSITIVE, f32::MAX, f32::MIN, 3.0e38, 1.0e-40];
            for l in table.iter_mut() {
                for p in l.iter_mut() {
                    if base.chance(1, 3) {
                        p.0 = exotic[base.below(exotic.len())];
                    }
                    if base.chance(1, 3) {
                        p.1 = exotic[base.below(exotic.len())];
                    }
                }
            }
        }
        for f in 0..5 {
            let Some(idx) = ctx.begin() else { continue };
            tree_case(ctx, idx, f, &table, &tree);
        }
    }
    // ---- generated: traversal_ops ---------------------------------------------------------------
    let n_ops = ctx.n(120, 5000);
    for _ in 0..n_ops {
        let Some(idx) = ctx.begin() else { continue };
        let mut rng = Rng::for_case(ctx.seed, 20, idx as u64);
        let n_rows = 1 + rng.below(20);
        let share = rng.chance(1, 2);
        let table = gen_table(&mut rng, n_rows, true, share);
        let bound = if rng.chance(1, 3) { n_rows + 2 } else { n_rows };
        let len = rng.below(25);
        let route = gen_route(&mut rng, len, bound, None);
        let size = rng.below(15);
        let tree = gen_tree(&mut rng, size, bound, None);
        ops_case(ctx, idx, &table, &route, &tree);
    }
    // ---- generated: UUIDOutputPlugin::process ---------------------------------------------------
    let n_uuid = ctx.n(200, 8000);
    for _ in 0..n_uuid {
        let Some(idx) = ctx.begin() else { continue };
        let mut rng = Rng::for_case(ctx.seed, 20, idx as u64);
        let n = rng.below(12);
        let table = gen_uuid_table(&mut rng, n);
        let output = gen_uuid_output(&mut rng, n);
        let search_ok = !rng.chance(1, 10);
        uuid_case(ctx, idx, &dir, search_ok, &table, &output);
    }
    // ---- generated: apply_output_processing with real plugins -----------------------------------
    let n_resp = ctx.n(150, 6000);
    for _ in 0..n_resp {
        let Some(idx) = ctx.begin() else { continue };
        let mut rng = Rng::for_case(ctx.seed, 20, idx as u64);
        let n_rows = 1 + rng.below(25);
        let share = rng.chance(1, 2);
        let table = gen_table(&mut rng, n_rows, false, share);
        let bound = if rng.chance(1, 4) { n_rows + 1 + rng.below(2) } else { n_rows };
        let n_routes = match rng.below(8) {
            0 => 0,
            1 => 2,
            2 => 3,
            _ => 1,
        };
        let routes: Vec<Vec<Et>> = (0..n_routes)
            .map(|_| {
                let len = if rng.chance(1, 25) { 0 } else { 1 + rng.below(20) };
                let mut r = gen_route(&mut rng, len, bound, Some(1));
                if rng.chance(1, 20) {
                    if let Some(e) = r.last_mut() {
                        e.state.clear();
                    }
                }
                r
            })
            .collect();
        let n_trees = match rng.below(8) {
            0 => 0,
            1 => 2,
            _ => 1,
        };
        let trees: Vec<Vec<Br>> = (0..n_trees)
            .map(|_| {
                let size = rng.below(20);
                gen_tree(&mut rng, size, bound, Some(1))
            })
            .collect();
        let n_vertices = 2 + rng.below(10);
        let mut plugins = vec![];
        let fmt_opt = |rng: &mut Rng| if rng.chance(1, 5) { None } else { Some(rng.below(5)) };
        if !rng.chance(1, 12) {
            plugins.push(PluginSpec::Traversal { table: table.clone(), route: fmt_opt(&mut rng), tree: fmt_opt(&mut rng) });
        }
        if rng.chance(3, 4) {
            plugins.push(PluginSpec::Summary);
        }
        if rng.chance(2, 3) {
            plugins.push(PluginSpec::Uuid { table: gen_uuid_table(&mut rng, n_vertices) });
        }
        if rng.chance(1, 10) {
            // a second traversal plugin overwrites the keys of the first
            let t2 = gen_table(&mut rng, n_rows, false, false);
            plugins.push(PluginSpec::Traversal { table: t2, route: fmt_opt(&mut rng), tree: None });
        }
        if rng.chance(1, 3) {
            rng.shuffle(&mut plugins);
        }
        let req = if rng.chance(3, 4) { json!({"origin_vertex": rng.below(n_vertices), "destination_vertex": rng.below(n_vertices)}) } else { gen_request(&mut rng, n_vertices) };
        let search_ok = !rng.chance(1, 15);
        resp_case(ctx, idx, &dir, &app, search_ok, &req, &plugins, &routes, &trees, None, false);
    }
    // ---- generated: real searches, plugins built through the configuration builders --------------
    let n_e2e = ctx.n(150, 8000);
    for _ in 0..n_e2e {
        let Some(idx) = ctx.begin() else { continue };
        let mut rng = Rng::for_case(ctx.seed, 20, idx as u64);
        e2e_case(ctx, idx, &dir, &mut rng);
    }
    // ---- loaders, row parsers, builders, direct `process` calls (appended: earlier case indices are stable) ----
    new_streams(ctx, &dir);
    let _ = std::fs::remove_dir_all(&dir);
    let _ = fbits(0.0);
    "hand-written corpus (the unit test's route, a missing row in the middle, empty route, repeated edges, small trees, responses with a missing row per format) then random routes of 0..40 edges with repeated ids, random trees of 0..30 branches, random WKT geometry tables of 1..30 rows with 2..6 (sometimes 0/1) distinctive points, ids beyond the table in a third of the cases; each route/tree through all five formats; traversal_ops functions directly; UUID plugin on well- and ill-formed outputs; apply_output_processing with file-built TraversalPlugin/Summary/UUID plugins; real searches (Dijkstra, A*, single-via KSP; vertex/edge oriented) through builder-made plugins; lookup-table files (plain/CRLF/gzip, 14 kinds of malformed WKT row, missing file, gzip cut off in the middle, non-UTF-8 line) through read_linestring_text_file, TraversalPlugin::from_file, UUIDOutputPlugin::from_file and the three builders with absent/ill-typed/unknown parameters; parse_wkb_linestring, add_od_uuids, get_route_geometry_wkt, field names; SummaryOutputPlugin::process and TraversalPlugin::process called directly for every format x {route, tree, both, none} x {successful, failed search} x {object, null, non-object output}; uuid ids at the table and integer boundaries; non-trivial = route or tree with at least two entries, every other case; distinct by full case text"
}
