//! Shared machinery for the search-based properties (C01 C02 C03 C04 C05 C10 C13):
//! a plain-data description of a search instance, construction of the REAL routee-compass objects
//! from it, execution with the pop-trace hook, protocol encoding for the Lean driver
//! (lean/Compass/Drv/Search.lean), canonical output, and generators.
use crate::ctx::fbits;
use crate::rng::Rng;
use routee_compass::app::compass::config::frontier_model::combined::combined_model::CombinedFrontierModel;
use routee_compass::app::compass::config::frontier_model::road_class::road_class_parser::RoadClassParser;
use routee_compass::app::compass::config::frontier_model::road_class::road_class_service::RoadClassFrontierService;
use routee_compass::app::compass::config::frontier_model::turn_restrictions::turn_restriction_service::{
    RestrictedEdgePair, TurnRestrictionFrontierService,
};
use routee_compass::app::compass::config::frontier_model::vehicle_restrictions::vehicle_restriction::VehicleRestriction;
use routee_compass::app::compass::config::frontier_model::vehicle_restrictions::vehicle_restriction_service::VehicleRestrictionFrontierService;
use routee_compass_core::algorithm::search::a_star::a_star_algorithm::verif_hook;
use routee_compass_core::algorithm::search::direction::Direction;
use routee_compass_core::algorithm::search::edge_traversal::EdgeTraversal;
use routee_compass_core::algorithm::search::search_algorithm::SearchAlgorithm;
use routee_compass_core::algorithm::search::search_algorithm_result::SearchAlgorithmResult;
use routee_compass_core::algorithm::search::search_error::SearchError;
use routee_compass_core::algorithm::search::search_instance::SearchInstance;
use routee_compass_core::algorithm::search::search_tree_branch::SearchTreeBranch;
use routee_compass_core::algorithm::search::util::edge_cut_frontier_model::EdgeCutFrontierModel;
use routee_compass_core::model::access::access_model::AccessModel;
use routee_compass_core::model::access::default::no_access_model::NoAccessModel;
use routee_compass_core::model::access::default::turn_delays::edge_heading::EdgeHeading;
use routee_compass_core::model::access::default::turn_delays::turn::Turn;
use routee_compass_core::model::access::default::turn_delays::turn_delay_access_model::TurnDelayAccessModel;
use routee_compass_core::model::access::default::turn_delays::turn_delay_access_model_engine::TurnDelayAccessModelEngine;
use routee_compass_core::model::access::default::turn_delays::turn_delay_model::TurnDelayModel;
use routee_compass_core::model::cost::cost_aggregation::CostAggregation;
use routee_compass_core::model::cost::cost_model::CostModel;
use routee_compass_core::model::cost::network::network_cost_rate::NetworkCostRate;
use routee_compass_core::model::cost::vehicle::vehicle_cost_rate::VehicleCostRate;
use routee_compass_core::model::frontier::frontier_model::FrontierModel;
use routee_compass_core::model::frontier::frontier_model_service::FrontierModelService;
use routee_compass_core::model::network::edge_id::EdgeId;
use routee_compass_core::model::network::graph::Graph;
use routee_compass_core::model::network::vertex_id::VertexId;
use routee_compass_core::model::network::{Edge, Vertex};
use routee_compass_core::model::state::state_feature::StateFeature;
use routee_compass_core::model::state::state_model::StateModel;
use routee_compass_core::model::termination::termination_model::{verif_clock, TerminationModel};
use routee_compass_core::model::traversal::default::distance_traversal_model::DistanceTraversalModel;
use routee_compass_core::model::traversal::default::speed_traversal_engine::{get_max_speed, SpeedTraversalEngine};
use routee_compass_core::model::traversal::default::speed_traversal_model::SpeedTraversalModel;
use routee_compass_core::model::traversal::traversal_model::TraversalModel;
use routee_compass_core::model::unit::as_f64::AsF64;
use routee_compass_core::model::unit::*;
use routee_compass_core::util::compact_ordered_hash_map::CompactOrderedHashMap;
use routee_compass_core::util::geo::haversine;
use std::collections::{HashMap, HashSet};
use std::sync::Arc;
use std::time::Duration;

pub const DU: [DistanceUnit; 5] = [
    DistanceUnit::Meters,
    DistanceUnit::Kilometers,
    DistanceUnit::Miles,
    DistanceUnit::Inches,
    DistanceUnit::Feet,
];
pub const TU: [TimeUnit; 4] = [TimeUnit::Hours, TimeUnit::Minutes, TimeUnit::Seconds, TimeUnit::Milliseconds];
pub const SU: [SpeedUnit; 3] = [SpeedUnit::KilometersPerHour, SpeedUnit::MilesPerHour, SpeedUnit::MetersPerSecond];
pub const WU: [WeightUnit; 3] = [WeightUnit::Pounds, WeightUnit::Tons, WeightUnit::Kg];

#[derive(Clone, Debug)]
pub enum FeatK {
    D(DistanceUnit),
    T(TimeUnit),
    X,
}

#[derive(Clone, Debug)]
pub enum Trav {
    Dist(DistanceUnit),
    Speed { su: SpeedUnit, du: DistanceUnit, tu: TimeUnit, table: Vec<f64> },
}

#[derive(Clone, Debug)]
pub enum Acc {
    None,
    Turn { tu: TimeUnit, headings: Vec<(i16, Option<i16>)>, delays: [Option<f64>; 8] },
}

#[derive(Clone, Debug)]
pub enum VR {
    Zero,
    Raw,
    Factor(f64),
    Offset(f64),
    Combined(Vec<VR>),
}

#[derive(Clone, Debug)]
pub enum NR {
    Zero,
    Edge(Vec<(usize, f64)>),
    EdgeEdge(Vec<(usize, usize, f64)>),
    Combined(Vec<NR>),
}

#[derive(Clone, Debug)]
pub enum Restr {
    Weight { per_axle: bool, limit: f64, unit: WeightUnit },
    /// which: 2 length, 3 width, 4 height, 5 trailer length
    Length { which: u8, limit: f64, unit: DistanceUnit },
}

#[derive(Clone, Debug)]
pub struct VParams {
    pub height: (f64, DistanceUnit),
    pub width: (f64, DistanceUnit),
    pub total_length: (f64, DistanceUnit),
    pub trailer_length: (f64, DistanceUnit),
    pub total_weight: (f64, WeightUnit),
    pub axles: u8,
}

#[derive(Clone, Debug)]
pub enum Fr {
    /// allowed classes (None = no filter in the query), per-edge class table
    RoadClass { allowed: Option<Vec<u8>>, by_name: bool, table: Vec<u8> },
    TurnRestriction(Vec<(usize, usize)>),
    Vehicle { rows: Vec<(usize, Vec<Restr>)>, params: VParams },
    EdgeCut(Vec<usize>),
}

#[derive(Clone, Debug)]
pub enum Term {
    Runtime { limit_ns: u64, freq: u64, base_ns: u64, per_ns: u64 },
    Size(usize),
    Iters(u64),
    Combined(Vec<Term>),
}

/// which components of the search instance are built the way the application builds them: through
/// the builder / service types of `routee_compass::app::compass::config` from a JSON configuration and
/// files written for the case (speed table, edge headings, road classes, turn restrictions, vehicle
/// restrictions), then `service.build(&query)`.  Everything off = constructed in code.
#[derive(Clone, Debug, Default, PartialEq, Eq)]
pub struct AppBuild {
    pub trav: bool,
    pub access: bool,
    pub frontier: bool,
    /// leave `distance_unit` / `time_unit` out of the traversal configuration when they are the defaults
    pub omit_default_units: bool,
    /// write the row files gzip-compressed
    pub gzip: bool,
}

impl AppBuild {
    pub fn any(&self) -> bool {
        self.trav || self.access || self.frontier
    }
}

#[derive(Clone, Debug)]
pub struct SCase {
    pub coords: Vec<(f32, f32)>,
    pub edges: Vec<(usize, usize, f64)>,
    pub feats: Vec<(String, FeatK, f64)>,
    pub trav: Trav,
    pub access: Acc,
    pub weights: Vec<(String, f64)>,
    pub vrates: Vec<(String, VR)>,
    pub nrates: Vec<(String, NR)>,
    pub agg_mul: bool,
    pub frontier: Vec<Fr>,
    pub term: Term,
    pub reverse: bool,
    pub edge_oriented: bool,
    pub source: usize,
    pub target: Option<usize>,
    /// None = Dijkstra; Some(w) = A* with configured weight factor w (None = default 1)
    pub astar: Option<Option<f64>>,
    /// weight_factor given in the query (overrides the configured one)
    pub query_wf: Option<f64>,
    /// build the cost model through `CostModelService::build` (the application's path):
    /// (weights from query, vehicle rates from query, aggregation from query, ignore_unknown_weights);
    /// whatever does not come from the query comes from the service's configured values, and the
    /// configured values that ARE overridden are decoys. None = `CostModel::new` directly.
    pub svc: Option<(bool, bool, bool, bool)>,
    /// build the termination model from a JSON configuration through the application's
    /// `TerminationModelBuilder` (runtime limits must then be whole seconds)
    pub term_via_builder: bool,
    /// (with `svc`) the weights carry a name the state model does not have: dropped silently when
    /// ignore_unknown_weights is set, otherwise the service must refuse to build
    pub svc_unknown_weight: bool,
    pub app: AppBuild,
}

pub struct Built {
    pub si: SearchInstance,
    pub graph: Arc<Graph>,
    pub alg: SearchAlgorithm,
    pub query: serde_json::Value,
    /// cost vectors in state-model order, as `CostModel::new` derives them
    pub cost_weights: Vec<f64>,
    pub cost_vrates: Vec<VR>,
    pub cost_nrates: Vec<NR>,
    pub max_speed: f64,
}

fn vr_real(v: &VR) -> VehicleCostRate {
    match v {
        VR::Zero => VehicleCostRate::Zero,
        VR::Raw => VehicleCostRate::Raw,
        VR::Factor(f) => VehicleCostRate::Factor { factor: *f },
        VR::Offset(o) => VehicleCostRate::Offset { offset: *o },
        VR::Combined(vs) => VehicleCostRate::Combined(vs.iter().map(vr_real).collect()),
    }
}

fn nr_real(v: &NR) -> NetworkCostRate {
    match v {
        NR::Zero => NetworkCostRate::Zero,
        NR::Edge(t) => NetworkCostRate::EdgeLookup {
            lookup: t.iter().map(|(e, c)| (EdgeId(*e), Cost::new(*c))).collect(),
        },
        NR::EdgeEdge(t) => NetworkCostRate::EdgeEdgeLookup {
            lookup: t.iter().map(|(p, n, c)| ((EdgeId(*p), EdgeId(*n)), Cost::new(*c))).collect(),
        },
        NR::Combined(vs) => NetworkCostRate::Combined(vs.iter().map(nr_real).collect()),
    }
}

fn term_real(t: &Term) -> TerminationModel {
    match t {
        Term::Runtime { limit_ns, freq, .. } => TerminationModel::QueryRuntimeLimit {
            limit: Duration::from_nanos(*limit_ns),
            frequency: *freq,
        },
        Term::Size(l) => TerminationModel::SolutionSizeLimit { limit: *l },
        Term::Iters(l) => TerminationModel::IterationsLimit { limit: *l },
        Term::Combined(ms) => TerminationModel::Combined { models: ms.iter().map(term_real).collect() },
    }
}

fn term_json(t: &Term) -> serde_json::Value {
    match t {
        Term::Runtime { limit_ns, freq, .. } => {
            let secs = limit_ns / 1_000_000_000;
            serde_json::json!({"type": "query_runtime", "limit": format!("{}:{:02}:{:02}", secs / 3600, (secs / 60) % 60, secs % 60), "frequency": freq})
        }
        Term::Size(l) => serde_json::json!({"type": "solution_size", "limit": l}),
        Term::Iters(l) => serde_json::json!({"type": "iterations", "limit": l}),
        Term::Combined(ms) => serde_json::json!({"type": "combined", "models": ms.iter().map(term_json).collect::<Vec<_>>()}),
    }
}

fn first_clock(t: &Term) -> Option<(u64, u64)> {
    match t {
        Term::Runtime { base_ns, per_ns, .. } => Some((*base_ns, *per_ns)),
        Term::Combined(ms) => ms.iter().filter_map(first_clock).next(),
        _ => None,
    }
}

/// all runtime limits of one case share one virtual clock (the hook is per thread)
pub fn normalise_clock(t: &mut Term, clock: (u64, u64)) {
    match t {
        Term::Runtime { base_ns, per_ns, .. } => {
            *base_ns = clock.0;
            *per_ns = clock.1;
        }
        Term::Combined(ms) => ms.iter_mut().for_each(|m| normalise_clock(m, clock)),
        _ => {}
    }
}

const TURNS: [Turn; 8] = [
    Turn::NoTurn,
    Turn::SlightRight,
    Turn::SlightLeft,
    Turn::Right,
    Turn::Left,
    Turn::SharpRight,
    Turn::SharpLeft,
    Turn::UTurn,
];

pub fn turn_index_by_name(name: &str) -> Option<usize> {
    // serde names in the source order of the enum; the Lean side uses Turn.toNat generated from the source
    ["no_turn", "slight_right", "slight_left", "right", "left", "sharp_right", "sharp_left", "u_turn"]
        .iter()
        .position(|n| *n == name)
}

pub fn class_name(c: u8) -> String {
    format!("class{}", c)
}


// ---------------------------------------------------------------------------------------------
// files written for one case (removed again before `build` returns)

static SCRATCH_SEQ: std::sync::atomic::AtomicUsize = std::sync::atomic::AtomicUsize::new(0);

/// a fresh directory under the harness's work directory; removed on drop
pub struct Scratch {
    pub dir: std::path::PathBuf,
}

impl Scratch {
    pub fn new() -> Scratch {
        let k = SCRATCH_SEQ.fetch_add(1, std::sync::atomic::Ordering::Relaxed);
        let dir = std::env::current_dir()
            .unwrap_or_else(|_| std::path::PathBuf::from("."))
            .join("work")
            .join(format!("search_files_{}", std::process::id()))
            .join(k.to_string());
        std::fs::create_dir_all(&dir).expect("scratch dir");
        Scratch { dir }
    }
    /// write `text` (gzip-compressed when asked) and return the path as a string
    pub fn file(&self, name: &str, text: &str, gzip: bool) -> String {
        let path = self.dir.join(name);
        if gzip {
            use std::io::Write;
            let f = std::fs::File::create(&path).expect("scratch file");
            let mut enc = flate2::write::GzEncoder::new(f, flate2::Compression::fast());
            enc.write_all(text.as_bytes()).expect("scratch write");
            enc.finish().expect("scratch finish");
        } else {
            std::fs::write(&path, text).expect("scratch write");
        }
        path.to_string_lossy().into_owned()
    }
    pub fn path(&self, name: &str) -> String {
        self.dir.join(name).to_string_lossy().into_owned()
    }
}

impl Drop for Scratch {
    fn drop(&mut self) {
        let _ = std::fs::remove_dir_all(&self.dir);
        if let Some(parent) = self.dir.parent() {
            let _ = std::fs::remove_dir(parent); // only succeeds once it is empty
        }
    }
}

pub const TURN_NAMES: [&str; 8] = ["no_turn", "slight_right", "slight_left", "right", "left", "sharp_right", "sharp_left", "u_turn"];

/// text of a speed table file: one speed per line (Rust prints the shortest text that parses back
/// to the same double)
pub fn speed_file_text(table: &[f64]) -> String {
    table.iter().map(|s| format!("{}\n", s)).collect()
}

pub fn headings_file_text(headings: &[(i16, Option<i16>)]) -> String {
    let mut t = String::from("arrival_heading,departure_heading\n");
    for (a, d) in headings {
        match d {
            Some(d) => t.push_str(&format!("{},{}\n", a, d)),
            None => t.push_str(&format!("{},\n", a)),
        }
    }
    t
}

pub fn turn_delay_model_json(tu: &TimeUnit, delays: &[Option<f64>; 8]) -> serde_json::Value {
    let mut table = serde_json::Map::new();
    for (i, d) in delays.iter().enumerate() {
        if let Some(d) = d {
            table.insert(TURN_NAMES[i].to_string(), serde_json::json!(d));
        }
    }
    serde_json::json!({"type": "tabular_discrete", "table": table, "time_unit": tu.to_string()})
}

pub fn restriction_name(r: &Restr) -> &'static str {
    match r {
        Restr::Weight { per_axle: false, .. } => "maximum_total_weight",
        Restr::Weight { per_axle: true, .. } => "maximum_weight_per_axle",
        Restr::Length { which: 2, .. } => "maximum_length",
        Restr::Length { which: 3, .. } => "maximum_width",
        Restr::Length { which: 4, .. } => "maximum_height",
        Restr::Length { .. } => "maximum_trailer_length",
    }
}

pub fn vehicle_restriction_file_text(rows: &[(usize, Vec<Restr>)]) -> String {
    let mut t = String::from("edge_id,restriction_name,restriction_value,restriction_unit\n");
    for (e, rs) in rows {
        for r in rs {
            let (v, u) = match r {
                Restr::Weight { limit, unit, .. } => (*limit, unit.to_string()),
                Restr::Length { limit, unit, .. } => (*limit, unit.to_string()),
            };
            t.push_str(&format!("{},{},{},{}\n", e, restriction_name(r), v, u));
        }
    }
    t
}

pub fn vehicle_parameters_json(params: &VParams) -> serde_json::Value {
    serde_json::json!({
        "height": [params.height.0, params.height.1.to_string()],
        "width": [params.width.0, params.width.1.to_string()],
        "total_length": [params.total_length.0, params.total_length.1.to_string()],
        "trailer_length": [params.trailer_length.0, params.trailer_length.1.to_string()],
        "total_weight": [params.total_weight.0, params.total_weight.1.to_string()],
        "number_of_axles": params.axles,
    })
}

/// the frontier-model builders the application registers (compass_app_builder.rs), for `combined`
pub fn frontier_builders() -> HashMap<String, std::rc::Rc<dyn routee_compass_core::model::frontier::frontier_model_builder::FrontierModelBuilder>> {
    use routee_compass::app::compass::config::frontier_model::{
        no_restriction_builder::NoRestrictionBuilder, road_class::road_class_builder::RoadClassBuilder,
        turn_restrictions::turn_restriction_builder::TurnRestrictionBuilder,
        vehicle_restrictions::vehicle_restriction_builder::VehicleRestrictionBuilder,
    };
    use routee_compass_core::model::frontier::frontier_model_builder::FrontierModelBuilder;
    use std::rc::Rc;
    let mut m: HashMap<String, Rc<dyn FrontierModelBuilder>> = HashMap::new();
    m.insert("no_restriction".into(), Rc::new(NoRestrictionBuilder {}));
    m.insert("road_class".into(), Rc::new(RoadClassBuilder {}));
    m.insert("turn_restriction".into(), Rc::new(TurnRestrictionBuilder {}));
    m.insert("vehicle_restriction".into(), Rc::new(VehicleRestrictionBuilder {}));
    m
}

pub fn road_class_mapping_json() -> serde_json::Value {
    let mut mapping = serde_json::Map::new();
    for cl in 0u8..8 {
        mapping.insert(class_name(cl), serde_json::json!(cl));
    }
    serde_json::Value::Object(mapping)
}

pub fn build_graph(c: &SCase) -> Graph {
    let vertices: Vec<Vertex> = c.coords.iter().enumerate().map(|(i, (x, y))| Vertex::new(i, *x, *y)).collect();
    let edges: Vec<Edge> = c.edges.iter().enumerate().map(|(i, (s, d, l))| Edge::new(i, *s, *d, *l)).collect();
    let mut adj = vec![CompactOrderedHashMap::empty(); vertices.len()];
    let mut rev = vec![CompactOrderedHashMap::empty(); vertices.len()];
    for e in &edges {
        adj[e.src_vertex_id.0].insert(e.edge_id, e.dst_vertex_id);
        rev[e.dst_vertex_id.0].insert(e.edge_id, e.src_vertex_id);
    }
    Graph {
        adj: adj.into_boxed_slice(),
        rev: rev.into_boxed_slice(),
        edges: edges.into_boxed_slice(),
        vertices: vertices.into_boxed_slice(),
    }
}

/// builds the real objects; Err(kind) when a component refuses the configuration (a `build` outcome)
pub fn build(c: &SCase) -> Result<Built, String> {
    let graph = Arc::new(build_graph(c));
    let feats: Vec<(String, StateFeature)> = c
        .feats
        .iter()
        .map(|(n, k, init)| {
            let f = match k {
                FeatK::D(u) => StateFeature::Distance { distance_unit: *u, initial: Distance::new(*init) },
                FeatK::T(u) => StateFeature::Time { time_unit: *u, initial: Time::new(*init) },
                FeatK::X => serde_json::from_value(serde_json::json!({
                    "type": "custom", "unit": "x",
                    "format": {"floating_point": {"initial": *init}}
                }))
                .map_err(|e| format!("custom feature: {}", e))
                .unwrap(),
            };
            (n.clone(), f)
        })
        .collect();
    // as in the application, the query's declaration lands on a model that already holds the feature: first the
    // section-level declaration (the traversal / access model's own unit, counted from 0), then the query's
    // own — same names, same kinds, in the same order — which must replace unit and initial value
    let (bdu, btu) = match &c.trav {
        Trav::Dist(du) => (Some(*du), None),
        Trav::Speed { du, tu, .. } => (Some(*du), Some(*tu)),
    };
    let btu = btu.or(match &c.access {
        Acc::Turn { tu, .. } => Some(*tu),
        Acc::None => None,
    });
    let base: Vec<(String, StateFeature)> = feats
        .iter()
        .map(|(n, f)| {
            let g = match f {
                StateFeature::Distance { distance_unit, .. } => StateFeature::Distance { distance_unit: bdu.unwrap_or(*distance_unit), initial: Distance::new(0.0) },
                StateFeature::Time { time_unit, .. } => StateFeature::Time { time_unit: btu.unwrap_or(*time_unit), initial: Time::new(0.0) },
                other => other.clone(),
            };
            (n.clone(), g)
        })
        .collect();
    let state_model = Arc::new(
        StateModel::empty().extend(base).and_then(|m| m.extend(feats)).map_err(|e| format!("state: {}", e))?,
    );
    let mut max_speed = 0.0;
    let scratch = if c.app.any() { Some(Scratch::new()) } else { None };
    // the query starts empty; the cost-model overrides, road classes, vehicle parameters and the
    // weight factor are added below.  The traversal / access services of the application ignore it.
    let traversal_model: Arc<dyn TraversalModel> = match &c.trav {
        Trav::Dist(du) if c.app.trav => {
            use routee_compass::app::compass::config::traversal_model::distance_traversal_builder::DistanceTraversalBuilder;
            use routee_compass_core::model::traversal::traversal_model_builder::TraversalModelBuilder;
            let mut cfg = serde_json::Map::new();
            cfg.insert("type".into(), serde_json::json!("distance"));
            if !(c.app.omit_default_units && *du == BASE_DISTANCE_UNIT) {
                cfg.insert("distance_unit".into(), serde_json::json!(du.to_string()));
            }
            let service = DistanceTraversalBuilder {}.build(&serde_json::Value::Object(cfg)).map_err(|e| format!("traversal: {}", e))?;
            service.build(&serde_json::json!({})).map_err(|e| format!("traversal: {}", e))?
        }
        Trav::Speed { su, du, tu, table } if c.app.trav => {
            use routee_compass::app::compass::config::traversal_model::speed_lookup_builder::SpeedLookupBuilder;
            use routee_compass_core::model::traversal::traversal_model_builder::TraversalModelBuilder;
            let sc = scratch.as_ref().unwrap();
            let path = sc.file("speeds.txt", &speed_file_text(table), c.app.gzip);
            let mut cfg = serde_json::Map::new();
            cfg.insert("type".into(), serde_json::json!("speed_table"));
            cfg.insert("speed_table_input_file".into(), serde_json::json!(path));
            cfg.insert("speed_unit".into(), serde_json::json!(su.to_string()));
            if !(c.app.omit_default_units && *du == BASE_DISTANCE_UNIT) {
                cfg.insert("distance_unit".into(), serde_json::json!(du.to_string()));
            }
            if !(c.app.omit_default_units && *tu == BASE_TIME_UNIT) {
                cfg.insert("time_unit".into(), serde_json::json!(tu.to_string()));
            }
            // the engine the builder constructs is not reachable through the service trait object:
            // the same constructor call gives the maximum speed the model is told about
            let engine = SpeedTraversalEngine::new(
                &path,
                *su,
                if c.app.omit_default_units && *du == BASE_DISTANCE_UNIT { None } else { Some(*du) },
                if c.app.omit_default_units && *tu == BASE_TIME_UNIT { None } else { Some(*tu) },
            )
            .map_err(|e| format!("speed: {}", e))?;
            max_speed = engine.max_speed.as_f64();
            let service = SpeedLookupBuilder {}.build(&serde_json::Value::Object(cfg)).map_err(|e| format!("speed: {}", e))?;
            service.build(&serde_json::json!({})).map_err(|e| format!("traversal: {}", e))?
        }
        Trav::Dist(du) => Arc::new(DistanceTraversalModel::new(*du)),
        Trav::Speed { su, du, tu, table } => {
            let speed_table: Box<[Speed]> = table.iter().map(|s| Speed::new(*s)).collect();
            let ms = get_max_speed(&speed_table).map_err(|e| format!("speed: {}", e))?;
            max_speed = ms.as_f64();
            let engine = SpeedTraversalEngine {
                speed_table,
                speed_unit: *su,
                time_unit: *tu,
                distance_unit: *du,
                max_speed: ms,
            };
            Arc::new(SpeedTraversalModel::new(Arc::new(engine)))
        }
    };
    let access_model: Arc<dyn AccessModel> = match &c.access {
        Acc::None => Arc::new(NoAccessModel {}),
        Acc::Turn { tu, headings, delays } if c.app.access => {
            use routee_compass::app::compass::config::access_model::turn_delay_access_model_builder::TurnDelayAccessModelBuilder;
            use routee_compass_core::model::access::access_model_builder::AccessModelBuilder;
            let sc = scratch.as_ref().unwrap();
            let path = sc.file("headings.csv", &headings_file_text(headings), c.app.gzip);
            let cfg = serde_json::json!({
                "type": "turn_delay",
                "edge_heading_input_file": path,
                "turn_delay_model": turn_delay_model_json(tu, delays),
            });
            let service = TurnDelayAccessModelBuilder {}.build(&cfg).map_err(|e| format!("access: {}", e))?;
            service.build(&serde_json::json!({})).map_err(|e| format!("access: {}", e))?
        }
        Acc::Turn { tu, headings, delays } => {
            let edge_headings: Vec<EdgeHeading> = headings
                .iter()
                .map(|(a, d)| match d {
                    Some(d) => EdgeHeading::new(*a, *d),
                    None => serde_json::from_value(serde_json::json!({"arrival_heading": *a})).unwrap(),
                })
                .collect();
            let mut table: HashMap<Turn, Time> = HashMap::new();
            for (i, d) in delays.iter().enumerate() {
                if let Some(d) = d {
                    let t: Turn = serde_json::from_value(serde_json::json!(
                        ["no_turn", "slight_right", "slight_left", "right", "left", "sharp_right", "sharp_left", "u_turn"][i]
                    ))
                    .unwrap();
                    table.insert(t, Time::new(*d));
                }
            }
            let _ = &TURNS;
            let engine = TurnDelayAccessModelEngine {
                edge_headings: edge_headings.into_boxed_slice(),
                turn_delay_model: TurnDelayModel::TabularDiscrete { table, time_unit: *tu },
                time_feature_name: String::from("time"),
            };
            Arc::new(TurnDelayAccessModel { engine: Arc::new(engine) })
        }
    };
    let weights: HashMap<String, f64> = c.weights.iter().cloned().collect();
    let vrates: HashMap<String, VehicleCostRate> = c.vrates.iter().map(|(n, v)| (n.clone(), vr_real(v))).collect();
    let nrates: HashMap<String, NetworkCostRate> = c.nrates.iter().map(|(n, v)| (n.clone(), nr_real(v))).collect();
    let agg = if c.agg_mul { CostAggregation::Mul } else { CostAggregation::Sum };
    let mut svc_query = serde_json::Map::new();
    let cost_model = match c.svc {
        None => CostModel::new(Arc::new(weights), Arc::new(vrates), Arc::new(nrates), agg, state_model.clone())
            .map_err(|e| format!("cost: {}", e))?,
        Some((qw, qv, qa, ignore_unknown)) => {
            // query overrides; a Combined rate cannot be written as JSON (internally tagged sequence)
            let vr_json: Option<serde_json::Value> = if qv { serde_json::to_value(&vrates).ok() } else { None };
            let qv = qv && vr_json.is_some();
            let mut weights_cfg = weights.clone();
            let mut weights_q = weights.clone();
            if c.svc_unknown_weight {
                // a weight for a feature the state model does not have: dropped silently when
                // ignore_unknown_weights is set, refused otherwise
                weights_cfg.insert("no_such_feature".into(), 3.0);
                weights_q.insert("no_such_feature".into(), 3.0);
            }
            if qw {
                svc_query.insert("weights".into(), serde_json::json!(weights_q));
                for (_, w) in weights_cfg.iter_mut() {
                    *w += 1.0; // decoy
                }
            }
            let mut vrates_cfg = vrates.clone();
            if qv {
                svc_query.insert("vehicle_rates".into(), vr_json.unwrap());
                for (_, v) in vrates_cfg.iter_mut() {
                    *v = VehicleCostRate::Factor { factor: 2.0 }; // decoy
                }
            }
            let agg_cfg = if qa {
                svc_query.insert("cost_aggregation".into(), serde_json::json!(if c.agg_mul { "mul" } else { "sum" }));
                if c.agg_mul { CostAggregation::Sum } else { CostAggregation::Mul } // decoy
            } else {
                agg
            };
            let service = routee_compass::app::compass::config::cost_model::cost_model_service::CostModelService {
                vehicle_rates: Arc::new(vrates_cfg),
                network_rates: Arc::new(nrates),
                weights: Arc::new(weights_cfg),
                cost_aggregation: agg_cfg,
                ignore_unknown_weights: ignore_unknown,
            };
            service
                .build(&serde_json::Value::Object(svc_query.clone()), state_model.clone())
                .map_err(|e| format!("cost: {}", e))?
        }
    };
    // the vectors CostModel::new derives, in state-model order (independent re-derivation)
    let mut cost_weights = vec![];
    let mut cost_vrates = vec![];
    let mut cost_nrates = vec![];
    for (_, (name, _)) in state_model.indexed_iter() {
        cost_weights.push(c.weights.iter().find(|(n, _)| n == name).map(|(_, w)| *w).unwrap_or(0.0));
        cost_vrates.push(c.vrates.iter().find(|(n, _)| n == name).map(|(_, v)| v.clone()).unwrap_or(VR::Zero));
        cost_nrates.push(c.nrates.iter().find(|(n, _)| n == name).map(|(_, v)| v.clone()).unwrap_or(NR::Zero));
    }
    // query: road classes, vehicle parameters, weight factor
    let mut query = serde_json::Value::Object(svc_query);
    let mut inner: Vec<Arc<dyn FrontierModel>> = vec![];
    let mut cut: Option<HashSet<EdgeId>> = None;
    let mut app_frontier: Option<Arc<dyn FrontierModel>> = None;
    if c.app.frontier {
        // one configuration object per model, files written for the case; a single model goes through
        // its own builder, any other number through the `combined` builder with the application's
        // registry; query fields as a user writes them
        use routee_compass::app::compass::config::frontier_model::combined::combined_builder::CombinedBuilder;
        use routee_compass_core::model::frontier::frontier_model_builder::FrontierModelBuilder;
        let sc = scratch.as_ref().unwrap();
        let mut cfgs: Vec<serde_json::Value> = vec![];
        for (k, f) in c.frontier.iter().enumerate() {
            match f {
                Fr::RoadClass { allowed, by_name, table } => {
                    let text: String = table.iter().map(|x| format!("{}\n", x)).collect();
                    let path = sc.file(&format!("road_class_{}.txt", k), &text, c.app.gzip);
                    let mut cfg = serde_json::Map::new();
                    cfg.insert("type".into(), serde_json::json!("road_class"));
                    cfg.insert("road_class_input_file".into(), serde_json::json!(path));
                    if *by_name {
                        cfg.insert("road_class_parser".into(), serde_json::json!({ "mapping": road_class_mapping_json() }));
                    }
                    if let Some(a) = allowed {
                        query["road_classes"] = if *by_name {
                            serde_json::json!(a.iter().map(|x| class_name(*x)).collect::<Vec<_>>())
                        } else {
                            serde_json::json!(a)
                        };
                    }
                    cfgs.push(serde_json::Value::Object(cfg));
                }
                Fr::TurnRestriction(pairs) => {
                    let mut text = String::from("prev_edge_id,next_edge_id\n");
                    for (p, n) in pairs {
                        text.push_str(&format!("{},{}\n", p, n));
                    }
                    let path = sc.file(&format!("turn_restriction_{}.csv", k), &text, c.app.gzip);
                    cfgs.push(serde_json::json!({"type": "turn_restriction", "turn_restriction_input_file": path}));
                }
                Fr::Vehicle { rows, params } => {
                    let path = sc.file(&format!("vehicle_restriction_{}.csv", k), &vehicle_restriction_file_text(rows), c.app.gzip);
                    query["vehicle_parameters"] = vehicle_parameters_json(params);
                    cfgs.push(serde_json::json!({"type": "vehicle_restriction", "vehicle_restriction_input_file": path}));
                }
                Fr::EdgeCut(es) => {
                    cut = Some(es.iter().map(|e| EdgeId(*e)).collect());
                }
            }
        }
        let builders = frontier_builders();
        let service = if cfgs.len() == 1 {
            let ty = cfgs[0]["type"].as_str().unwrap_or("").to_string();
            builders[&ty].build(&cfgs[0]).map_err(|e| format!("frontier: {}", e))?
        } else if cfgs.is_empty() && c.app.gzip {
            builders["no_restriction"].build(&serde_json::json!({"type": "no_restriction"})).map_err(|e| format!("frontier: {}", e))?
        } else {
            CombinedBuilder { builders }
                .build(&serde_json::json!({"type": "combined", "models": cfgs}))
                .map_err(|e| format!("frontier: {}", e))?
        };
        app_frontier = Some(service.build(&query, state_model.clone()).map_err(|e| format!("frontier: {}", e))?);
    }
    for f in c.frontier.iter().filter(|_| !c.app.frontier) {
        match f {
            Fr::RoadClass { allowed, by_name, table } => {
                let mut mapping = serde_json::Map::new();
                for cl in 0u8..8 {
                    mapping.insert(class_name(cl), serde_json::json!(cl));
                }
                let parser: RoadClassParser = if *by_name {
                    serde_json::from_value(serde_json::json!({ "mapping": mapping })).unwrap()
                } else {
                    RoadClassParser::default()
                };
                if let Some(a) = allowed {
                    query["road_classes"] = if *by_name {
                        serde_json::json!(a.iter().map(|x| class_name(*x)).collect::<Vec<_>>())
                    } else {
                        serde_json::json!(a)
                    };
                }
                let svc = RoadClassFrontierService {
                    road_class_lookup: Arc::new(table.clone().into_boxed_slice()),
                    road_class_parser: parser,
                };
                inner.push(svc.build(&query, state_model.clone()).map_err(|e| format!("frontier: {}", e))?);
            }
            Fr::TurnRestriction(pairs) => {
                let set: HashSet<RestrictedEdgePair> = pairs
                    .iter()
                    .map(|(p, n)| RestrictedEdgePair { prev_edge_id: EdgeId(*p), next_edge_id: EdgeId(*n) })
                    .collect();
                let svc = TurnRestrictionFrontierService { restricted_edge_pairs: Arc::new(set) };
                inner.push(svc.build(&query, state_model.clone()).map_err(|e| format!("frontier: {}", e))?);
            }
            Fr::Vehicle { rows, params } => {
                let lookup: HashMap<EdgeId, Vec<VehicleRestriction>> = rows
                    .iter()
                    .map(|(e, rs)| {
                        (
                            EdgeId(*e),
                            rs.iter()
                                .map(|r| match r {
                                    Restr::Weight { per_axle: false, limit, unit } => {
                                        VehicleRestriction::MaximumTotalWeight((Weight::new(*limit), *unit))
                                    }
                                    Restr::Weight { per_axle: true, limit, unit } => {
                                        VehicleRestriction::MaximumWeightPerAxle((Weight::new(*limit), *unit))
                                    }
                                    Restr::Length { which: 2, limit, unit } => {
                                        VehicleRestriction::MaximumLength((Distance::new(*limit), *unit))
                                    }
                                    Restr::Length { which: 3, limit, unit } => {
                                        VehicleRestriction::MaximumWidth((Distance::new(*limit), *unit))
                                    }
                                    Restr::Length { which: 4, limit, unit } => {
                                        VehicleRestriction::MaximumHeight((Distance::new(*limit), *unit))
                                    }
                                    Restr::Length { limit, unit, .. } => {
                                        VehicleRestriction::MaximumTrailerLength((Distance::new(*limit), *unit))
                                    }
                                })
                                .collect(),
                        )
                    })
                    .collect();
                query["vehicle_parameters"] = vehicle_parameters_json(params);
                let svc = VehicleRestrictionFrontierService { vehicle_restriction_lookup: Arc::new(lookup) };
                inner.push(svc.build(&query, state_model.clone()).map_err(|e| format!("frontier: {}", e))?);
            }
            Fr::EdgeCut(es) => {
                cut = Some(es.iter().map(|e| EdgeId(*e)).collect());
            }
        }
    }
    let mut frontier_model: Arc<dyn FrontierModel> = if let Some(m) = app_frontier {
        m
    } else if inner.len() == 1 {
        inner.pop().unwrap()
    } else {
        Arc::new(CombinedFrontierModel { inner_models: inner })
    };
    if let Some(cut) = cut {
        frontier_model = Arc::new(EdgeCutFrontierModel::new(frontier_model, cut));
    }
    if let Some(w) = c.query_wf {
        query["weight_factor"] = serde_json::json!(w);
    }
    let si = SearchInstance {
        directed_graph: graph.clone(),
        state_model,
        traversal_model,
        access_model,
        cost_model: Arc::new(cost_model),
        frontier_model,
        termination_model: Arc::new(if c.term_via_builder {
            routee_compass::app::compass::config::termination_model_builder::TerminationModelBuilder::build(&term_json(&c.term), None)
                .map_err(|e| format!("termination: {}", e))?
        } else {
            term_real(&c.term)
        }),
    };
    let alg = match c.astar {
        None => SearchAlgorithm::Dijkstra,
        Some(w) => SearchAlgorithm::AStarAlgorithm { weight_factor: w.map(Cost::new) },
    };
    drop(scratch);
    Ok(Built { si, graph, alg, query, cost_weights, cost_vrates, cost_nrates, max_speed })
}

pub enum Outcome {
    Ok(SearchAlgorithmResult),
    Err(String),
}

pub struct Exec {
    pub outcome: Outcome,
    /// popped vertices per run_a_star call
    pub scheds: Vec<Vec<usize>>,
}

pub fn err_kind(e: &SearchError) -> String {
    use SearchError as S;
    match e {
        S::NoPathExistsBetweenVertices(_, _) | S::NoPathExistsBetweenEdges(_, _) => "nopath".into(),
        S::TerminationModelFailure { source } => {
            let msg = source.to_string();
            let mut kinds = vec![];
            for part in msg.split(", ") {
                if part.contains("runtime limit") {
                    kinds.push("runtime");
                } else if part.contains("solution size limit") {
                    kinds.push("size");
                } else if part.contains("iteration limit") {
                    kinds.push("iterations");
                }
            }
            if kinds.is_empty() {
                "internal".into()
            } else {
                format!("terminated {}", kinds.join(","))
            }
        }
        S::QueryTerminated(_) => "terminated".into(),
        S::StateFailure { .. } => "state".into(),
        S::NetworkFailure { .. } => "network".into(),
        S::TraversalModelFailure { .. } => "traversal".into(),
        S::AccessModelFailure { .. } => "access".into(),
        S::FrontierModelFailure { .. } => "frontier".into(),
        S::CostFailure { .. } => "cost".into(),
        S::BuildError(_) => "build".into(),
        S::ReadOnlyPoisonError(_) => "internal".into(),
        S::InternalError(_) => "internal".into(),
    }
}

/// run the real algorithm with the pop-trace and virtual-clock hooks on
pub fn exec(c: &SCase, b: &Built) -> Exec {
    let dir = if c.reverse { Direction::Reverse } else { Direction::Forward };
    crate::watch::enter(|| format!("{:?}", c));
    verif_clock::set(first_clock(&c.term));
    verif_hook::start();
    let res = std::panic::catch_unwind(std::panic::AssertUnwindSafe(|| {
        if c.edge_oriented {
            b.alg.run_edge_oriented(EdgeId(c.source), c.target.map(EdgeId), &b.query, &dir, &b.si)
        } else {
            b.alg.run_vertex_oriented(VertexId(c.source), c.target.map(VertexId), &b.query, &dir, &b.si)
        }
    }));
    crate::watch::leave();
    let trace = verif_hook::take();
    verif_clock::set(None);
    let mut scheds: Vec<Vec<usize>> = vec![];
    for v in trace {
        if v == verif_hook::RUN_MARKER {
            scheds.push(vec![]);
        } else if let Some(last) = scheds.last_mut() {
            last.push(v);
        }
    }
    let outcome = match res {
        Ok(Ok(r)) => Outcome::Ok(r),
        Ok(Err(e)) => Outcome::Err(err_kind(&e)),
        Err(p) => {
            let msg = p
                .downcast_ref::<String>()
                .cloned()
                .or_else(|| p.downcast_ref::<&str>().map(|s| s.to_string()))
                .unwrap_or_default();
            if msg.contains("remainder with a divisor of zero") {
                Outcome::Err("panic termination-frequency-zero".into())
            } else {
                Outcome::Err(format!("panic {}", msg.replace(' ', "_")))
            }
        }
    };
    Exec { outcome, scheds }
}

fn branch_out(et: &EdgeTraversal) -> String {
    let mut s = format!(
        "{} {} {} {}",
        et.edge_id.0,
        fbits(et.access_cost.as_f64()),
        fbits(et.traversal_cost.as_f64()),
        et.result_state.len()
    );
    for x in &et.result_state {
        s.push(' ');
        s.push_str(&fbits(x.0));
    }
    s
}

pub fn tree_out(t: &HashMap<VertexId, SearchTreeBranch>) -> String {
    let mut keys: Vec<&VertexId> = t.keys().collect();
    keys.sort_by_key(|k| k.0);
    let mut s = format!("tree {}", keys.len());
    for k in keys {
        let b = &t[k];
        s.push_str(&format!(" {} {} {}", k.0, b.terminal_vertex.0, branch_out(&b.edge_traversal)));
    }
    s
}

pub fn route_out(r: &[EdgeTraversal]) -> String {
    let mut s = format!("route {}", r.len());
    for et in r {
        s.push(' ');
        s.push_str(&branch_out(et));
    }
    s
}

pub fn outcome_line(o: &Outcome) -> String {
    match o {
        Outcome::Err(k) => format!("err {}", k),
        Outcome::Ok(r) => {
            let mut s = format!("ok {} trees {}", r.iterations, r.trees.len());
            for t in &r.trees {
                s.push(' ');
                s.push_str(&tree_out(t));
            }
            s.push_str(&format!(" routes {}", r.routes.len()));
            for rt in &r.routes {
                s.push(' ');
                s.push_str(&route_out(rt));
            }
            s
        }
    }
}

fn enc_vr(v: &VR, out: &mut Vec<String>) {
    match v {
        VR::Zero => out.push("z".into()),
        VR::Raw => out.push("r".into()),
        VR::Factor(f) => {
            out.push("f".into());
            out.push(fbits(*f));
        }
        VR::Offset(o) => {
            out.push("o".into());
            out.push(fbits(*o));
        }
        VR::Combined(vs) => {
            out.push("c".into());
            out.push(vs.len().to_string());
            for x in vs {
                enc_vr(x, out);
            }
        }
    }
}

fn enc_nr(v: &NR, out: &mut Vec<String>) {
    match v {
        NR::Zero => out.push("z".into()),
        NR::Edge(t) => {
            out.push("e".into());
            out.push(t.len().to_string());
            for (e, c) in t {
                out.push(e.to_string());
                out.push(fbits(*c));
            }
        }
        NR::EdgeEdge(t) => {
            out.push("ee".into());
            out.push(t.len().to_string());
            for (p, n, c) in t {
                out.push(p.to_string());
                out.push(n.to_string());
                out.push(fbits(*c));
            }
        }
        NR::Combined(vs) => {
            out.push("c".into());
            out.push(vs.len().to_string());
            for x in vs {
                enc_nr(x, out);
            }
        }
    }
}

fn enc_term(t: &Term, out: &mut Vec<String>) {
    match t {
        Term::Runtime { limit_ns, freq, base_ns, per_ns } => {
            out.extend(["rt".into(), limit_ns.to_string(), freq.to_string(), base_ns.to_string(), per_ns.to_string()])
        }
        Term::Size(l) => out.extend(["sz".into(), l.to_string()]),
        Term::Iters(l) => out.extend(["it".into(), l.to_string()]),
        Term::Combined(ms) => {
            out.push("cb".into());
            out.push(ms.len().to_string());
            for m in ms {
                enc_term(m, out);
            }
        }
    }
}

/// the inner (vertex) target of a case: the destination vertex, or the destination edge's tail
pub fn inner_target(c: &SCase) -> Option<usize> {
    if c.edge_oriented {
        c.target.and_then(|t| c.edges.get(t).map(|e| e.0))
    } else {
        c.target
    }
}

/// great-circle metres from each vertex to the inner target, computed by the real haversine code
pub fn gc_table(c: &SCase) -> Vec<f64> {
    match inner_target(c) {
        None => vec![],
        Some(t) if t < c.coords.len() => {
            c.coords.iter().map(|p| gc_entry(*p, c.coords[t])).collect()
        }
        Some(_) => vec![],
    }
}

/// the haversine great-circle distance in metres, evaluated in f64 on the f32 coordinates: the
/// harness's own reference (same formula and radius as the code, none of its arithmetic)
pub fn gc_f64(a: (f32, f32), b: (f32, f32)) -> f64 {
    let (ax, ay, bx, by) = (a.0 as f64, a.1 as f64, b.0 as f64, b.1 as f64);
    let (lat1, lat2) = (ay.to_radians(), by.to_radians());
    let d_lat = lat2 - lat1;
    let d_lon = (bx - ax).to_radians();
    let h = (d_lat / 2.0).sin().powi(2) + (d_lon / 2.0).sin().powi(2) * lat1.cos() * lat2.cos();
    6_371_000.0 * 2.0 * h.sqrt().asin()
}

/// what the great-circle table of a case line holds when the haversine function returns `Err` (a
/// coordinate out of range or NaN): the model's marker "no great-circle value" — any negative entry
/// (lean/Compass/Model/Instance.lean, `estimate`); a great-circle distance itself is >= 0 or NaN
pub const GC_NONE: f64 = -1.0;

/// one entry of a great-circle table: metres from `a` to `b` by the real haversine code, or the marker
pub fn gc_entry(a: (f32, f32), b: (f32, f32)) -> f64 {
    haversine::coord_distance_meters(&geo_coord(a), &geo_coord(b)).map(|d| d.as_f64()).unwrap_or(GC_NONE)
}

pub fn gc_between(a: (f32, f32), b: (f32, f32)) -> f64 {
    haversine::coord_distance_meters(&geo_coord(a), &geo_coord(b)).map(|d| d.as_f64()).unwrap_or(f64::NAN)
}

fn geo_coord(p: (f32, f32)) -> geo::Coord<f32> {
    geo::Coord { x: p.0, y: p.1 }
}

/// effective weight factor as the code derives it (query override, else configured, Dijkstra = 0)
pub fn effective_wf(c: &SCase) -> Option<f64> {
    match c.query_wf {
        Some(w) => Some(w),
        None => match c.astar {
            None => Some(0.0),
            Some(w) => w,
        },
    }
}

/// the case line for the Lean driver (format: lean/Compass/Drv/Search.lean `caseP`)
pub fn encode(c: &SCase, b: &Built, sched: &[usize]) -> String {
    let mut o: Vec<String> = vec![];
    let g = &b.graph;
    o.push(c.coords.len().to_string());
    o.push(c.edges.len().to_string());
    for (s, d, l) in &c.edges {
        o.extend([s.to_string(), d.to_string(), fbits(*l)]);
    }
    // adjacency in the order the real graph iterates it
    o.push(c.coords.len().to_string());
    for v in 0..c.coords.len() {
        let es = g.out_edges(&VertexId(v));
        o.push(es.len().to_string());
        o.extend(es.iter().map(|e| e.0.to_string()));
    }
    o.push(c.coords.len().to_string());
    for v in 0..c.coords.len() {
        let es = g.in_edges(&VertexId(v));
        o.push(es.len().to_string());
        o.extend(es.iter().map(|e| e.0.to_string()));
    }
    // features in the order the real state model iterates them
    let order: Vec<String> = b.si.state_model.indexed_iter().map(|(_, (n, _))| n.clone()).collect();
    o.push(order.len().to_string());
    for n in &order {
        let (_, k, init) = c.feats.iter().find(|(m, _, _)| m == n).expect("feature");
        o.push(n.clone());
        match k {
            FeatK::D(u) => o.extend(["D".into(), u.to_string()]),
            FeatK::T(u) => o.extend(["T".into(), u.to_string()]),
            FeatK::X => o.push("X".into()),
        }
        o.push(fbits(*init));
    }
    match &c.trav {
        Trav::Dist(du) => o.extend(["dist".into(), du.to_string()]),
        Trav::Speed { su, du, tu, table } => {
            o.extend(["speed".into(), su.to_string(), du.to_string(), tu.to_string(), fbits(b.max_speed)]);
            o.push(table.len().to_string());
            o.extend(table.iter().map(|s| fbits(*s)));
        }
    }
    match &c.access {
        Acc::None => o.push("noacc".into()),
        Acc::Turn { tu, headings, delays } => {
            o.extend(["turn".into(), tu.to_string(), headings.len().to_string()]);
            for (a, d) in headings {
                o.push(a.to_string());
                match d {
                    Some(d) => o.extend(["s".into(), d.to_string()]),
                    None => o.push("n".into()),
                }
            }
            o.push("8".into());
            for d in delays {
                match d {
                    Some(d) => o.extend(["s".into(), fbits(*d)]),
                    None => o.push("n".into()),
                }
            }
        }
    }
    // cost model vectors
    let n = order.len();
    o.push(n.to_string());
    o.extend((0..n).map(|i| i.to_string()));
    o.push(n.to_string());
    o.extend(b.cost_weights.iter().map(|w| fbits(*w)));
    o.push(n.to_string());
    for v in &b.cost_vrates {
        enc_vr(v, &mut o);
    }
    o.push(n.to_string());
    for v in &b.cost_nrates {
        enc_nr(v, &mut o);
    }
    o.push(if c.agg_mul { "mul".into() } else { "sum".into() });
    // frontier: inner models in order, the edge cut first (it wraps the others)
    let mut fr: Vec<&Fr> = c.frontier.iter().filter(|f| matches!(f, Fr::EdgeCut(_))).collect();
    fr.extend(c.frontier.iter().filter(|f| !matches!(f, Fr::EdgeCut(_))));
    o.push(fr.len().to_string());
    for f in fr {
        match f {
            Fr::RoadClass { allowed, table, .. } => {
                o.push("rc".into());
                match allowed {
                    None => o.push("n".into()),
                    Some(a) => {
                        o.extend(["s".into(), a.len().to_string()]);
                        o.extend(a.iter().map(|x| x.to_string()));
                    }
                }
                o.push(table.len().to_string());
                o.extend(table.iter().map(|x| x.to_string()));
            }
            Fr::TurnRestriction(ps) => {
                o.extend(["tr".into(), ps.len().to_string()]);
                for (p, n) in ps {
                    o.extend([p.to_string(), n.to_string()]);
                }
            }
            Fr::Vehicle { rows, params } => {
                o.extend(["vr".into(), rows.len().to_string()]);
                for (e, rs) in rows {
                    o.extend([e.to_string(), rs.len().to_string()]);
                    for r in rs {
                        match r {
                            Restr::Weight { per_axle, limit, unit } => o.extend([
                                "w".into(),
                                if *per_axle { "1".into() } else { "0".into() },
                                fbits(*limit),
                                unit.to_string(),
                            ]),
                            Restr::Length { which, limit, unit } => {
                                o.extend(["l".into(), which.to_string(), fbits(*limit), unit.to_string()])
                            }
                        }
                    }
                }
                for (x, u) in [params.height, params.width, params.total_length, params.trailer_length] {
                    o.extend([fbits(x), u.to_string()]);
                }
                o.extend([fbits(params.total_weight.0), params.total_weight.1.to_string()]);
                o.push(fbits(params.axles as f64));
            }
            Fr::EdgeCut(es) => {
                o.extend(["cut".into(), es.len().to_string()]);
                o.extend(es.iter().map(|e| e.to_string()));
            }
        }
    }
    enc_term(&c.term, &mut o);
    o.push(if c.reverse { "r".into() } else { "f".into() });
    o.push(if c.edge_oriented { "e".into() } else { "v".into() });
    o.push(c.source.to_string());
    match c.target {
        Some(t) => o.extend(["s".into(), t.to_string()]),
        None => o.push("n".into()),
    }
    match effective_wf(c) {
        Some(w) => o.extend(["s".into(), fbits(w)]),
        None => o.push("n".into()),
    }
    let gc = gc_table(c);
    o.push(gc.len().to_string());
    o.extend(gc.iter().map(|x| fbits(*x)));
    o.push(sched.len().to_string());
    o.extend(sched.iter().map(|v| v.to_string()));
    o.join(" ")
}

// ---------------------------------------------------------------------------------------------
// generators

#[derive(Clone, Copy, Debug, PartialEq, Eq)]
pub enum LenStyle {
    /// small integers: many equal-cost ties
    TieHeavy,
    /// generic reals
    Generic,
    /// at least the great-circle distance between the end points (metrically consistent)
    Metric,
}

pub struct GenOpts {
    pub max_v: usize,
    pub len_style: LenStyle,
    pub allow_access: bool,
    pub allow_frontier: bool,
    pub allow_term: bool,
    pub allow_speed: bool,
    pub state_indep_cost: bool,
}

impl Default for GenOpts {
    fn default() -> Self {
        GenOpts {
            max_v: 10,
            len_style: LenStyle::Generic,
            allow_access: true,
            allow_frontier: true,
            allow_term: true,
            allow_speed: true,
            state_indep_cost: false,
        }
    }
}

pub fn si_d(u: &DistanceUnit) -> f64 {
    match u {
        DistanceUnit::Meters => 1.0,
        DistanceUnit::Kilometers => 1000.0,
        DistanceUnit::Miles => 1609.344,
        DistanceUnit::Inches => 0.0254,
        DistanceUnit::Feet => 0.3048,
    }
}
pub fn si_w(u: &WeightUnit) -> f64 {
    match u {
        WeightUnit::Pounds => 0.45359237,
        WeightUnit::Tons => 907.18474,
        WeightUnit::Kg => 1.0,
    }
}

pub fn gen_graph(rng: &mut Rng, n_v: usize, style: LenStyle) -> (Vec<(f32, f32)>, Vec<(usize, usize, f64)>) {
    // small lat/lon patch around Denver
    // (one graph in three is a few hundred metres across: neighbouring f32 coordinates, where a
    // great-circle formula evaluated in single precision loses most of its digits)
    let span = if rng.chance(1, 3) { 0.004 } else { 0.05 };
    let coords: Vec<(f32, f32)> = (0..n_v)
        .map(|_| ((-105.0 + span * rng.unit()) as f32, (39.7 + span * rng.unit()) as f32))
        .collect();
    let shape = rng.below(5);
    let mut pairs: Vec<(usize, usize)> = vec![];
    match shape {
        0 => {
            // sparse random
            let m = n_v + rng.below(2 * n_v + 1);
            for _ in 0..m {
                pairs.push((rng.below(n_v), rng.below(n_v)));
            }
        }
        1 => {
            // bidirectional ring with chords
            for i in 0..n_v {
                pairs.push((i, (i + 1) % n_v));
                pairs.push(((i + 1) % n_v, i));
            }
            for _ in 0..rng.below(n_v + 1) {
                pairs.push((rng.below(n_v), rng.below(n_v)));
            }
        }
        2 => {
            // grid-ish: width w
            let w = 2 + rng.below(3);
            for i in 0..n_v {
                if (i + 1) % w != 0 && i + 1 < n_v {
                    pairs.push((i, i + 1));
                    if rng.chance(2, 3) {
                        pairs.push((i + 1, i));
                    }
                }
                if i + w < n_v {
                    pairs.push((i, i + w));
                    if rng.chance(2, 3) {
                        pairs.push((i + w, i));
                    }
                }
            }
        }
        3 => {
            // two components + dead ends
            let half = (n_v / 2).max(1);
            for _ in 0..(2 * n_v) {
                let a = rng.below(n_v);
                let b = if a < half { rng.below(half) } else { half + rng.below(n_v - half) };
                pairs.push((a, b));
            }
        }
        _ => {
            // dense with parallel edges and self loops
            let m = 2 * n_v + rng.below(3 * n_v + 1);
            for _ in 0..m {
                let a = rng.below(n_v);
                let b = if rng.chance(1, 10) { a } else { rng.below(n_v) };
                pairs.push((a, b));
                if rng.chance(1, 6) {
                    pairs.push((a, b));
                }
            }
        }
    }
    if pairs.is_empty() {
        pairs.push((0, n_v - 1));
    }
    let edges = pairs
        .into_iter()
        .map(|(a, b)| {
            let len = match style {
                LenStyle::TieHeavy => (1 + rng.below(4)) as f64,
                LenStyle::Generic => 10.0 + 5000.0 * rng.unit(),
                LenStyle::Metric => {
                    if rng.chance(1, 2) {
                        // tight: the great-circle distance itself, computed HERE in double precision
                        // (not by the code under test), with a margin far above f64 rounding and far
                        // below anything a single-precision formula could hide behind — an estimate
                        // that overshoots the distance at all becomes an inadmissible one
                        // (half of these with an excess of up to half a percent: a detour over nearly
                        // collinear vertices is then a little cheaper than the direct edge, and an estimate
                        // that overshoots by a fraction of a percent picks the direct edge)
                        let excess = if rng.chance(1, 2) { 0.005 * rng.unit() } else { 0.0 };
                        gc_f64(coords[a], coords[b]) * (1.0 + 1.0e-9 + excess) + 1.0e-6
                    } else {
                        let gc = gc_between(coords[a], coords[b]);
                        // strictly above the great-circle distance (avoid ulp-level ties with it)
                        gc * (1.01 + 0.8 * rng.unit()) + 1.0
                    }
                }
            };
            (a, b, len)
        })
        .collect();
    (coords, edges)
}

fn gen_vr(rng: &mut Rng, depth: u32, nonneg: bool) -> VR {
    match rng.below(if depth < 2 { 6 } else { 4 }) {
        0 => VR::Raw,
        1 => VR::Factor(if nonneg { rng.small_decimal(3, 2) } else { rng.uniform(-1.0, 3.0) }),
        2 if !nonneg => VR::Offset(rng.uniform(-0.5, 2.0)),
        3 => VR::Zero,
        2 => VR::Raw,
        _ => {
            let k = 1 + rng.below(3);
            VR::Combined((0..k).map(|_| gen_vr(rng, depth + 1, nonneg)).collect())
        }
    }
}

pub fn gen_case(rng: &mut Rng, opts: &GenOpts) -> SCase {
    let n_v = 2 + rng.below(opts.max_v.max(3) - 1);
    let (coords, edges) = gen_graph(rng, n_v, opts.len_style);
    gen_case_on(rng, opts, coords, edges)
}

/// the models, query and algorithm of a generated case on a given graph (C13 supplies its own shapes)
pub fn gen_case_on(rng: &mut Rng, opts: &GenOpts, coords: Vec<(f32, f32)>, edges: Vec<(usize, usize, f64)>) -> SCase {
    let n_v = coords.len();
    let n_e = edges.len();
    let use_speed = opts.allow_speed && rng.chance(1, 2);
    let du = *rng.pick(&DU);
    let tu = *rng.pick(&TU);
    let su = *rng.pick(&SU);
    // feature units equal to the model units most of the time (exact), sometimes different
    let fdu = if rng.chance(3, 4) { du } else { *rng.pick(&DU) };
    let ftu = if rng.chance(3, 4) { tu } else { *rng.pick(&TU) };
    let mut feats: Vec<(String, FeatK, f64)> = vec![("distance".into(), FeatK::D(fdu), 0.0)];
    let use_turn = opts.allow_access && rng.chance(1, 3);
    if use_speed || use_turn {
        feats.push(("time".into(), FeatK::T(ftu), 0.0));
    }
    if rng.chance(1, 5) {
        feats.push(("extra".into(), FeatK::X, rng.small_decimal(5, 1)));
    }
    if rng.chance(1, 4) {
        let i0 = rng.small_decimal(3, 1);
        feats[0].2 = i0;
    }
    rng.shuffle(&mut feats);
    let trav = if use_speed {
        let table: Vec<f64> = (0..n_e)
            .map(|_| if opts.len_style == LenStyle::TieHeavy { (10 * (1 + rng.below(4))) as f64 } else { 5.0 + 80.0 * rng.unit() })
            .collect();
        Trav::Speed { su, du, tu, table }
    } else {
        Trav::Dist(du)
    };
    let access = if use_turn {
        // one case in three draws its headings from the class boundaries of the turn table (and 0), so
        // that turns of exactly 19/20, 44/45, 134/135, 159/160 and 180 degrees, on either side, are
        // taken all the time and not once in 360 turns
        const BOUNDARY: [i16; 19] = [0, 19, 20, 44, 45, 134, 135, 159, 160, 180, 181, 200, 201, 225, 226, 315, 316, 340, 341];
        let boundary_mode = rng.chance(1, 3);
        // one case in sixteen holds headings far outside [0, 360) — the loader accepts any i16 —, up to
        // the ends of the i16 range, where a difference taken in i16 overflows
        const EXTREME: [i16; 10] = [i16::MAX, i16::MIN, 32767 - 180, -32768 + 180, 16384, -16384, 720, -720, 361, -1];
        let extreme_mode = !boundary_mode && rng.chance(1, 11);
        let headings = (0..n_e)
            .map(|_| {
                if extreme_mode && rng.chance(1, 2) {
                    let a = *rng.pick(&EXTREME);
                    let d = if rng.chance(1, 2) { None } else { Some(*rng.pick(&EXTREME)) };
                    (a, d)
                } else if boundary_mode {
                    let a = if rng.chance(1, 2) { 0 } else { *rng.pick(&BOUNDARY) };
                    let d = if rng.chance(1, 2) { None } else if rng.chance(1, 2) { Some(0) } else { Some(*rng.pick(&BOUNDARY)) };
                    (a, d)
                } else {
                    let a = rng.range(0, 359) as i16;
                    let d = if rng.chance(1, 3) { None } else { Some(rng.range(0, 359) as i16) };
                    (a, d)
                }
            })
            .collect();
        let mut delays = [None; 8];
        for d in delays.iter_mut() {
            *d = Some(if rng.chance(1, 4) { 0.0 } else { rng.small_decimal(30, 1) });
        }
        if rng.chance(1, 12) {
            delays[rng.below(8)] = None; // missing table entry: access error
        }
        Acc::Turn { tu: *rng.pick(&TU), headings, delays }
    } else {
        Acc::None
    };
    // cost model
    let mut weights = vec![];
    let mut vrates = vec![];
    let mut nrates = vec![];
    for (name, k, _) in &feats {
        if matches!(k, FeatK::X) && rng.chance(1, 2) {
            continue;
        }
        let w = if rng.chance(1, 6) { 0.0 } else if opts.state_indep_cost { rng.small_decimal(3, 1) } else { rng.uniform(-0.2, 3.0) };
        if !rng.chance(1, 8) {
            weights.push((name.clone(), w));
        }
        if !rng.chance(1, 10) {
            vrates.push((name.clone(), gen_vr(rng, 0, opts.state_indep_cost)));
        }
        if rng.chance(1, 3) {
            let k = rng.below(n_e + 1);
            let tbl: Vec<(usize, f64)> = {
                let mut seen = HashSet::new();
                (0..k).filter_map(|_| { let e = rng.below(n_e); if seen.insert(e) { Some((e, rng.small_decimal(5, 1))) } else { None } }).collect()
            };
            let nr = if !opts.state_indep_cost && rng.chance(1, 3) {
                let mut seen = HashSet::new();
                NR::EdgeEdge((0..k).filter_map(|_| { let p = rng.below(n_e); let n = rng.below(n_e); if seen.insert((p, n)) { Some((p, n, rng.small_decimal(5, 1))) } else { None } }).collect())
            } else if rng.chance(1, 4) {
                NR::Combined(vec![NR::Edge(tbl), NR::Zero])
            } else {
                NR::Edge(tbl)
            };
            nrates.push((name.clone(), nr));
        }
    }
    if weights.iter().map(|(_, w)| *w).sum::<f64>() == 0.0 {
        weights.retain(|(n, _)| n != "distance");
        weights.push(("distance".into(), 1.0));
    }
    if !vrates.iter().any(|(n, _)| n == "distance") {
        vrates.push(("distance".into(), VR::Raw));
    }
    // frontier
    let mut frontier = vec![];
    if opts.allow_frontier {
        if rng.chance(1, 4) {
            let table: Vec<u8> = (0..n_e).map(|_| rng.below(4) as u8).collect();
            let allowed = if rng.chance(1, 5) { None } else { Some((0..4u8).filter(|_| rng.chance(2, 3)).collect()) };
            frontier.push(Fr::RoadClass { allowed, by_name: rng.chance(1, 2), table });
        }
        if rng.chance(1, 4) {
            let k = 1 + rng.below(n_e.min(6));
            frontier.push(Fr::TurnRestriction((0..k).map(|_| (rng.below(n_e), rng.below(n_e))).collect()));
        }
        if rng.chance(1, 5) {
            let params = VParams {
                height: (0.5 + rng.small_decimal(5, 1), *rng.pick(&DU)),
                width: (0.5 + rng.small_decimal(4, 1), *rng.pick(&DU)),
                total_length: (1.0 + rng.small_decimal(30, 0), *rng.pick(&DU)),
                trailer_length: (1.0 + rng.small_decimal(20, 0), *rng.pick(&DU)),
                total_weight: (1.0 + rng.small_decimal(40, 0), *rng.pick(&WU)),
                axles: 1 + rng.below(5) as u8,
            };
            let k = 1 + rng.below(n_e.min(8));
            let mut seen = HashSet::new();
            let rows = (0..k)
                .filter_map(|_| {
                    let e = rng.below(n_e);
                    if !seen.insert(e) {
                        return None;
                    }
                    // limits straddle the vehicle's own dimensions (expressed in the restriction's unit
                    // through independent SI factors): far below, just below, at, just above, far above
                    let factors = [0.5, 0.9, 0.96, 0.995, 1.0, 1.005, 1.04, 1.1, 2.0];
                    let rs = (0..1 + rng.below(2))
                        .map(|_| {
                            let f = *rng.pick(&factors);
                            if rng.chance(1, 2) {
                                let unit = *rng.pick(&WU);
                                let per_axle = rng.chance(1, 2);
                                let w = params.total_weight.0 * si_w(&params.total_weight.1) / si_w(&unit);
                                let w = if per_axle { w / params.axles as f64 } else { w };
                                Restr::Weight { per_axle, limit: w * f, unit }
                            } else {
                                let which = 2 + rng.below(4) as u8;
                                let unit = *rng.pick(&DU);
                                let dim = match which {
                                    2 => params.total_length,
                                    3 => params.width,
                                    4 => params.height,
                                    _ => params.trailer_length,
                                };
                                Restr::Length { which, limit: dim.0 * si_d(&dim.1) / si_d(&unit) * f, unit }
                            }
                        })
                        .collect();
                    Some((e, rs))
                })
                .collect();
            frontier.push(Fr::Vehicle { rows, params });
        }
        if rng.chance(1, 8) {
            let k = 1 + rng.below(3);
            frontier.push(Fr::EdgeCut((0..k).map(|_| rng.below(n_e)).collect()));
        }
    }
    // termination
    let mut term = Term::Combined(vec![]);
    if opts.allow_term && rng.chance(1, 4) {
        let one = |rng: &mut Rng| match rng.below(3) {
            0 => Term::Iters(rng.below(n_v + 3) as u64),
            1 => Term::Size(rng.below(n_v + 2)),
            _ => Term::Runtime { limit_ns: 1000 * (1 + rng.below(10)) as u64, freq: 1 + rng.below(4) as u64, base_ns: 0, per_ns: 0 },
        };
        term = if rng.chance(1, 2) { one(rng) } else { Term::Combined((0..1 + rng.below(3)).map(|_| one(rng)).collect()) };
        let clock = (rng.below(3000) as u64, (rng.below(4) * 700) as u64);
        normalise_clock(&mut term, clock);
    }
    let edge_oriented = rng.chance(1, 4);
    let (source, target) = if edge_oriented {
        (rng.below(n_e), if rng.chance(1, 6) { None } else { Some(rng.below(n_e)) })
    } else {
        let s = rng.below(n_v);
        let t = if rng.chance(1, 6) { None } else { Some(rng.below(n_v)) };
        (s, t)
    };
    let astar = match rng.below(4) {
        0 => None,
        1 => Some(None),
        _ => Some(Some(*rng.pick(&[0.0, 0.5, 1.0, 1.0, 3.0, 10.0]))),
    };
    let query_wf = if rng.chance(1, 10) { Some(*rng.pick(&[0.0, 1.0, 2.0])) } else { None };
    SCase {
        coords,
        edges,
        feats,
        trav,
        access,
        weights,
        vrates,
        nrates,
        agg_mul: !opts.state_indep_cost && rng.chance(1, 8),
        frontier,
        term,
        reverse: rng.chance(1, 4),
        edge_oriented,
        source,
        target,
        astar,
        query_wf,
        svc: if rng.chance(1, 2) { Some((rng.chance(1, 2), rng.chance(1, 2), rng.chance(1, 2), rng.chance(1, 3))) } else { None },
        term_via_builder: false,
        svc_unknown_weight: rng.chance(1, 4),
        app: AppBuild::default(),
    }
}

/// a short fingerprint of the branch structure of a case, for the distribution statistics
pub fn describe(c: &SCase) -> Vec<&'static str> {
    let mut v = vec![];
    v.push(if c.edge_oriented { "orient_edge" } else { "orient_vertex" });
    v.push(if c.reverse { "dir_reverse" } else { "dir_forward" });
    v.push(match c.astar {
        None => "alg_dijkstra",
        Some(_) => "alg_astar",
    });
    v.push(match c.trav {
        Trav::Dist(_) => "trav_distance",
        Trav::Speed { .. } => "trav_speed",
    });
    v.push(match c.access {
        Acc::None => "access_none",
        Acc::Turn { .. } => "access_turn_delay",
    });
    if c.target.is_none() {
        v.push("no_target");
    }
    for f in &c.frontier {
        v.push(match f {
            Fr::RoadClass { .. } => "frontier_road_class",
            Fr::TurnRestriction(_) => "frontier_turn_restriction",
            Fr::Vehicle { .. } => "frontier_vehicle",
            Fr::EdgeCut(_) => "frontier_edge_cut",
        });
    }
    if !matches!(&c.term, Term::Combined(ms) if ms.is_empty()) {
        v.push("termination_model");
    }
    if c.agg_mul {
        v.push("agg_mul");
    }
    if c.term_via_builder {
        v.push("termination_model_builder");
    }
    if let Some((qw, qv, qa, _)) = c.svc {
        v.push("cost_model_service");
        if qw || qv || qa {
            v.push("cost_model_query_override");
        }
    }
    v
}
