//! probe
use crate::ctx::Ctx;
use crate::rng::Rng;
use routee_compass::app::compass::compass_app::CompassApp;
use routee_compass::app::compass::config::compass_app_builder::CompassAppBuilder;
use serde_json::{json, Value};
use std::path::{Path, PathBuf};

pub struct Net {
    pub n: usize,
    pub xy: Vec<(f64, f64)>,
    pub edges: Vec<(usize, usize, f64)>,
    pub speeds: Vec<f64>,
}

pub fn gen_net(rng: &mut Rng, n: usize) -> Net {
    let mut xy = vec![];
    for i in 0..n {
        let gx = (i % 6) as f64;
        let gy = (i / 6) as f64;
        xy.push((-105.0 + 0.01 * gx + rng.uniform(-0.002, 0.002), 39.7 + 0.01 * gy + rng.uniform(-0.002, 0.002)));
    }
    let mut edges = vec![];
    // the last two vertices: one isolated, one with only an outgoing edge (unreachable as destination)
    let core = n - 2;
    for i in 0..core {
        // ring in one direction keeps the core strongly connected
        let j = (i + 1) % core;
        edges.push((i, j, 0.0));
    }
    let extra = core + rng.below(2 * core);
    for _ in 0..extra {
        let a = rng.below(core);
        let b = rng.below(core);
        if a != b {
            edges.push((a, b, 0.0));
        }
    }
    edges.push((n - 2, rng.below(core), 0.0));
    for e in edges.iter_mut() {
        let (x1, y1) = xy[e.0];
        let (x2, y2) = xy[e.1];
        let d = (((x1 - x2) * 85_000.0).powi(2) + ((y1 - y2) * 111_000.0).powi(2)).sqrt();
        e.2 = (d * (1.0 + rng.uniform(0.05, 0.8))).round().max(1.0);
    }
    let speeds = edges.iter().map(|_| [25.0, 40.0, 55.0, 64.36, 112.0][rng.below(5)]).collect();
    Net { n, xy, edges, speeds }
}

pub fn write_net(dir: &Path, net: &Net) {
    std::fs::create_dir_all(dir).expect("mkdir");
    let mut v = String::from("vertex_id,x,y\n");
    for (i, (x, y)) in net.xy.iter().enumerate() {
        v.push_str(&format!("{},{},{}\n", i, x, y));
    }
    std::fs::write(dir.join("vertices.csv"), v).unwrap();
    let mut e = String::from("edge_id,src_vertex_id,dst_vertex_id,distance\n");
    let mut g = String::new();
    for (i, (a, b, d)) in net.edges.iter().enumerate() {
        e.push_str(&format!("{},{},{},{}\n", i, a, b, d));
        g.push_str(&format!("LINESTRING ({} {}, {} {})\n", net.xy[*a].0, net.xy[*a].1, net.xy[*b].0, net.xy[*b].1));
    }
    std::fs::write(dir.join("edges.csv"), e).unwrap();
    std::fs::write(dir.join("geoms.txt"), g).unwrap();
    let s: String = net.speeds.iter().map(|s| format!("{}\n", s)).collect();
    std::fs::write(dir.join("speeds.csv"), s).unwrap();
}

pub fn config_toml(dir: &Path, parallelism: usize, traversal: &str, input_plugins: &str, policy: &str) -> String {
    let d = dir.to_str().unwrap();
    let trav = match traversal {
        "distance" => "[traversal]\ntype = \"distance\"\ndistance_unit = \"meters\"\n[cost]\ncost_aggregation = \"sum\"\n[cost.weights]\ndistance = 1\n[cost.vehicle_rates.distance]\ntype = \"raw\"\n".to_string(),
        _ => format!(
            "[traversal]\ntype = \"speed_table\"\nspeed_table_input_file = \"{d}/speeds.csv\"\nspeed_unit = \"kilometers_per_hour\"\noutput_time_unit = \"minutes\"\noutput_distance_unit = \"meters\"\n[cost]\ncost_aggregation = \"sum\"\n[cost.weights]\ndistance = 1\ntime = 1\n[cost.vehicle_rates.time]\ntype = \"raw\"\n[cost.vehicle_rates.distance]\ntype = \"raw\"\n"
        ),
    };
    format!(
        r#"parallelism = {parallelism}
response_persistence_policy = "{policy}"
[graph]
edge_list_input_file = "{d}/edges.csv"
vertex_list_input_file = "{d}/vertices.csv"
verbose = false
{trav}
[plugin]
input_plugins = [{input_plugins}]
output_plugins = [
    {{ type = "summary" }},
    {{ type = "traversal", route = "edge_id", geometry_input_file = "{d}/geoms.txt" }},
]
"#
    )
}

pub fn build_app(dir: &Path, toml: &str) -> Result<CompassApp, String> {
    let builder = CompassAppBuilder::default();
    std::fs::write(dir.join("config.toml"), toml).unwrap();
    CompassApp::try_from_config_toml_string(toml.to_string(), dir.join("config.toml").to_str().unwrap().to_string(), &builder)
        .map_err(|e| e.to_string())
}

#[derive(Clone, Copy, PartialEq)]
pub enum Profile { C06, C12 }
pub fn run(ctx: &mut Ctx, _p: Profile) -> &'static str {
    let dir = PathBuf::from(format!("work/c06_{}", std::process::id()));
    let dir = std::fs::canonicalize(".").unwrap().join(dir);
    let mut rng = Rng::for_case(ctx.seed, 6, 0);
    let net = gen_net(&mut rng, 14);
    write_net(&dir, &net);
    let plugins = "";
    let toml = config_toml(&dir, 2, "speed", plugins, "persist_response_in_memory");
    let app = match build_app(&dir, &toml) { Ok(a) => a, Err(e) => { println!("BUILD ERR {}", e); std::process::exit(3) } };
    let batch = vec![
        json!({"origin_vertex": 0, "destination_vertex": 5}),
        json!({"origin_vertex": 0, "destination_vertex": 0}),
        json!({"origin_vertex": 0, "destination_vertex": 13}),
        json!({"origin_vertex": 0, "destination_vertex": 99}),
        json!({"origin_vertex": 0}),
        json!({"destination_vertex": 0}),
        json!(5),
        json!([{"origin_vertex": 1, "destination_vertex": 2}, {"origin_vertex": 2, "destination_vertex": 3}]),
        json!({"origin_vertex": 0, "grid_search": {"destination_vertex": [1, 2]}}),
        json!({"origin_vertex": 0, "grid_search": {"a": [{"x": 1, "destination_vertex": 3}, {"destination_vertex": 4}]}}),
    ];
    for cfg in [json!({}), json!({"parallelism": 0}), json!({"parallelism": 3, "response_persistence_policy": "discard_response_from_memory"})] {
        let r = std::panic::catch_unwind(std::panic::AssertUnwindSafe(|| app.run(batch.clone(), Some(&cfg))));
        match r {
            Err(_) => println!("PANIC"),
            Ok(Err(e)) => println!("ERR {}", e),
            Ok(Ok(rs)) => {
                println!("{} responses", rs.len());
                for r in rs {
                    println!("{}", serde_json::to_string(&r).unwrap());
                }
            }
        }
    }
    let _ = std::fs::remove_dir_all(&dir);
    let _ = ctx.begin();
    "probe"
}
