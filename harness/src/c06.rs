//! C06 — one response per query, independent of parallelism, order and schedule.
//! C12 — no query batch can make the application panic, abort or run without bound.
//!
//! One module, two generator profiles.  A real `CompassApp` is built in-process from a TOML string over a small
//! random network written under work/ (removed at the end).  Everything that calls the real code on a batch runs
//! in a **forked child** (alarm + address-space limit, own rayon pools), so that a panic in a worker, an abort or
//! an unbounded loop is an observable outcome and never takes the check down; the parent stays single-threaded.
//!
//! Case lines (model: lean/Compass/Drv/C06.lean):
//!   `run <selfPar> <runPar> <persist> <fmt> <plugins> <batch> <respond>`  the real `app.run(batch, Some(cfg))`
//!        -> `ok n <canonical response>…` (in the order returned) | `err <kind>` | `panic` | `diverges`
//!   `bal <parallelism> <n> <json>…`  the real `apply_load_balancing_policy`  -> `ok nbins (k i…)…` | `err …`
//! `respond` = table from each expanded query (compact text) to the canonical response of the real
//! `run_single_query` on it, run alone.  Opaque plugins (r-tree matchers, haversine load balancer) are recorded by
//! a transparent wrapper and handed to the model as tables.
//!
//! Canonical response: `{"request": …, "error": <kind>}` or `{"request": …, "route": null | {"path", "cost",
//! "state"}}` (timestamps, runtimes, memory sizes, counters dropped; objects that come out of a HashMap sorted).
//!
//! Oracle (independent of the Lean model), keys:
//!   batch/empty                       empty batch does not return `[]`
//!   batch/panic, batch/timeout        the call panicked / the child was killed (alarm, memory) or aborted
//!   batch/whole-batch-error           `run` returned `Err` for a batch (parallelism >= 1)
//!   batch/multiset-differs            responses (as a multiset) != ⨄ of each query run alone
//!   batch/parallelism-dependent, batch/order-dependent, batch/pool-dependent
//!   batch/discard-policy              discard policy does not return exactly the input-stage error responses
//!   batch/valid-query-error, batch/failing-query-ok   error response for a valid query / success for a failing one
//!   batch/malformed-response          a response is not `{request, …}`
//!   pipeline/itemwise-mismatch        the responses of a query are not the answers of the queries it expands into item by
//!                                     item with the real plugins (none failing), or not the single error response the
//!                                     first failure produces
//!   pipeline/sibling-responses-lost   a plugin fails on one expanded query and its siblings get no response (known)
//!   pipeline/invariant-error-loses-request   a plugin left a non-object and the invariant error does not name the query
//!   (keys of repaired defects — request-not-echoed, query-unanswered, unknown-origin-accepted, total-not-reproducible,
//!    batch/empty, batch/whole-batch-error, inject/non-object, grid/degenerate — fire again if the defect returns)
//!   pipeline/query-unanswered         a query got no response at all
//!   search/unknown-origin-accepted    an out-of-range origin / destination id is answered with a success
//!   response/request-not-echoed-by-search   run_single_query answered an expanded query with another `request`
//!   table/non-object-result           an opaque (recorded) plugin turned an object into something that is not one
//!   cost/total-not-reproducible       the same query reports total_cost values that differ from run to run
//!   response/not-reproducible         the same query gives different responses in two runs in the same process
//!   pipeline/request-not-echoed       no response of a query carries it as `request`
//!   pipeline/request-altered          an object query's fields are not all present in its response's `request`
//!   inject/non-object, grid/degenerate   rekeyed panic / timeout on the historical witnesses
//!   balance/not-a-partition           load balancing loses or duplicates a query
//!   matcher/half-coordinate-pair-accepted   exactly one field of a coordinate pair under a map-matching plugin is not
//!                                     answered with an error response
//!
//! The command-line entry (`command_line_runner`, `CliArgs`): harness/src/c06/cli.rs (case lines `cli …`, oracle keys `cli/*`).
//!
//! Which checks catch which seeded changes (quick tier):
//!   C06_flatten_not_all_arrays         C06 + C12: corpus_mixed_state / user-defined split plugin (correspondence + itemwise oracle)
//!   C12_yens_spur_count_underflow      C12: corpus_ksp_input_classes + the k-shortest-paths fixtures (yens, grid+yens,
//!                                      yens_edge_oriented) — batch/timeout (the harness is built without overflow checks:
//!                                      `len() - 2` wraps and the search does not return; a debug build panics: batch/panic)
//!   C12_destination_y_only_accepted    C12 (and C06): corpus_coordinate_pairs under vertex_rtree / edge_rtree, and the
//!                                      generated `bad_coordinates` queries — matcher/half-coordinate-pair-accepted
//!   C06_cache_key_round_half_cast     C06: fine_cache_runs (key_precisions [2, 2], flat and gently descending links at the
//!                                      same speed, pairwise different documented keys) — cache/order-dependent-without-key-collision
//!   C06_cache_stores_adjusted_rate    C06: the same runs (real_world_energy_adjustment 1.166 is applied again on a hit)
//!   cache/order-dependent-without-key-collision   a batch depends on its order under a cache whose documented keys
//!                                      (round half away from zero of value * 10^p) are pairwise different
use crate::ctx::Ctx;
use crate::jsonproto::{dec, enc, hex, unhex};
use crate::rng::Rng;
use routee_compass::app::compass::compass_app::{apply_input_plugins, run_single_query, CompassApp};
use routee_compass::app::compass::compass_app_ops::apply_load_balancing_policy;
use routee_compass::app::compass::config::compass_app_builder::CompassAppBuilder;
use routee_compass::plugin::input::input_plugin::InputPlugin;
use routee_compass::plugin::input::InputPluginError;
use serde_json::{json, Map, Value};
use std::collections::{BTreeMap, HashSet};
use std::path::{Path, PathBuf};
use std::sync::{Arc, Mutex};

mod cli;

#[derive(Clone, Copy, PartialEq)]
pub enum Profile {
    C06,
    C12,
}

// ---------------------------------------------------------------------------------------------
// network + configuration

pub struct Net {
    pub n: usize,
    pub xy: Vec<(f64, f64)>,
    pub edges: Vec<(usize, usize, f64)>,
    pub speeds: Vec<f64>,
    /// reach[a][b]: b reachable from a
    pub reach: Vec<Vec<bool>>,
}

/// `n - 2` core vertices on a directed ring plus random chords (strongly connected), vertex `n-2` with only an
/// outgoing edge (never a destination), vertex `n-1` isolated
pub fn gen_net(rng: &mut Rng, n: usize) -> Net {
    gen_net_speeds(rng, n, &[25.0, 40.0, 55.0, 64.36, 112.0])
}

/// `speed_pool`: the posted speeds (km/h) the edges draw from
pub fn gen_net_speeds(rng: &mut Rng, n: usize, speed_pool: &[f64]) -> Net {
    let mut xy = vec![];
    for i in 0..n {
        let gx = (i % 6) as f64;
        let gy = (i / 6) as f64;
        xy.push((-105.0 + 0.01 * gx + rng.uniform(-0.002, 0.002), 39.7 + 0.01 * gy + rng.uniform(-0.002, 0.002)));
    }
    let mut edges = vec![];
    let core = n - 2;
    for i in 0..core {
        edges.push((i, (i + 1) % core, 0.0));
    }
    let extra = core + rng.below(2 * core);
    for _ in 0..extra {
        let a = rng.below(core);
        let b = rng.below(core);
        if a != b {
            edges.push((a, b, 0.0));
        }
    }
    edges.push((n - 2, rng.below(core), 0.0));
    for e in edges.iter_mut() {
        let (x1, y1) = xy[e.0];
        let (x2, y2) = xy[e.1];
        let d = (((x1 - x2) * 85_000.0).powi(2) + ((y1 - y2) * 111_000.0).powi(2)).sqrt();
        // irrational-looking lengths: equal-cost alternatives are (practically) excluded
        e.2 = (d * (1.0 + rng.uniform(0.05, 0.8))).max(1.0);
    }
    let speeds = edges.iter().map(|_| speed_pool[rng.below(speed_pool.len())]).collect();
    let mut reach = vec![vec![false; n]; n];
    for a in 0..n {
        reach[a][a] = true;
        let mut stack = vec![a];
        while let Some(u) = stack.pop() {
            for (s, d, _) in edges.iter() {
                if *s == u && !reach[a][*d] {
                    reach[a][*d] = true;
                    stack.push(*d);
                }
            }
        }
    }
    Net { n, xy, edges, speeds, reach }
}

pub fn write_net(dir: &Path, net: &Net) {
    std::fs::create_dir_all(dir).expect("mkdir");
    let mut v = String::from("vertex_id,x,y\n");
    for (i, (x, y)) in net.xy.iter().enumerate() {
        v.push_str(&format!("{},{},{}\n", i, x, y));
    }
    std::fs::write(dir.join("vertices.csv"), v).unwrap();
    let mut e = String::from("edge_id,src_vertex_id,dst_vertex_id,distance\n");
    let mut g = String::new();
    for (i, (a, b, d)) in net.edges.iter().enumerate() {
        e.push_str(&format!("{},{},{},{}\n", i, a, b, d));
        g.push_str(&format!("LINESTRING ({} {}, {} {})\n", net.xy[*a].0, net.xy[*a].1, net.xy[*b].0, net.xy[*b].1));
    }
    std::fs::write(dir.join("edges.csv"), e).unwrap();
    std::fs::write(dir.join("geoms.txt"), g).unwrap();
    let s: String = net.speeds.iter().map(|s| format!("{}\n", s)).collect();
    std::fs::write(dir.join("speeds.csv"), s).unwrap();
}

/// an input plugin of the configuration
#[derive(Clone, Debug)]
pub enum PluginSpec {
    Grid,
    Inject { key: String, value: Value, overwrite: Option<bool> },
    LbNum { col: Option<String> },
    LbCat { col: Option<String>, mapping: Vec<(String, f64)>, default: Option<f64> },
    /// opaque to the model (recorded): haversine load balancer, vertex r-tree, edge r-tree
    LbHaversine,
    VertexRtree { tolerance_m: Option<f64> },
    EdgeRtree { tolerance_m: Option<f64> },
    /// user-defined plugins (not built from TOML: pushed into the public `CompassApp.input_plugins`)
    UserSplit { key: String },
    UserFailOn { marker: String },
    UserBreaker { key: String },
}

/// user-defined plugin: a query carrying `key` with a non-empty array is replaced by one child per element — the
/// query minus `key`; an object element is merged key by key, any other element goes under "alt".  Other queries
/// are left alone, so the state after it may MIX plain queries and nested arrays.
pub struct UserSplit {
    pub key: String,
}

impl InputPlugin for UserSplit {
    fn process(&self, input: &mut Value) -> Result<(), InputPluginError> {
        let alts = match input.get(&self.key).and_then(|v| v.as_array()) {
            Some(a) if !a.is_empty() => a.clone(),
            _ => return Ok(()),
        };
        let mut base = match input.as_object() {
            Some(o) => o.clone(),
            None => return Ok(()),
        };
        base.shift_remove(&self.key);
        let children: Vec<Value> = alts
            .into_iter()
            .map(|alt| {
                let mut child = base.clone();
                match alt {
                    Value::Object(o) => {
                        for (k, v) in o {
                            child.insert(k, v);
                        }
                    }
                    other => {
                        child.insert("alt".to_string(), other);
                    }
                }
                Value::Object(child)
            })
            .collect();
        *input = Value::Array(children);
        Ok(())
    }
}

/// user-defined plugin: fails on a query carrying `marker`
pub struct UserFailOn {
    pub marker: String,
}

impl InputPlugin for UserFailOn {
    fn process(&self, input: &mut Value) -> Result<(), InputPluginError> {
        if input.get(&self.marker).is_some() {
            Err(InputPluginError::InputPluginFailed(format!("query carries {}", self.marker)))
        } else {
            Ok(())
        }
    }
}

/// user-defined plugin: breaks the invariant of the query state when the query says so under `key`
pub struct UserBreaker {
    pub key: String,
}

impl InputPlugin for UserBreaker {
    fn process(&self, input: &mut Value) -> Result<(), InputPluginError> {
        let mode = input.get(&self.key).and_then(|v| v.as_str()).map(|s| s.to_string());
        match mode.as_deref() {
            Some("scalar") => *input = json!(7),
            Some("null") => *input = Value::Null,
            Some("nested") => *input = json!([[input.clone()]]),
            Some("empty") => *input = json!([]),
            Some("mixed") => *input = json!([input.clone(), [input.clone()]]),
            _ => {}
        }
        Ok(())
    }
}

impl PluginSpec {
    fn user(&self) -> bool {
        matches!(self, PluginSpec::UserSplit { .. } | PluginSpec::UserFailOn { .. } | PluginSpec::UserBreaker { .. })
    }
    fn user_plugin(&self) -> Option<Arc<dyn InputPlugin>> {
        match self {
            PluginSpec::UserSplit { key } => Some(Arc::new(UserSplit { key: key.clone() })),
            PluginSpec::UserFailOn { marker } => Some(Arc::new(UserFailOn { marker: marker.clone() })),
            PluginSpec::UserBreaker { key } => Some(Arc::new(UserBreaker { key: key.clone() })),
            _ => None,
        }
    }
    fn opaque(&self) -> bool {
        matches!(self, PluginSpec::LbHaversine | PluginSpec::VertexRtree { .. } | PluginSpec::EdgeRtree { .. })
    }
    fn name(&self) -> &'static str {
        match self {
            PluginSpec::Grid => "grid",
            PluginSpec::Inject { overwrite: Some(false), .. } => "inject_no_overwrite",
            PluginSpec::Inject { .. } => "inject_overwrite",
            PluginSpec::LbNum { .. } => "lb_numeric",
            PluginSpec::LbCat { .. } => "lb_categorical",
            PluginSpec::LbHaversine => "lb_haversine",
            PluginSpec::VertexRtree { .. } => "vertex_rtree",
            PluginSpec::EdgeRtree { .. } => "edge_rtree",
            PluginSpec::UserSplit { .. } => "user_split",
            PluginSpec::UserFailOn { .. } => "user_fail_on",
            PluginSpec::UserBreaker { .. } => "user_breaker",
        }
    }
    fn toml(&self, dir: &str) -> String {
        match self {
            PluginSpec::Grid => "{ type = \"grid_search\" }".to_string(),
            PluginSpec::Inject { key, value, overwrite } => {
                let ow = match overwrite {
                    Some(b) => format!(", overwrite = {}", b),
                    None => String::new(),
                };
                format!("{{ type = \"inject\", key = \"{}\", value = '{}', format = \"json\"{} }}", key, serde_json::to_string(value).unwrap(), ow)
            }
            PluginSpec::LbNum { col } => {
                let c = col.as_ref().map(|c| format!(", column_name = \"{}\"", c)).unwrap_or_default();
                format!("{{ type = \"load_balancer\", weight_heuristic = {{ type = \"custom\", custom_weight_type = {{ type = \"numeric\"{} }} }} }}", c)
            }
            PluginSpec::LbCat { col, mapping, default } => {
                let c = col.as_ref().map(|c| format!(", column_name = \"{}\"", c)).unwrap_or_default();
                let m: Vec<String> = mapping.iter().map(|(k, v)| format!("{} = {:?}", k, v)).collect();
                let d = default.map(|d| format!(", default = {:?}", d)).unwrap_or_default();
                format!("{{ type = \"load_balancer\", weight_heuristic = {{ type = \"custom\", custom_weight_type = {{ type = \"categorical\"{}, mapping = {{ {} }}{} }} }} }}", c, m.join(", "), d)
            }
            PluginSpec::LbHaversine => "{ type = \"load_balancer\", weight_heuristic = { type = \"haversine\" } }".to_string(),
            PluginSpec::VertexRtree { tolerance_m } => {
                let t = tolerance_m.map(|t| format!(", distance_tolerance = {:?}, distance_unit = \"meters\"", t)).unwrap_or_default();
                format!("{{ type = \"vertex_rtree\", vertices_input_file = \"{}/vertices.csv\"{} }}", dir, t)
            }
            PluginSpec::EdgeRtree { tolerance_m } => {
                let t = tolerance_m.map(|t| format!(", distance_tolerance = {:?}, distance_unit = \"meters\"", t)).unwrap_or_default();
                format!("{{ type = \"edge_rtree\", geometry_input_file = \"{}/geoms.txt\"{} }}", dir, t)
            }
            // not part of the configuration file
            PluginSpec::UserSplit { .. } | PluginSpec::UserFailOn { .. } | PluginSpec::UserBreaker { .. } => String::new(),
        }
    }
    /// the plugin as the model sees it (opaque ones: the recorded table)
    fn model_tokens(&self, table: Option<&Vec<TableRec>>) -> String {
        match self {
            PluginSpec::Grid => "grid".to_string(),
            PluginSpec::Inject { key, value, overwrite } => {
                format!("inject {} {} {}", hex(key), enc(value), if overwrite.unwrap_or(true) { 1 } else { 0 })
            }
            PluginSpec::LbNum { col } => format!("lbnum {}", hex(col.as_deref().unwrap_or("query_weight_estimate"))),
            PluginSpec::LbCat { col, mapping, default } => {
                let mut s = format!("lbcat {} {}", hex(col.as_deref().unwrap_or("query_weight_estimate")), mapping.len());
                for (k, v) in mapping {
                    s.push_str(&format!(" {} {}", hex(k), v.to_bits()));
                }
                match default {
                    Some(d) => s.push_str(&format!(" s {}", d.to_bits())),
                    None => s.push_str(" n"),
                }
                s
            }
            PluginSpec::UserSplit { key } => format!("usplit {}", hex(key)),
            PluginSpec::UserFailOn { marker } => format!("ufail {}", hex(marker)),
            PluginSpec::UserBreaker { key } => format!("ubreak {}", hex(key)),
            _ => {
                let empty = vec![];
                let t = table.unwrap_or(&empty);
                let mut seen = HashSet::new();
                let mut items = vec![];
                for r in t {
                    if seen.insert(r.key.clone()) {
                        items.push(format!("{} {}", hex(&r.key), r.outcome));
                    }
                }
                let mut s = format!("table {}", items.len());
                for i in items {
                    s.push(' ');
                    s.push_str(&i);
                }
                s
            }
        }
    }
}

#[derive(Clone, Copy, PartialEq, Debug)]
pub enum Traversal {
    Distance,
    Speed,
    /// energy model (Toyota Camry random forest) over the speed table; `cache`: a float cache with keys rounded to tens
    Energy { cache: bool },
}

pub struct Fixture {
    pub net: Net,
    pub dir: PathBuf,
    pub plugins: Vec<PluginSpec>,
    pub traversal: Traversal,
    pub edge_oriented: bool,
    /// `[termination] solution_size` limit, when set
    pub solution_limit: Option<usize>,
    pub app: CompassApp,
    pub label: String,
    /// the `[algorithm]` section when it is not the default: a k-shortest-paths search ("yens" / "ksp_single_via")
    pub ksp: Option<&'static str>,
}

pub fn config_toml(dir: &Path, parallelism: usize, traversal: Traversal, plugins: &[PluginSpec], persist: bool, edge_oriented: bool, solution_limit: Option<usize>) -> String {
    let d = dir.to_str().unwrap();
    // the first two variants use the speed-table traversal model (state: distance and time) and differ in the objective
    let trav = match traversal {
        Traversal::Distance | Traversal::Speed => {
            let (wd, wt) = if traversal == Traversal::Distance { (1, 0) } else { (1, 1) };
            format!(
                "[traversal]\ntype = \"speed_table\"\nspeed_table_input_file = \"{d}/speeds.csv\"\nspeed_unit = \"kilometers_per_hour\"\noutput_time_unit = \"minutes\"\n[cost]\ncost_aggregation = \"sum\"\n[cost.weights]\ndistance = {wd}\ntime = {wt}\n[cost.vehicle_rates.time]\ntype = \"raw\"\n[cost.vehicle_rates.distance]\ntype = \"raw\"\n"
            )
        }
        Traversal::Energy { cache } => {
            let cache_line = if cache { "float_cache_policy = { cache_size = 1000, key_precisions = [-1, 0] }\n" } else { "" };
            format!(
                "[traversal]\ntype = \"energy_model\"\ngrade_table_grade_unit = \"decimal\"\ntime_unit = \"minutes\"\ndistance_unit = \"miles\"\n[traversal.time_model]\ntype = \"speed_table\"\nspeed_table_input_file = \"{d}/speeds.csv\"\nspeed_unit = \"kilometers_per_hour\"\ndistance_unit = \"miles\"\ntime_unit = \"minutes\"\n[[traversal.vehicles]]\nname = \"camry\"\ntype = \"ice\"\nmodel_input_file = \"{model}\"\nmodel_type = \"smartcore\"\nspeed_unit = \"miles_per_hour\"\ngrade_unit = \"decimal\"\nenergy_rate_unit = \"gallons_gasoline_per_mile\"\nideal_energy_rate = 0.02857143\nreal_world_energy_adjustment = 1.166\n{cache_line}[cost]\ncost_aggregation = \"sum\"\n[cost.weights]\ndistance = 1\ntime = 1\nenergy_liquid = 1\n[cost.vehicle_rates.time]\ntype = \"raw\"\n[cost.vehicle_rates.distance]\ntype = \"raw\"\n[cost.vehicle_rates.energy_liquid]\ntype = \"raw\"\n",
                model = format!("{}/rust/routee-compass-powertrain/src/routee/test/Toyota_Camry.bin", std::env::var("VERIF_REPO").unwrap_or_else(|_| "/repo".to_string()))
            )
        }
    };
    let term = match solution_limit {
        Some(l) => format!("[termination]\ntype = \"solution_size\"\nlimit = {}\n", l),
        None => String::new(),
    };
    let ps: Vec<String> = plugins.iter().filter(|p| !p.user()).map(|p| p.toml(d)).collect();
    format!(
        r#"parallelism = {parallelism}
search_orientation = "{orient}"
response_persistence_policy = "{policy}"
[graph]
edge_list_input_file = "{d}/edges.csv"
vertex_list_input_file = "{d}/vertices.csv"
verbose = false
{trav}{term}
[plugin]
input_plugins = [{plugins}]
output_plugins = [
    {{ type = "summary" }},
    {{ type = "traversal", route = "edge_id", geometry_input_file = "{d}/geoms.txt" }},
]
"#,
        orient = if edge_oriented { "edge" } else { "vertex" },
        policy = if persist { "persist_response_in_memory" } else { "discard_response_from_memory" },
        plugins = ps.join(", "),
    )
}

pub fn build_app(dir: &Path, toml: &str) -> Result<CompassApp, String> {
    let builder = CompassAppBuilder::default();
    let path = dir.join("config.toml");
    std::fs::write(&path, toml).map_err(|e| e.to_string())?;
    CompassApp::try_from_config_toml_string(toml.to_string(), path.to_str().unwrap().to_string(), &builder).map_err(|e| e.to_string())
}

// ---------------------------------------------------------------------------------------------
// canonicalisation

fn variant(e: &InputPluginError) -> &'static str {
    match e {
        InputPluginError::BuildFailed(_) => "BuildFailed",
        InputPluginError::MissingExpectedQueryField(_) => "MissingExpectedQueryField",
        InputPluginError::MissingQueryFieldPair(_, _) => "MissingQueryFieldPair",
        InputPluginError::QueryFieldHasInvalidType(_, _) => "QueryFieldHasInvalidType",
        InputPluginError::UnexpectedQueryStructure(_) => "UnexpectedQueryStructure",
        InputPluginError::JsonError { .. } => "JsonError",
        InputPluginError::InputPluginFailed(_) => "InputPluginFailed",
        InputPluginError::InternalError(_) => "InternalError",
    }
}

/// error text -> small enum (never compare error strings)
fn error_kind(text: &str) -> &'static str {
    let t = text;
    if t.starts_with("an input plugin has broken the invariant") {
        "Invariant"
    } else if t.starts_with("failure running plugin:") {
        "InputPluginFailed"
    } else if t.starts_with("expected query to be a json object") {
        "UnexpectedQueryStructure"
    } else if t.starts_with("required query field") && t.ends_with("not found") {
        "MissingExpectedQueryField"
    } else if t.starts_with("required query field") && t.contains("is not of type") {
        "QueryFieldHasInvalidType"
    } else if t.contains(" provided without ") && !t.contains(':') {
        "MissingQueryFieldPair"
    } else if t.starts_with("plugin experienced JSON error") {
        "JsonError"
    } else if t.starts_with("unexpected error:") {
        "InternalError"
    } else if t.starts_with("failure building input plugin") {
        "BuildFailed"
    } else if t.starts_with("no path exists") {
        "NoPath"
    } else if t.starts_with("query terminated") {
        "Terminated"
    } else if t.starts_with("failure running input plugin:") {
        "SearchQueryField"
    } else if t.starts_with("failure running output plugin:") {
        "OutputPlugin"
    } else if t.starts_with("failure building search algorithm") {
        "SearchBuild"
    } else if t.starts_with("The search failed due to a road network error") {
        "Network"
    } else if t.starts_with("The search failed due to") {
        "SearchModel"
    } else if t.starts_with("failure due to JSON") {
        "Json"
    } else if t.starts_with("internal error") {
        "Internal"
    } else {
        "Other"
    }
}

fn sort_keys(v: &Value) -> Value {
    match v {
        Value::Object(m) => {
            let mut items: Vec<(&String, &Value)> = m.iter().collect();
            items.sort_by(|a, b| a.0.cmp(b.0));
            let mut out = Map::new();
            for (k, x) in items {
                out.insert(k.clone(), sort_keys(x));
            }
            Value::Object(out)
        }
        Value::Array(xs) => Value::Array(xs.iter().map(sort_keys).collect()),
        other => other.clone(),
    }
}

/// what the property compares: request, ok / error kind, route edge ids, route cost, final state
fn canon_response(r: &Value) -> Value {
    let Some(obj) = r.as_object() else { return json!({"malformed": r}) };
    let Some(req) = obj.get("request") else { return json!({"malformed": r}) };
    if let Some(e) = obj.get("error") {
        let kind = e.as_str().map(error_kind).unwrap_or("NonText");
        if std::env::var("C06_DBG").is_ok() && kind == "SearchBuild" {
            use std::io::Write;
            if let Ok(mut f) = std::fs::OpenOptions::new().create(true).append(true).open("/tmp/c06dbg.txt") {
                let _ = writeln!(f, "{}", e);
            }
        }
        return json!({"request": req, "error": kind});
    }
    match obj.get("route") {
        Some(Value::Object(route)) => {
            // `total_cost` is the sum of the cost components in feature order (`CostModel::serialize_cost`; it used
            // to be folded over a HashMap, so its last bit varied from run to run): compared bit-exactly like the
            // components, and checked against their sum with a tolerance.
            let cost = sort_keys(route.get("cost").unwrap_or(&Value::Null));
            let mut check = Value::Null;
            if let Value::Object(m) = &cost {
                if let Some(total) = m.get("total_cost").and_then(|t| t.as_f64()) {
                    let sum: f64 = m.iter().filter(|(k, _)| k.as_str() != "total_cost").filter_map(|(_, v)| v.as_f64()).sum();
                    if !((total - sum).abs() <= 1e-9 * total.abs().max(1.0)) {
                        check = json!(format!("total_cost {} != sum of components {}", total, sum));
                    }
                }
            }
            let mut r = json!({"request": req, "route": {
                "path": route.get("path").cloned().unwrap_or(Value::Null),
                "cost": cost,
                "state": sort_keys(route.get("traversal_summary").unwrap_or(&Value::Null)),
            }});
            if !check.is_null() {
                r["total_cost_check"] = check;
            }
            r
        }
        Some(other) => json!({"request": req, "route": sort_keys(other)}),
        None => json!({"request": req, "route": "absent"}),
    }
}

/// the canonical response without `route.cost.total_cost`
fn strip_total(c: &Value) -> Value {
    let mut c = c.clone();
    if let Some(Value::Object(cost)) = c.get_mut("route").and_then(|r| r.get_mut("cost")) {
        cost.shift_remove("total_cost");
    }
    c
}

// ---------------------------------------------------------------------------------------------
// recording wrapper for opaque plugins

#[derive(Clone, Debug)]
pub struct TableRec {
    /// compact text of the query the plugin was applied to
    key: String,
    /// `ok <json>` | `err <Kind> <json left in the query>`
    outcome: String,
}

struct Recorder {
    inner: Arc<dyn InputPlugin>,
    log: Arc<Mutex<Vec<TableRec>>>,
}

impl InputPlugin for Recorder {
    fn process(&self, input: &mut Value) -> Result<(), InputPluginError> {
        let key = serde_json::to_string(input).unwrap_or_default();
        let r = self.inner.process(input);
        let outcome = match &r {
            Ok(()) => format!("ok {}", enc(input)),
            Err(e) => format!("err {} {}", variant(e), enc(input)),
        };
        if let Ok(mut l) = self.log.lock() {
            l.push(TableRec { key, outcome });
        }
        r
    }
}

// ---------------------------------------------------------------------------------------------
// the work done in the child

#[derive(Clone, Debug)]
pub struct Job {
    /// indices into the batch, in the order offered
    pub order: Vec<usize>,
    pub run_cfg: Option<Value>,
    /// rayon pool size for this call (0: the global pool)
    pub pool: usize,
}

#[derive(Clone, Debug, PartialEq)]
pub enum RunOut {
    /// canonical responses, protocol-encoded, in the order returned
    Ok(Vec<String>),
    Err(String),
    Panic,
    /// the child died (alarm, memory limit, abort) before reporting this result
    Dead,
}

/// the item-by-item expansion of one query with the real plugins
#[derive(Clone, Debug)]
pub struct Ideal {
    /// items on which a plugin failed (each one error response of its own)
    pub dead: usize,
    /// surviving items that are not objects
    pub nonobj: usize,
    /// encoded canonical responses of the surviving object items, run alone
    pub live: Vec<String>,
}

#[derive(Default, Debug)]
pub struct Report {
    pub jobs: Vec<RunOut>,
    /// each batch query run alone through `app.run` (parallelism 1)
    pub alone: Vec<RunOut>,
    /// each batch query run alone under the discard policy
    pub alone_discard: Vec<RunOut>,
    /// number of responses under element-wise semantics (real plugins applied item by item)
    pub ideal: Vec<Option<Ideal>>,
    /// input stage of each query alone: `Ok(n expanded)` or `Err(encoded canonical error response)`
    pub pipe: Vec<Option<Result<usize, String>>>,
    /// recorded tables, by plugin index
    pub tables: BTreeMap<usize, Vec<TableRec>>,
    /// (compact text of expanded query, encoded canonical response)
    pub respond: Vec<(String, String)>,
    /// expanded queries whose response differed between two runs in the same process: (only total_cost?, query)
    pub not_reproducible: Vec<(bool, String)>,
    pub complete: bool,
}

fn run_out(r: std::thread::Result<Result<Vec<Value>, routee_compass::app::compass::compass_app_error::CompassAppError>>) -> RunOut {
    match r {
        Err(_) => RunOut::Panic,
        Ok(Err(e)) => {
            let t = e.to_string();
            RunOut::Err(if t.contains("cannot find min bin of empty slice") { "MinBinEmpty".to_string() } else { format!("Other:{}", error_kind(&t)) })
        }
        Ok(Ok(rs)) => RunOut::Ok(rs.iter().map(|r| enc(&canon_response(r))).collect()),
    }
}

fn out_line(o: &RunOut) -> String {
    match o {
        RunOut::Ok(rs) => {
            let mut s = format!("ok {}", rs.len());
            for r in rs {
                s.push(' ');
                s.push_str(r);
            }
            s
        }
        RunOut::Err(k) => format!("err {}", k),
        RunOut::Panic => "panic".to_string(),
        RunOut::Dead => "diverges".to_string(),
    }
}

fn call_run(app: &CompassApp, batch: Vec<Value>, cfg: Option<&Value>, pool: usize) -> RunOut {
    let r = std::panic::catch_unwind(std::panic::AssertUnwindSafe(|| {
        if pool == 0 {
            app.run(batch, cfg)
        } else {
            match rayon::ThreadPoolBuilder::new().num_threads(pool).build() {
                Ok(p) => p.install(|| app.run(batch, cfg)),
                Err(_) => app.run(batch, cfg),
            }
        }
    }));
    run_out(r)
}

/// number of responses if every item were handled on its own: a failing item yields one error response and its
/// siblings go on; an array result is replaced by its elements; every surviving item yields one response
fn itemwise(plugins: &[Arc<dyn InputPlugin>], q: &Value) -> Option<(usize, Vec<Value>)> {
    let r = std::panic::catch_unwind(std::panic::AssertUnwindSafe(|| {
        let mut items = vec![q.clone()];
        let mut dead = 0usize;
        for p in plugins {
            let mut next = vec![];
            for mut it in items {
                match p.process(&mut it) {
                    Err(_) => dead += 1,
                    Ok(()) => match it {
                        Value::Array(xs) => next.extend(xs),
                        other => next.push(other),
                    },
                }
            }
            items = next;
        }
        (dead, items)
    }));
    r.ok()
}

fn child_work(fx: &Fixture, batch: &[Value], jobs: &[Job], want_alone: bool, emit: &mut dyn FnMut(String)) {
    let app = &fx.app;
    // 1. the batch runs themselves
    for (j, job) in jobs.iter().enumerate() {
        let b: Vec<Value> = job.order.iter().map(|i| batch[*i].clone()).collect();
        let o = call_run(app, b, job.run_cfg.as_ref(), job.pool);
        emit(format!("J {} {}", j, out_line(&o)));
    }
    // 2. every query alone
    if want_alone {
        let one = json!({"parallelism": 1, "response_persistence_policy": "persist_response_in_memory"});
        for (i, q) in batch.iter().enumerate() {
            let o = call_run(app, vec![q.clone()], Some(&one), 0);
            emit(format!("A {} {}", i, out_line(&o)));
        }
        let one_discard = json!({"parallelism": 1, "response_persistence_policy": "discard_response_from_memory"});
        for (i, q) in batch.iter().enumerate() {
            let o = call_run(app, vec![q.clone()], Some(&one_discard), 0);
            emit(format!("D {} {}", i, out_line(&o)));
        }
    }
    emit_tables(fx, batch, emit);
}

/// tables for the model: recorded opaque plugins, the single-query function on every expanded query, and the
/// item-by-item expansion of every query
fn emit_tables(fx: &Fixture, batch: &[Value], emit: &mut dyn FnMut(String)) {
    let app = &fx.app;
    let logs: Vec<Arc<Mutex<Vec<TableRec>>>> = fx.plugins.iter().map(|_| Arc::new(Mutex::new(vec![]))).collect();
    let rec_plugins: Vec<Arc<dyn InputPlugin>> = app
        .input_plugins
        .iter()
        .enumerate()
        .map(|(i, p)| {
            if fx.plugins[i].opaque() {
                Arc::new(Recorder { inner: p.clone(), log: logs[i].clone() }) as Arc<dyn InputPlugin>
            } else {
                p.clone()
            }
        })
        .collect();
    let mut seen: HashSet<String> = HashSet::new();
    for (i, q) in batch.iter().enumerate() {
        let r = std::panic::catch_unwind(std::panic::AssertUnwindSafe(|| apply_input_plugins(q, &rec_plugins)));
        match &r {
            Ok(Ok(ex)) => emit(format!("P {} ok {}", i, ex.len())),
            Ok(Err(resp)) => emit(format!("P {} err {}", i, enc(&canon_response(resp)))),
            Err(_) => emit(format!("P {} panic", i)),
        }
        if let Ok(Ok(expanded)) = r {
            for e in expanded {
                let key = serde_json::to_string(&e).unwrap_or_default();
                if !seen.insert(key.clone()) {
                    continue;
                }
                let resp = std::panic::catch_unwind(std::panic::AssertUnwindSafe(|| {
                    run_single_query(&e, &app.search_orientation, &app.output_plugins, &app.search_app)
                }));
                let c = match resp {
                    Ok(Ok(v)) => canon_response(&v),
                    Ok(Err(_)) => json!({"request": e, "error": "RunSingleQueryErr"}),
                    Err(_) => json!({"request": e, "error": "RunSingleQueryPanic"}),
                };
                emit(format!("R {} {}", hex(&key), enc(&c)));
                // the same query once more: the response must be reproducible bit for bit
                let again = std::panic::catch_unwind(std::panic::AssertUnwindSafe(|| {
                    run_single_query(&e, &app.search_orientation, &app.output_plugins, &app.search_app)
                }));
                if let Ok(Ok(v2)) = again {
                    let c2 = canon_response(&v2);
                    if enc(&c2) != enc(&c) {
                        emit(format!("N {} {} {}", if strip_total(&c) == strip_total(&c2) { "total" } else { "other" }, hex(&key), enc(&c2)));
                    }
                }
            }
        }
        // the item-by-item expansion with the real plugins, and the real single-query answer of every expanded query
        match itemwise(&app.input_plugins, q) {
            Some((dead, items)) => {
                let nonobj = items.iter().filter(|x| !x.is_object()).count();
                let mut line = format!("I {} {} {} {}", i, dead, nonobj, items.len() - nonobj);
                for e in items.iter().filter(|x| x.is_object()) {
                    let resp = std::panic::catch_unwind(std::panic::AssertUnwindSafe(|| {
                        run_single_query(e, &app.search_orientation, &app.output_plugins, &app.search_app)
                    }));
                    let c = match resp {
                        Ok(Ok(v)) => canon_response(&v),
                        _ => json!({"request": e, "error": "RunSingleQueryFailed"}),
                    };
                    line.push(' ');
                    line.push_str(&enc(&c));
                }
                emit(line);
            }
            None => emit(format!("I {} panic", i)),
        }
    }
    for (i, l) in logs.iter().enumerate() {
        if let Ok(l) = l.lock() {
            for r in l.iter() {
                emit(format!("T {} {} {}", i, hex(&r.key), r.outcome));
            }
        }
    }
    emit("END".to_string());
}

fn parse_run_out(rest: &str) -> RunOut {
    let mut toks = rest.split(' ');
    match toks.next() {
        Some("ok") => {
            let n: usize = toks.next().and_then(|t| t.parse().ok()).unwrap_or(0);
            // split the remaining tokens into n self-delimiting values
            let all: Vec<&str> = toks.collect();
            let mut out = vec![];
            let mut pos = 0;
            for _ in 0..n {
                let mut it = all[pos..].iter().copied();
                let before = all.len() - pos;
                if dec(&mut it).is_none() {
                    break;
                }
                let used = before - it.count();
                out.push(all[pos..pos + used].join(" "));
                pos += used;
            }
            RunOut::Ok(out)
        }
        Some("err") => RunOut::Err(toks.next().unwrap_or("?").to_string()),
        Some("panic") => RunOut::Panic,
        _ => RunOut::Dead,
    }
}

fn parse_report(text: &str, n_jobs: usize, n_batch: usize, want_alone: bool) -> Report {
    let mut rep = Report { jobs: vec![RunOut::Dead; n_jobs], alone: if want_alone { vec![RunOut::Dead; n_batch] } else { vec![] }, alone_discard: if want_alone { vec![RunOut::Dead; n_batch] } else { vec![] }, ideal: vec![None; n_batch], pipe: vec![None; n_batch], ..Default::default() };
    for line in text.lines() {
        let (tag, rest) = line.split_once(' ').unwrap_or((line, ""));
        match tag {
            "J" | "A" | "D" => {
                let (i, r) = rest.split_once(' ').unwrap_or((rest, ""));
                let i: usize = i.parse().unwrap_or(usize::MAX);
                let o = parse_run_out(r);
                let v = if tag == "J" { &mut rep.jobs } else if tag == "A" { &mut rep.alone } else { &mut rep.alone_discard };
                if i < v.len() {
                    v[i] = o;
                }
            }
            "I" => {
                let (i, r) = rest.split_once(' ').unwrap_or((rest, ""));
                if let Ok(i) = i.parse::<usize>() {
                    if i < rep.ideal.len() {
                        let mut t = r.splitn(4, ' ');
                        if let (Some(Ok(dead)), Some(Ok(nonobj)), Some(Ok(_n))) = (t.next().map(|x| x.parse::<usize>()), t.next().map(|x| x.parse::<usize>()), t.next().map(|x| x.parse::<usize>())) {
                            let live = match parse_run_out(&format!("ok {} {}", _n, t.next().unwrap_or(""))) {
                                RunOut::Ok(v) => v,
                                _ => vec![],
                            };
                            rep.ideal[i] = Some(Ideal { dead, nonobj, live });
                        }
                    }
                }
            }
            "P" => {
                let mut p = rest.splitn(3, ' ');
                if let (Some(i), Some(k)) = (p.next(), p.next()) {
                    if let Ok(i) = i.parse::<usize>() {
                        if i < rep.pipe.len() {
                            rep.pipe[i] = match k {
                                "ok" => p.next().and_then(|n| n.parse().ok()).map(Ok),
                                "err" => p.next().map(|r| Err(r.to_string())),
                                _ => None,
                            };
                        }
                    }
                }
            }
            "R" => {
                if let Some((k, v)) = rest.split_once(' ') {
                    if let Some(k) = unhex(k) {
                        rep.respond.push((k, v.to_string()));
                    }
                }
            }
            "N" => {
                let mut p = rest.splitn(3, ' ');
                if let (Some(kind), Some(k)) = (p.next(), p.next()) {
                    rep.not_reproducible.push((kind == "total", unhex(k).unwrap_or_default()));
                }
            }
            "T" => {
                let mut p = rest.splitn(3, ' ');
                if let (Some(i), Some(k), Some(o)) = (p.next(), p.next(), p.next()) {
                    if let (Ok(i), Some(k)) = (i.parse::<usize>(), unhex(k)) {
                        rep.tables.entry(i).or_default().push(TableRec { key: k, outcome: o.to_string() });
                    }
                }
            }
            "END" => rep.complete = true,
            _ => {}
        }
    }
    rep
}

/// run the work in a forked child: `secs` alarm, 6 GiB address space (16 worker threads reserve a lot)
fn forked(fx: &Fixture, batch: &[Value], jobs: &[Job], want_alone: bool, secs: u32) -> Report {
    let text = fork_text(secs, &mut |emit| child_work(fx, batch, jobs, want_alone, emit));
    parse_report(&text, jobs.len(), batch.len(), want_alone)
}

/// run `work` in a forked child (alarm, address-space limit, stderr to /dev/null) and return the lines it emitted
/// (everything up to the point where it died, if it died)
fn fork_text(secs: u32, work: &mut dyn FnMut(&mut dyn FnMut(String))) -> String {
    for attempt in 0..5 {
        if let Some(r) = fork_text_once(secs, work) {
            return r;
        }
        // pipe() or fork() failed (process table full on a loaded machine): wait and try again
        std::thread::sleep(std::time::Duration::from_millis(500 * (attempt + 1)));
    }
    String::new()
}

fn fork_text_once(secs: u32, work: &mut dyn FnMut(&mut dyn FnMut(String))) -> Option<String> {
    unsafe {
        let mut fds = [0i32; 2];
        if libc::pipe(fds.as_mut_ptr()) != 0 {
            return None;
        }
        let pid = libc::fork();
        if pid < 0 {
            libc::close(fds[0]);
            libc::close(fds[1]);
            return None;
        }
        if pid == 0 {
            libc::close(fds[0]);
            let devnull = libc::open(b"/dev/null\0".as_ptr() as *const libc::c_char, libc::O_WRONLY);
            if devnull >= 0 {
                libc::dup2(devnull, 2);
            }
            let lim = libc::rlimit { rlim_cur: 6 << 30, rlim_max: 6 << 30 };
            libc::setrlimit(libc::RLIMIT_AS, &lim);
            libc::alarm(secs);
            let fd = fds[1];
            let mut emit = |mut s: String| {
                s.push('\n');
                let b = s.as_bytes();
                let mut off = 0;
                while off < b.len() {
                    let n = libc::write(fd, b[off..].as_ptr() as *const libc::c_void, b.len() - off);
                    if n <= 0 {
                        break;
                    }
                    off += n as usize;
                }
            };
            work(&mut emit);
            // coverage measurement only (scratch build with `--cfg covflush -C instrument-coverage`): `_exit` skips
            // the atexit handler that writes the profile
            #[cfg(covflush)]
            {
                extern "C" {
                    fn __llvm_profile_write_file() -> i32;
                }
                __llvm_profile_write_file();
            }
            libc::_exit(0);
        }
        libc::close(fds[1]);
        let mut buf = Vec::new();
        let mut chunk = [0u8; 65536];
        loop {
            let n = libc::read(fds[0], chunk.as_mut_ptr() as *mut libc::c_void, chunk.len());
            if n <= 0 {
                break;
            }
            buf.extend_from_slice(&chunk[..n as usize]);
        }
        libc::close(fds[0]);
        let mut status = 0i32;
        libc::waitpid(pid, &mut status, 0);
        Some(String::from_utf8_lossy(&buf).to_string())
    }
}

// ---------------------------------------------------------------------------------------------
// query generators

#[derive(Clone, Copy, PartialEq, Debug)]
pub enum Expect {
    Ok,
    Err,
    Any,
}

#[derive(Clone, Debug)]
pub struct GenQ {
    pub q: Value,
    pub expect: Expect,
    pub kind: &'static str,
    /// oracle key under which a panic / timeout of a batch holding this query is reported (historical witnesses)
    pub danger: Option<&'static str>,
    /// oracle key used when this failing query is answered with a success
    pub fail_key: Option<&'static str>,
}

const INJECT_KEY: &str = "injected";
const LB_COL: &str = "w";
const CAT_COL: &str = "cls";
const ALTS_KEY: &str = "alts";
const MARK_KEY: &str = "poison";
const BREAK_KEY: &str = "break";

impl Fixture {
    fn has(&self, f: impl Fn(&PluginSpec) -> bool) -> bool {
        self.plugins.iter().any(f)
    }
    fn has_grid(&self) -> bool {
        self.has(|p| matches!(p, PluginSpec::Grid))
    }
    fn has_inject(&self) -> bool {
        self.has(|p| matches!(p, PluginSpec::Inject { .. }))
    }
    fn coords(&self) -> bool {
        self.has(|p| matches!(p, PluginSpec::VertexRtree { .. } | PluginSpec::EdgeRtree { .. } | PluginSpec::LbHaversine))
    }
    fn matcher(&self) -> bool {
        self.has(|p| matches!(p, PluginSpec::VertexRtree { .. } | PluginSpec::EdgeRtree { .. }))
    }
    fn core(&self) -> usize {
        self.net.n - 2
    }
}

fn coord_json(x: f64) -> Value {
    // coordinates as f32-exact doubles, so that the value read back as f32 is the vertex's own coordinate
    json!((x as f32) as f64)
}

/// the plugin-specific fields a query needs under this fixture (valid ones)
fn decorate(fx: &Fixture, rng: &mut Rng, m: &mut Map<String, Value>, o: usize, d: Option<usize>, exact: bool) -> bool {
    let mut sure = true;
    for p in &fx.plugins {
        match p {
            PluginSpec::LbNum { col } => {
                let w = match rng.below(4) {
                    0 => json!(rng.range(1, 9)),
                    1 => json!(rng.small_decimal(20, 1)),
                    2 => json!(rng.uniform(0.1, 50.0)),
                    _ => json!(1),
                };
                m.insert(col.clone().unwrap_or_else(|| "query_weight_estimate".to_string()), w);
            }
            PluginSpec::LbCat { col, mapping, .. } => {
                let sym = if rng.chance(5, 6) { mapping[rng.below(mapping.len())].0.clone() } else { "other".to_string() };
                if sym == "other" {
                    sure = false;
                }
                m.insert(col.clone().unwrap_or_else(|| "query_weight_estimate".to_string()), json!(sym));
            }
            _ => {}
        }
    }
    if fx.coords() {
        let j = if exact { 0.0 } else { 0.0008 };
        let (ox, oy) = fx.net.xy[o];
        m.insert("origin_x".into(), coord_json(ox + rng.uniform(-j, j)));
        m.insert("origin_y".into(), coord_json(oy + rng.uniform(-j, j)));
        if let Some(d) = d {
            let (dx, dy) = fx.net.xy[d];
            m.insert("destination_x".into(), coord_json(dx + rng.uniform(-j, j)));
            m.insert("destination_y".into(), coord_json(dy + rng.uniform(-j, j)));
        } else if fx.has(|p| matches!(p, PluginSpec::LbHaversine)) {
            sure = false; // the haversine heuristic needs a destination
        }
    }
    sure
}

fn od_fields(fx: &Fixture, m: &mut Map<String, Value>, o: usize, d: Option<usize>) {
    if fx.matcher() {
        return; // the matcher writes them
    }
    if fx.edge_oriented {
        // edge ids: first edge leaving o, first edge entering d
        let oe = fx.net.edges.iter().position(|e| e.0 == o).unwrap_or(0);
        m.insert("origin_edge".into(), json!(oe));
        if let Some(d) = d {
            let de = fx.net.edges.iter().position(|e| e.1 == d).unwrap_or(0);
            m.insert("destination_edge".into(), json!(de));
        }
    } else {
        m.insert("origin_vertex".into(), json!(o));
        if let Some(d) = d {
            m.insert("destination_vertex".into(), json!(d));
        }
    }
}

fn valid_query(fx: &Fixture, rng: &mut Rng) -> GenQ {
    let core = fx.core();
    let o = rng.below(core);
    let tree = rng.chance(1, 8);
    let d = if tree { None } else { Some((o + 1 + rng.below(core - 1)) % core) };
    let exact = rng.chance(2, 3);
    let mut m = Map::new();
    if rng.chance(1, 3) {
        m.insert("tag".into(), json!(format!("q{}", rng.below(1000))));
    }
    od_fields(fx, &mut m, o, d);
    let sure = decorate(fx, rng, &mut m, o, d, exact);
    if matches!(fx.traversal, Traversal::Energy { .. }) {
        m.insert("model_name".into(), json!("camry"));
    }
    if rng.chance(1, 6) {
        m.insert("weights".into(), json!({"distance": rng.range(1, 3), "time": rng.range(0, 3)}));
    }
    // a k-shortest-paths search has no destination-less form ("attempting to run KSP algorithm without destination")
    let expect = if !sure || fx.solution_limit.is_some() || fx.edge_oriented || (fx.matcher() && !exact) || (fx.ksp.is_some() && tree) { Expect::Any } else { Expect::Ok };
    GenQ { q: Value::Object(m), expect, kind: if tree { "valid_tree" } else { "valid_route" }, danger: None, fail_key: None }
}

fn junk(rng: &mut Rng) -> Value {
    match rng.below(9) {
        0 => Value::Null,
        1 => json!("abc"),
        2 => json!(-1),
        3 => json!(1.5),
        4 => json!([1]),
        5 => json!({"a": 1}),
        6 => json!(true),
        7 => json!(1u64 << 40),
        _ => json!(""),
    }
}

/// a query that must be answered with an error response
fn failing_query(fx: &Fixture, rng: &mut Rng) -> GenQ {
    let core = fx.core();
    let n = fx.net.n;
    let base = valid_query(fx, rng);
    let mut m = base.q.as_object().cloned().unwrap_or_default();
    let o = rng.below(core);
    let okey = if fx.edge_oriented { "origin_edge" } else { "origin_vertex" };
    let dkey = if fx.edge_oriented { "destination_edge" } else { "destination_vertex" };
    let direct = !fx.matcher();
    let mut unknown_origin = false;
    let mut half_pair = false;
    let (kind, expect): (&'static str, Expect) = match rng.below(10) {
        0 if direct && !fx.edge_oriented => {
            m.insert(okey.into(), json!(o));
            m.insert(dkey.into(), json!(if rng.chance(1, 2) { n - 1 } else { n - 2 }));
            ("unreachable_destination", Expect::Err)
        }
        1 if direct && !fx.edge_oriented => {
            m.insert(okey.into(), json!(n - 1));
            m.insert(dkey.into(), json!(o));
            ("isolated_origin", Expect::Err)
        }
        2 if direct => {
            let count = if fx.edge_oriented { fx.net.edges.len() } else { n };
            let big = [count as u64 + 5, 99_999, 1u64 << 40, u64::MAX][rng.below(4)];
            if rng.chance(1, 2) {
                m.insert(okey.into(), json!(big));
                unknown_origin = true;
            } else {
                m.insert(dkey.into(), json!(big));
            }
            ("unknown_id", Expect::Err)
        }
        3 if direct => {
            m.shift_remove(okey);
            ("missing_origin", Expect::Err)
        }
        4 if direct => {
            let k = if rng.chance(1, 2) { okey } else { dkey };
            let v = junk(rng);
            if k == okey && v.is_u64() {
                unknown_origin = true; // a well-typed id after all, only out of range
            }
            m.insert(k.into(), v);
            ("ill_typed_od", if fx.edge_oriented { Expect::Any } else { Expect::Err })
        }
        5 if direct && !fx.edge_oriented => {
            m.insert(okey.into(), json!(o));
            m.insert(dkey.into(), json!(o));
            ("identical_od", Expect::Err)
        }
        6 => {
            m.insert("weights".into(), match rng.below(4) {
                0 => json!({"distance": 0, "time": 0}),
                1 => json!({"bogus": 1}),
                2 => json!("heavy"),
                _ => json!({"distance": "a"}),
            });
            ("bad_weights", Expect::Any)
        }
        7 if fx.coords() => {
            let k = ["origin_x", "origin_y", "destination_x", "destination_y"][rng.below(4)];
            match rng.below(4) {
                0 => {
                    m.shift_remove(k);
                    // exactly one field of a coordinate pair: a missing field, answered with an error response (a
                    // matcher, or the haversine load balancer, reads the pair; seeded change
                    // C12_destination_y_only_accepted) — both destination fields absent is a destination-less query
                    let has = |k: &str| m.contains_key(k);
                    half_pair = has("origin_x") != has("origin_y") || has("destination_x") != has("destination_y");
                }
                1 => {
                    m.insert(k.into(), junk(rng));
                }
                2 => {
                    m.insert(k.into(), json!([1.0e9, -1.0e9, 91.0, -181.0, 1.0e300][rng.below(5)]));
                }
                _ => {
                    // far from every vertex: beyond any tolerance
                    m.insert("origin_x".into(), json!(-100.0));
                    m.insert("origin_y".into(), json!(45.0));
                }
            }
            ("bad_coordinates", if half_pair && fx.matcher() { Expect::Err } else { Expect::Any })
        }
        8 => {
            // plugin-required field missing / ill-typed
            let mut hit = false;
            for p in &fx.plugins {
                match p {
                    PluginSpec::LbNum { col } | PluginSpec::LbCat { col, .. } => {
                        let c = col.clone().unwrap_or_else(|| "query_weight_estimate".to_string());
                        if rng.chance(1, 2) {
                            m.shift_remove(&c);
                        } else {
                            m.insert(c, junk(rng));
                        }
                        hit = true;
                    }
                    PluginSpec::Inject { key, overwrite: Some(false), .. } => {
                        m.insert(key.clone(), json!("present"));
                        hit = true;
                    }
                    _ => {}
                }
            }
            if hit { ("plugin_field", Expect::Any) } else { m.insert("model_name".into(), json!("no_such_vehicle")); ("unknown_vehicle", Expect::Any) }
        }
        _ => {
            m.insert("query_weight_estimate".into(), junk(rng));
            ("odd_weight_estimate", Expect::Any)
        }
    };
    GenQ { q: Value::Object(m), expect, kind, danger: None, fail_key: if unknown_origin { Some("search/unknown-origin-accepted") } else if half_pair { Some("matcher/half-coordinate-pair-accepted") } else { None } }
}

fn non_object_query(fx: &Fixture, rng: &mut Rng) -> GenQ {
    let v1 = valid_query(fx, rng).q;
    let v2 = valid_query(fx, rng).q;
    let q = match rng.below(10) {
        0 => json!(5),
        1 => json!("origin_vertex"),
        2 => Value::Null,
        3 => json!(true),
        4 => json!(2.5),
        5 => json!([]),
        6 => json!([v1, v2]),
        7 => json!([[v1]]),
        8 => json!([v1, 5]),
        _ => json!([7, "x"]),
    };
    GenQ { q, expect: Expect::Any, kind: "non_object", danger: if fx.has_inject() { Some("inject/non-object") } else { None }, fail_key: None }
}

fn grid_query(fx: &Fixture, rng: &mut Rng) -> GenQ {
    let core = fx.core();
    let base = valid_query(fx, rng);
    let mut m = base.q.as_object().cloned().unwrap_or_default();
    let dkey = if fx.edge_oriented { "destination_edge" } else { "destination_vertex" };
    let mut sec = Map::new();
    let n_opts = 1 + rng.below(4);
    match rng.below(5) {
        0 | 1 if !fx.matcher() => {
            m.shift_remove(dkey);
            let opts: Vec<Value> = (0..n_opts).map(|_| if rng.chance(1, 6) { json!(fx.net.n - 1) } else { json!(rng.below(core)) }).collect();
            sec.insert(dkey.to_string(), Value::Array(opts));
        }
        2 => {
            let all = vec![json!("a"), json!("b"), json!("c")];
            sec.insert("tag".into(), Value::Array(all[..1 + rng.below(3)].to_vec()));
            sec.insert("note".into(), json!("not an axis"));
        }
        3 => {
            // object options; one of them may make a later plugin fail on that child only
            let mut opts = vec![];
            for j in 0..n_opts.max(2) {
                let mut o = Map::new();
                o.insert("variant".into(), json!(j));
                if rng.chance(1, 3) {
                    match rng.below(3) {
                        0 => {
                            o.insert(INJECT_KEY.into(), json!("from_grid"));
                        }
                        1 => {
                            o.insert(LB_COL.into(), json!("heavy"));
                        }
                        _ => {
                            o.insert(CAT_COL.into(), json!(17));
                        }
                    }
                }
                opts.push(Value::Object(o));
            }
            sec.insert("_o".into(), Value::Array(opts));
        }
        _ => {
            sec.insert("tag".into(), json!(["p", "q"]));
            let all = vec![json!({"weights": {"distance": 1, "time": 1}}), json!({"weights": {"distance": 2, "time": 0}}), json!({"weights": {"distance": 0, "time": 0}})];
            sec.insert("weights".into(), Value::Array(all[..1 + rng.below(3)].to_vec()));
        }
    }
    // position of the grid key varies (swap_remove reorders the fields)
    let mut out = Map::new();
    let pos = rng.below(m.len() + 1);
    for (i, (k, v)) in m.iter().enumerate() {
        if i == pos {
            out.insert("grid_search".into(), Value::Object(sec.clone()));
        }
        out.insert(k.clone(), v.clone());
    }
    if pos >= m.len() {
        out.insert("grid_search".into(), Value::Object(sec));
    }
    GenQ { q: Value::Object(out), expect: Expect::Any, kind: "grid", danger: None, fail_key: None }
}

fn degenerate_grid_query(fx: &Fixture, rng: &mut Rng) -> GenQ {
    let base = valid_query(fx, rng);
    let mut m = base.q.as_object().cloned().unwrap_or_default();
    let sec = match rng.below(8) {
        0 => json!({}),
        1 => json!({"x": []}),
        2 => json!({"a": 1}),
        3 => json!({"a": [1, 2], "b": []}),
        4 => json!([1, 2]),
        5 => Value::Null,
        6 => json!({"grid_search": {"a": [1]}}),
        _ => json!({"a": {"b": [1, 2]}}),
    };
    m.insert("grid_search".into(), sec);
    GenQ {
        q: Value::Object(m),
        expect: if fx.has_grid() { Expect::Err } else { Expect::Any },
        kind: "degenerate_grid",
        danger: if fx.has_grid() { Some("grid/degenerate") } else { None },
        fail_key: None,
    }
}

/// structural mutation of a valid query (C12): wrong JSON kinds at every level, dropped / duplicated fields
fn mutated_query(fx: &Fixture, rng: &mut Rng) -> GenQ {
    let mut g = match rng.below(4) {
        0 => grid_query(fx, rng),
        _ => valid_query(fx, rng),
    };
    let n_mut = 1 + rng.below(3);
    for _ in 0..n_mut {
        if let Value::Object(m) = &mut g.q {
            let keys: Vec<String> = m.keys().cloned().collect();
            if keys.is_empty() {
                break;
            }
            let k = rng.pick(&keys).clone();
            match rng.below(6) {
                0 => {
                    m.shift_remove(&k);
                }
                1 => {
                    m.insert(k, junk(rng));
                }
                2 => {
                    let v = m.get(&k).cloned().unwrap_or(Value::Null);
                    m.insert(k, json!([v]));
                }
                3 => {
                    let v = m.get(&k).cloned().unwrap_or(Value::Null);
                    m.insert(k, json!({"v": v}));
                }
                4 => {
                    // a nested mutation inside a grid section
                    if let Some(Value::Object(sec)) = m.get_mut("grid_search") {
                        let sk: Vec<String> = sec.keys().cloned().collect();
                        if let Some(k2) = sk.first() {
                            let v = match rng.below(4) {
                                0 => json!([]),
                                1 => junk(rng),
                                2 => json!([junk(rng), junk(rng)]),
                                _ => json!([[1, 2], {"x": junk(rng)}]),
                            };
                            sec.insert(k2.clone(), v);
                        }
                    } else {
                        m.insert("grid_search".into(), junk(rng));
                    }
                }
                _ => {
                    let extra = ["origin_vertex", "destination_vertex", "origin_x", "query_weight_estimate", "weights", "grid_search", INJECT_KEY, LB_COL, CAT_COL][rng.below(9)];
                    m.insert(extra.into(), junk(rng));
                }
            }
        }
    }
    g.expect = Expect::Any;
    g.kind = "mutated";
    let degenerate = matches!(g.q.get("grid_search"), Some(Value::Object(sec)) if !sec.values().any(|v| v.as_array().map(|a| !a.is_empty()).unwrap_or(false)) || sec.values().any(|v| v.as_array().map(|a| a.is_empty()).unwrap_or(false)));
    g.danger = if degenerate && fx.has_grid() { Some("grid/degenerate") } else { None };
    g
}

impl Fixture {
    fn has_user(&self) -> bool {
        self.has(|p| p.user())
    }
}

/// the value of an `alts` field: mostly a non-empty array of overlays, sometimes empty / not an array / scalars
fn alts_value(fx: &Fixture, rng: &mut Rng, depth: usize) -> Value {
    let core = fx.core();
    match rng.below(10) {
        0 => json!([]),
        1 => json!("not an array"),
        2 => json!([rng.below(core), "x"]),
        _ => {
            let n = 1 + rng.below(3);
            Value::Array((0..n).map(|j| {
                let mut o = Map::new();
                o.insert("alt_no".into(), json!(j));
                if !fx.matcher() && rng.chance(2, 3) {
                    o.insert(if fx.edge_oriented { "destination_edge" } else { "destination_vertex" }.into(), json!(rng.below(core)));
                }
                user_keys(fx, rng, &mut o, depth);
                Value::Object(o)
            }).collect())
        }
    }
}

/// sprinkle the keys the user-defined plugins react to: only SOME objects get them
fn user_keys(fx: &Fixture, rng: &mut Rng, o: &mut Map<String, Value>, depth: usize) {
    if rng.chance(1, 6) {
        o.insert(MARK_KEY.into(), json!(true));
    }
    if rng.chance(1, 6) {
        o.insert(BREAK_KEY.into(), json!(["scalar", "null", "nested", "empty", "mixed", "none"][rng.below(6)]));
    }
    if depth > 0 && rng.chance(1, 4) {
        o.insert(ALTS_KEY.into(), alts_value(fx, rng, depth - 1));
    }
}

/// queries for the configurations with user-defined plugins: top-level `alts`, and grid options of which only some
/// carry `alts` / the marker / a break instruction, so that the query state mixes plain queries and nested arrays
fn user_plugin_query(fx: &Fixture, rng: &mut Rng) -> GenQ {
    let base = valid_query(fx, rng);
    let mut m = base.q.as_object().cloned().unwrap_or_default();
    match rng.below(4) {
        0 => {
            m.insert(ALTS_KEY.into(), alts_value(fx, rng, 1));
            user_keys(fx, rng, &mut m, 0);
        }
        1 => user_keys(fx, rng, &mut m, 1),
        _ => {
            // a grid whose options differ in what they carry
            let n = 2 + rng.below(3);
            let opts: Vec<Value> = (0..n).map(|j| {
                let mut o = Map::new();
                o.insert("variant".into(), json!(j));
                if rng.chance(1, 2) {
                    o.insert(ALTS_KEY.into(), alts_value(fx, rng, 1));
                }
                user_keys(fx, rng, &mut o, 0);
                Value::Object(o)
            }).collect();
            m.insert("grid_search".into(), json!({"_o": opts}));
            if rng.chance(1, 3) {
                m.insert(ALTS_KEY.into(), alts_value(fx, rng, 0));
            }
        }
    }
    GenQ { q: Value::Object(m), expect: Expect::Any, kind: "user_plugin_keys", danger: None, fail_key: None }
}

fn gen_query(fx: &Fixture, rng: &mut Rng, profile: Profile) -> GenQ {
    if fx.has_user() && rng.chance(3, 5) {
        return user_plugin_query(fx, rng);
    }
    if fx.ksp.is_some() && rng.chance(1, 2) {
        return ksp_query(fx, rng);
    }
    let r = rng.below(100);
    match profile {
        Profile::C06 => match r {
            0..=49 => valid_query(fx, rng),
            50..=69 => failing_query(fx, rng),
            70..=84 => grid_query(fx, rng),
            85..=89 => degenerate_grid_query(fx, rng),
            90..=94 => non_object_query(fx, rng),
            _ => mutated_query(fx, rng),
        },
        Profile::C12 => match r {
            0..=19 => valid_query(fx, rng),
            20..=34 => failing_query(fx, rng),
            35..=44 => grid_query(fx, rng),
            45..=59 => degenerate_grid_query(fx, rng),
            60..=74 => non_object_query(fx, rng),
            _ => mutated_query(fx, rng),
        },
    }
}

/// origin / destination fields of a query under a k-shortest-paths fixture (no matcher): vertex ids, or — edge
/// oriented — the first edge leaving `o` and the first edge entering `d` (`same_edge`: the origin edge itself)
fn ksp_od(fx: &Fixture, o: u64, d: Option<u64>) -> Map<String, Value> {
    let mut m = Map::new();
    if fx.edge_oriented {
        let oe = fx.net.edges.iter().position(|e| e.0 as u64 == o).map(|e| e as u64).unwrap_or(o);
        m.insert("origin_edge".into(), json!(oe));
        if let Some(d) = d {
            let de = fx.net.edges.iter().position(|e| e.1 as u64 == d).map(|e| e as u64).unwrap_or(d);
            m.insert("destination_edge".into(), json!(de));
        }
    } else {
        m.insert("origin_vertex".into(), json!(o));
        if let Some(d) = d {
            m.insert("destination_vertex".into(), json!(d));
        }
    }
    m
}

/// the input classes of C12 that decide the length of the best route, under a k-shortest-paths configuration
fn ksp_corpus(fx: &Fixture) -> Vec<GenQ> {
    let n = fx.net.n as u64;
    let (a, b, _) = fx.net.edges[0];
    let (a, b) = (a as u64, b as u64);
    let mut out = vec![];
    let mut push = |mut m: Map<String, Value>, k: Option<Value>, kind: &'static str| {
        if let Some(k) = k {
            m.insert("k".into(), k);
        }
        out.push(gq(Value::Object(m), Expect::Any, kind, None));
    };
    for k in [None, Some(json!(2)), Some(json!(5)), Some(json!(1)), Some(json!(0))] {
        push(ksp_od(fx, a, Some(a)), k.clone(), "identical_od");
        push(ksp_od(fx, a, Some(b)), k.clone(), "ksp_adjacent_od");
    }
    push(ksp_od(fx, b, Some(a)), Some(json!(4)), "ksp_valid");
    push(ksp_od(fx, b, Some(b)), Some(json!(3)), "identical_od");
    push(ksp_od(fx, a, Some(n - 1)), None, "unreachable_destination");
    push(ksp_od(fx, a, Some(n - 2)), Some(json!(3)), "unreachable_destination");
    push(ksp_od(fx, n - 1, Some(a)), None, "isolated_origin");
    push(ksp_od(fx, a, Some(n + 5)), None, "unknown_id");
    push(ksp_od(fx, 99_999, Some(a)), Some(json!(2)), "unknown_id");
    push(ksp_od(fx, a, Some(u64::MAX)), None, "unknown_id");
    push(ksp_od(fx, a, None), None, "ksp_no_destination");
    push(ksp_od(fx, a, Some(b)), Some(json!("two")), "ksp_ill_typed_k");
    push(ksp_od(fx, a, Some(b)), Some(json!(-1)), "ksp_ill_typed_k");
    push(ksp_od(fx, a, Some(b)), Some(json!(2.5)), "ksp_ill_typed_k");
    out
}

fn ksp_query(fx: &Fixture, rng: &mut Rng) -> GenQ {
    let core = fx.core() as u64;
    let n = fx.net.n as u64;
    let o = rng.below(core as usize) as u64;
    let e = fx.net.edges[rng.below(fx.net.edges.len())];
    let (mut m, kind): (Map<String, Value>, &'static str) = match rng.below(9) {
        0 | 1 => (ksp_od(fx, o, Some(o)), "identical_od"),
        2 | 3 => (ksp_od(fx, e.0 as u64, Some(e.1 as u64)), "ksp_adjacent_od"),
        4 => (ksp_od(fx, o, Some(if rng.chance(1, 2) { n - 1 } else { n - 2 })), "unreachable_destination"),
        5 => {
            let big = [n + 5, 99_999, 1u64 << 40, u64::MAX][rng.below(4)];
            (if rng.chance(1, 2) { ksp_od(fx, big, Some(o)) } else { ksp_od(fx, o, Some(big)) }, "unknown_id")
        }
        6 => (ksp_od(fx, o, None), "ksp_no_destination"),
        _ => (ksp_od(fx, o, Some((o + 1 + rng.below(core as usize - 1) as u64) % core)), "ksp_valid"),
    };
    match rng.below(8) {
        0 => {
            m.insert("k".into(), json!(0));
        }
        1 | 2 => {
            m.insert("k".into(), json!(2 + rng.below(4)));
        }
        3 => {
            m.insert("k".into(), json!(1));
        }
        4 => {
            m.insert("k".into(), junk(rng));
        }
        _ => {}
    }
    if rng.chance(1, 4) {
        m.insert("tag".into(), json!(format!("q{}", rng.below(1000))));
    }
    GenQ { q: Value::Object(m), expect: Expect::Any, kind, danger: None, fail_key: None }
}

/// bits -> lexeme of `json!(f64)` for every number that may be written as a weight estimate
fn fmt_table(fx: &Fixture, batch: &[Value]) -> String {
    fn walk(v: &Value, depth: usize, out: &mut Vec<f64>) {
        match v {
            Value::Number(n) => {
                if let Some(f) = n.as_f64() {
                    out.push(f);
                }
            }
            Value::Array(xs) if depth > 0 => xs.iter().for_each(|x| walk(x, depth - 1, out)),
            Value::Object(m) if depth > 0 => m.values().for_each(|x| walk(x, depth - 1, out)),
            _ => {}
        }
    }
    let mut nums = vec![];
    for q in batch {
        walk(q, 6, &mut nums);
    }
    for p in &fx.plugins {
        if let PluginSpec::LbCat { mapping, default, .. } = p {
            nums.extend(mapping.iter().map(|m| m.1));
            nums.extend(default.iter());
        }
    }
    let mut seen = HashSet::new();
    let mut items = vec![];
    for f in nums {
        if seen.insert(f.to_bits()) {
            items.push(format!("{} {}", f.to_bits(), hex(&serde_json::to_string(&json!(f)).unwrap_or_default())));
        }
    }
    format!("{} {}", items.len(), items.join(" ")).trim_end().to_string()
}

// ---------------------------------------------------------------------------------------------
// one case: plan the jobs, run them in the child, emit the correspondence lines, apply the oracle

static DEAD_CHILDREN: std::sync::atomic::AtomicUsize = std::sync::atomic::AtomicUsize::new(0);
static DEAD_BY_FIXTURE: Mutex<BTreeMap<String, usize>> = Mutex::new(BTreeMap::new());

#[derive(Clone, Copy, PartialEq, Debug)]
enum JobKind {
    Main,
    Perm,
    Par,
    Pool,
    Discard,
}

struct Planned {
    job: Job,
    kind: JobKind,
    run_par: Option<usize>,
    persist: bool,
    emit: bool,
}

fn run_cfg_value(run_par: Option<usize>, policy: Option<bool>) -> Option<Value> {
    let mut m = Map::new();
    if let Some(p) = run_par {
        m.insert("parallelism".into(), json!(p));
    }
    if let Some(p) = policy {
        m.insert("response_persistence_policy".into(), json!(if p { "persist_response_in_memory" } else { "discard_response_from_memory" }));
    }
    if m.is_empty() {
        None
    } else {
        Some(Value::Object(m))
    }
}

fn permutations(n: usize) -> Vec<Vec<usize>> {
    fn go(cur: &mut Vec<usize>, used: &mut Vec<bool>, n: usize, out: &mut Vec<Vec<usize>>) {
        if cur.len() == n {
            out.push(cur.clone());
            return;
        }
        for i in 0..n {
            if !used[i] {
                used[i] = true;
                cur.push(i);
                go(cur, used, n, out);
                cur.pop();
                used[i] = false;
            }
        }
    }
    let mut out = vec![];
    go(&mut vec![], &mut vec![false; n], n, &mut out);
    out
}

fn case_line(fx: &Fixture, rep: &Report, batch: &[Value], order: &[usize], run_par: Option<usize>, persist: bool, fmt: &str) -> String {
    let mut s = format!("run {} {} {} {} {}", fx.app.parallelism, run_par.map(|p| format!("s {}", p)).unwrap_or_else(|| "n".to_string()), if persist { 1 } else { 0 }, fmt, fx.plugins.len());
    for (i, p) in fx.plugins.iter().enumerate() {
        s.push(' ');
        s.push_str(&p.model_tokens(rep.tables.get(&i)));
    }
    s.push_str(&format!(" {}", order.len()));
    for i in order {
        s.push(' ');
        s.push_str(&enc(&batch[*i]));
    }
    s.push_str(&format!(" {}", rep.respond.len()));
    for (k, v) in &rep.respond {
        s.push(' ');
        s.push_str(&hex(k));
        s.push(' ');
        s.push_str(v);
    }
    s
}

fn decode(s: &str) -> Value {
    dec(&mut s.split(' ')).unwrap_or(Value::Null)
}

fn sorted(mut v: Vec<String>) -> Vec<String> {
    v.sort();
    v
}

fn clip(s: &str) -> String {
    if s.len() <= 300 {
        s.to_string()
    } else {
        let mut e = 300;
        while !s.is_char_boundary(e) {
            e -= 1;
        }
        format!("{}…", &s[..e])
    }
}

fn placeholder() -> Value {
    json!({"error": "unable to display query"})
}

/// keys a plugin of this configuration may (over)write in the request
fn writable_keys(fx: &Fixture) -> HashSet<String> {
    let mut s: HashSet<String> = HashSet::new();
    for p in &fx.plugins {
        match p {
            PluginSpec::Inject { key, .. } => {
                s.insert(key.clone());
            }
            PluginSpec::LbNum { .. } | PluginSpec::LbCat { .. } | PluginSpec::LbHaversine => {
                s.insert("query_weight_estimate".into());
            }
            PluginSpec::VertexRtree { .. } => {
                s.insert("origin_vertex".into());
                s.insert("destination_vertex".into());
            }
            PluginSpec::EdgeRtree { .. } => {
                s.insert("origin_edge".into());
                s.insert("destination_edge".into());
            }
            PluginSpec::Grid | PluginSpec::UserSplit { .. } | PluginSpec::UserFailOn { .. } | PluginSpec::UserBreaker { .. } => {}
        }
    }
    s
}

#[allow(clippy::too_many_arguments)]
fn run_case(ctx: &mut Ctx, fx: &Fixture, persist_cfg: bool, gens: &[GenQ], plans: Vec<Planned>, branch: &str, secs: u32) {
    let batch: Vec<Value> = gens.iter().map(|g| g.q.clone()).collect();
    let n_emit = plans.iter().filter(|p| p.emit).count();
    // reserve the indices first so that `--only` can skip the (expensive) child
    let mut idxs = vec![];
    for _ in 0..n_emit {
        idxs.push(ctx.begin());
    }
    if idxs.iter().all(|i| i.is_none()) {
        return;
    }
    let jobs: Vec<Job> = plans.iter().map(|p| p.job.clone()).collect();
    // a regression that makes children hang costs `secs` per case: after a few dead children the cases holding a
    // historical witness are run with a short fuse (they are reported all the same)
    let dead_so_far = DEAD_CHILDREN.load(std::sync::atomic::Ordering::Relaxed);
    let secs = if dead_so_far >= 4 && gens.iter().any(|g| g.danger.is_some()) { 2 } else { secs };
    // a regression that makes the search of one configuration run without bound (seeded change
    // C12_yens_spur_count_underflow in a build without overflow checks) kills a child per case: once two cases under a
    // fixture have lost their child even with six times the limit, the finding is established and reported, and the
    // remaining cases of that fixture run with a one-second fuse and without the retry (reported all the same)
    let dead_here = DEAD_BY_FIXTURE.lock().map(|m| m.get(&fx.label).copied().unwrap_or(0)).unwrap_or(0);
    let established = dead_here >= 2;
    let secs = if established { 1 } else { secs };
    let mut rep = forked(fx, &batch, &jobs, true, secs);
    let suspicious = |r: &Report| !r.complete || r.jobs.iter().chain(r.alone.iter()).chain(r.alone_discard.iter()).any(|o| matches!(o, RunOut::Panic | RunOut::Dead));
    if suspicious(&rep) && !established {
        // a loaded machine (alarm, fork or thread creation failing) must not turn into a finding: a defect of the
        // code is deterministic and shows again; once more, with six times the limit
        ctx.count("child_retried");
        std::thread::sleep(std::time::Duration::from_millis(200));
        rep = forked(fx, &batch, &jobs, true, secs * 6);
    }
    if !rep.complete {
        DEAD_CHILDREN.fetch_add(1, std::sync::atomic::Ordering::Relaxed);
        if let Ok(mut m) = DEAD_BY_FIXTURE.lock() {
            *m.entry(fx.label.clone()).or_insert(0) += 1;
        }
    }
    let fmt = fmt_table(fx, &batch);
    let danger = gens.iter().find_map(|g| g.danger);
    let first_idx = idxs.iter().flatten().next().copied().unwrap_or(0);

    // correspondence lines
    let mut k = 0;
    for (j, p) in plans.iter().enumerate() {
        if !p.emit {
            continue;
        }
        let idx = idxs[k];
        k += 1;
        let Some(idx) = idx else { continue };
        let line = case_line(fx, &rep, &batch, &p.job.order, p.run_par, p.persist, &fmt);
        ctx.emit(idx, line, out_line(&rep.jobs[j]));
        ctx.count(branch);
        ctx.count(&format!("job_{:?}", p.kind).to_lowercase());
    }
    let _ = persist_cfg;
    ctx.count(&format!("cfg_{}", fx.label));
    ctx.count_n("queries", batch.len() as u64);
    for g in gens {
        ctx.count(&format!("q_{}", g.kind));
        // the input classes the property names (C12): every one of them is run in the forked child, where a panic,
        // an abort or a search that does not return is an observable outcome
        let class = match g.kind {
            "non_object" => Some("wrong_json_type"),
            "missing_origin" | "ill_typed_od" | "plugin_field" | "odd_weight_estimate" | "mutated" => Some("missing_or_ill_typed_fields"),
            "unknown_id" | "unreachable_destination" | "isolated_origin" => Some("out_of_range_ids"),
            "ksp_adjacent_od" => Some("adjacent_origin_destination"),
            "ksp_ill_typed_k" | "ksp_no_destination" => Some("missing_or_ill_typed_fields"),
            "bad_coordinates" => Some("out_of_range_coordinates"),
            "degenerate_grid" => Some("degenerate_grid_section"),
            "identical_od" => Some("identical_origin_destination"),
            "unknown_vehicle" => Some("unknown_vehicle_name"),
            "bad_weights" => Some("zero_or_bad_weights"),
            _ => None,
        };
        if let Some(c) = class {
            ctx.count(&format!("input_class_{}", c));
        }
    }
    if batch.is_empty() {
        ctx.count("input_class_empty_batch");
    }
    ctx.count(&format!("batch_size_{}", match batch.len() { 0 => "0", 1 => "1", 2..=4 => "2_4", 5..=16 => "5_16", _ => "17_plus" }));

    // ---- oracle ----
    if !rep.complete {
        ctx.fail(first_idx, danger.unwrap_or("batch/timeout"), format!("the child running the batch was killed (alarm / memory limit / abort) under {}: batch {}", fx.label, clip(&Value::Array(batch.clone()).to_string())));
        return;
    }
    // the single-query function echoes the query it was given (the premise `hr` of C06.response_carries_request)
    for (k, v) in &rep.respond {
        let r = decode(v);
        let echoed = r.get("request").map(|x| serde_json::to_string(x).unwrap_or_default());
        if echoed.as_deref() != Some(k.as_str()) {
            ctx.fail(first_idx, "response/request-not-echoed-by-search", format!("run_single_query on {} answers with request {:?}", clip(k), echoed.map(|e| clip(&e))));
        }
    }
    // a recorded (opaque) plugin maps an object to an object (the hypothesis of C12.table_plugin_keeps_objects)
    for recs in rep.tables.values() {
        for r in recs {
            if let Some(rest) = r.outcome.strip_prefix("ok ") {
                if !decode(rest).is_object() {
                    ctx.fail(first_idx, "table/non-object-result", format!("an opaque plugin turned {} into something that is not an object", clip(&r.key)));
                }
            }
        }
    }
    for (only_total, q) in &rep.not_reproducible {
        if *only_total {
            ctx.fail(first_idx, "cost/total-not-reproducible", format!("two runs of the query {} in the same process report total_cost values that differ (all cost components equal) under {}", clip(q), fx.label));
        } else {
            ctx.fail(first_idx, "response/not-reproducible", format!("two runs of the query {} in the same process give different responses under {}", clip(q), fx.label));
        }
    }
    // union of the alone runs
    let mut alone_ok = true;
    for (i, a) in rep.alone.iter().enumerate() {
        match a {
            RunOut::Ok(_) => {}
            RunOut::Panic => {
                alone_ok = false;
                ctx.fail(first_idx, gens[i].danger.unwrap_or("batch/panic"), format!("app.run panicked on the single query {} under {}", clip(&batch[i].to_string()), fx.label));
            }
            RunOut::Err(k) => {
                alone_ok = false;
                ctx.fail(first_idx, "batch/whole-batch-error", format!("app.run returned Err({}) on the single query {} under {}", k, clip(&batch[i].to_string()), fx.label));
            }
            RunOut::Dead => {
                alone_ok = false;
                ctx.fail(first_idx, gens[i].danger.unwrap_or("batch/timeout"), format!("app.run did not return on the single query {}", clip(&batch[i].to_string())));
            }
        }
    }
    let writable = writable_keys(fx);
    for (i, g) in gens.iter().enumerate() {
        let RunOut::Ok(rs) = &rep.alone[i] else { continue };
        let resp: Vec<Value> = rs.iter().map(|r| decode(r)).collect();
        for r in &resp {
            if r.get("malformed").is_some() || r.get("request").is_none() {
                ctx.fail(first_idx, "batch/malformed-response", format!("response without request: {}", clip(&r.to_string())));
            }
        }
        for r in &resp {
            if let Some(c) = r.get("total_cost_check") {
                ctx.fail(first_idx, "response/total-cost", format!("{} in the response to {}", c, clip(&g.q.to_string())));
            }
        }
        // every query is answered (object queries: checked against the item-by-item expansion below — a user-defined
        // plugin may legitimately expand a query into nothing)
        if resp.is_empty() && !g.q.is_object() {
            ctx.fail(first_idx, "pipeline/query-unanswered", format!("query {} got no response at all under {}", clip(&g.q.to_string()), fx.label));
        }
        // the discard policy keeps exactly the error responses of the input stage: a subset of the responses, all
        // errors, and not empty when input processing rejects the query
        if let RunOut::Ok(d) = &rep.alone_discard[i] {
            let mut pool: Vec<&String> = rs.iter().collect();
            let mut subset = true;
            for x in d {
                match pool.iter().position(|y| *y == x) {
                    Some(p) => {
                        pool.swap_remove(p);
                    }
                    None => subset = false,
                }
            }
            let all_err = d.iter().all(|x| decode(x).get("error").is_some());
            let rejected = matches!(rep.pipe[i], Some(Err(_)));
            if !subset || !all_err || (rejected && d.is_empty()) {
                ctx.fail(first_idx, "batch/discard-policy", format!("query {} alone under the discard policy returns {} response(s) (subset of the persisted ones: {}, all errors: {}, rejected by input processing: {})", clip(&g.q.to_string()), d.len(), subset, all_err, rejected));
            }
        }
        // responses = ⨄ of the item-by-item answers, one response per expanded query (object queries: a non-object
        // is answered by the guard)
        if let (Some(ideal), true) = (&rep.ideal[i], g.q.is_object()) {
            let total = ideal.dead + ideal.nonobj + ideal.live.len();
            let one_error = resp.len() == 1 && resp[0].get("error").is_some();
            if ideal.dead == 0 && ideal.nonobj == 0 {
                // no plugin fails, every expanded query is an object: exactly their answers
                if sorted(ideal.live.clone()) != sorted(rs.clone()) {
                    ctx.fail(first_idx, "pipeline/itemwise-mismatch", format!("query {} expands (item by item, real plugins, none failing) into {} queries, but the {} response(s) that came back under {} are not their answers: {}", clip(&g.q.to_string()), ideal.live.len(), resp.len(), fx.label, clip(&Value::Array(resp.clone()).to_string())));
                }
            } else if ideal.nonobj > 0 && ideal.dead == 0 {
                // a plugin broke the invariant (an expanded "query" that is not an object): the pipeline answers the
                // whole query with one invariant error that names the original query (755333a: it named the placeholder);
                // the expanded queries that were fine are lost with it (part of the known sibling-loss finding)
                if one_error && resp[0].get("error") == Some(&json!("Invariant")) {
                    if resp[0].get("request") != Some(&g.q) {
                        ctx.fail(first_idx, "pipeline/invariant-error-loses-request", format!("a plugin left {} non-object item(s) among the {} queries that {} expands into: the invariant error's request is {} instead of the query, under {}", ideal.nonobj, total, clip(&g.q.to_string()), clip(&resp[0].get("request").cloned().unwrap_or(Value::Null).to_string()), fx.label));
                    }
                    if total > 1 {
                        ctx.fail(first_idx, "pipeline/sibling-responses-lost", format!("query {} expands (item by item, real plugins) into {} items, a plugin left {} of them a non-object, and only the invariant error came back under {}", clip(&g.q.to_string()), total, ideal.nonobj, fx.label));
                    }
                } else {
                    ctx.fail(first_idx, "pipeline/itemwise-mismatch", format!("query {} (a plugin left {} non-object items): expected one invariant error, got {}", clip(&g.q.to_string()), ideal.nonobj, clip(&Value::Array(resp.clone()).to_string())));
                }
            } else {
                // a plugin fails on some expanded query: the first failure ends the whole query (known finding when
                // there were siblings)
                if !one_error {
                    ctx.fail(first_idx, "pipeline/itemwise-mismatch", format!("query {} (a plugin fails on {} of its {} expanded queries): expected one error response, got {}", clip(&g.q.to_string()), ideal.dead, total, clip(&Value::Array(resp.clone()).to_string())));
                } else if total > 1 {
                    ctx.fail(first_idx, "pipeline/sibling-responses-lost", format!("query {} expands (item by item, real plugins) into {} queries, a plugin fails on {} of them, and only {} response came back under {}: {}", clip(&g.q.to_string()), total, ideal.dead, resp.len(), fx.label, clip(&Value::Array(resp.clone()).to_string())));
                }
            }
            if resp.is_empty() && total > 0 {
                ctx.fail(first_idx, "pipeline/query-unanswered", format!("query {} got no response at all under {}", clip(&g.q.to_string()), fx.label));
            }
        }
        // each response carries the request it answers
        if g.q != placeholder() && resp.iter().any(|r| r.get("request") == Some(&placeholder())) {
            ctx.fail(first_idx, "pipeline/request-not-echoed", format!("query {} is answered with request {} (the query appears only in the error text) under {}", clip(&g.q.to_string()), placeholder(), fx.label));
        }
        if let Value::Object(qm) = &g.q {
            if (!qm.contains_key("grid_search") || !fx.has_grid()) && !fx.has(|p| matches!(p, PluginSpec::UserSplit { .. } | PluginSpec::UserBreaker { .. })) {
                for r in &resp {
                    let Some(Value::Object(req)) = r.get("request") else { continue };
                    if req == placeholder().as_object().unwrap() {
                        continue;
                    }
                    for (k, v) in qm {
                        if !writable.contains(k) && req.get(k) != Some(v) {
                            ctx.fail(first_idx, "pipeline/request-altered", format!("field {} of query {} is not in the request of its response {}", k, clip(&g.q.to_string()), clip(&r.to_string())));
                        }
                    }
                }
            }
        }
        // error responses exactly for failing queries
        let n_err = resp.iter().filter(|r| r.get("error").is_some()).count();
        match g.expect {
            Expect::Ok if n_err > 0 => ctx.fail(first_idx, "batch/valid-query-error", format!("valid query {} ({}) answered with an error under {}: {}", clip(&g.q.to_string()), g.kind, fx.label, clip(&Value::Array(resp.clone()).to_string()))),
            Expect::Err if n_err != resp.len() || resp.is_empty() => ctx.fail(first_idx, g.fail_key.unwrap_or("batch/failing-query-ok"), format!("failing query {} ({}) not answered with an error under {}: {}", clip(&g.q.to_string()), g.kind, fx.label, clip(&Value::Array(resp.clone()).to_string()))),
            _ => {}
        }
    }
    // every job against the union of the alone runs
    let mut nontrivial = false;
    for (j, p) in plans.iter().enumerate() {
        let eff_par = p.run_par.unwrap_or(fx.app.parallelism);
        match &rep.jobs[j] {
            RunOut::Dead => ctx.fail(first_idx, danger.unwrap_or("batch/timeout"), format!("job {:?} did not return", p.kind)),
            RunOut::Panic => ctx.fail(first_idx, danger.unwrap_or(if batch.is_empty() { "batch/empty" } else { "batch/panic" }), format!("app.run panicked ({:?}, parallelism {:?}/{}, pool {}) under {} on {}", p.kind, p.run_par, fx.app.parallelism, p.job.pool, fx.label, clip(&Value::Array(batch.clone()).to_string()))),
            RunOut::Err(k) => {
                if eff_par >= 1 {
                    ctx.fail(first_idx, "batch/whole-batch-error", format!("app.run returned Err({}) for the whole batch ({:?}, parallelism {:?}/{}) under {}", k, p.kind, p.run_par, fx.app.parallelism, fx.label));
                }
            }
            RunOut::Ok(rs) => {
                if p.job.order.is_empty() && !rs.is_empty() {
                    ctx.fail(first_idx, "batch/empty", format!("empty batch returned {} responses", rs.len()));
                }
                if !alone_ok {
                    continue;
                }
                let mut want: Vec<String> = vec![];
                for i in &p.job.order {
                    if p.persist {
                        if let RunOut::Ok(a) = &rep.alone[*i] {
                            want.extend(a.iter().cloned());
                        }
                    } else if let RunOut::Ok(a) = &rep.alone_discard[*i] {
                        want.extend(a.iter().cloned());
                    }
                }
                if sorted(want.clone()) != sorted(rs.clone()) {
                    let stripped = |v: &Vec<String>| sorted(v.iter().map(|x| enc(&strip_total(&decode(x)))).collect());
                    let key = match (p.persist, p.kind) {
                        _ if stripped(&want) == stripped(rs) => "cost/total-not-reproducible",
                        (false, _) => "batch/discard-policy",
                        (_, JobKind::Perm) => "batch/order-dependent",
                        (_, JobKind::Par) => "batch/parallelism-dependent",
                        (_, JobKind::Pool) => "batch/pool-dependent",
                        _ => "batch/multiset-differs",
                    };
                    ctx.fail(first_idx, key, format!("{:?} job (parallelism {:?}/{}, pool {}, persist {}) under {}: {} responses, the queries run alone give {}; batch {}", p.kind, p.run_par, fx.app.parallelism, p.job.pool, p.persist, fx.label, rs.len(), want.len(), clip(&Value::Array(batch.clone()).to_string())));
                }
                if p.persist && rs.len() >= 2 {
                    nontrivial = true;
                }
            }
        }
    }
    if nontrivial {
        let mut kinds: Vec<&str> = gens.iter().map(|g| g.kind).collect();
        kinds.sort();
        kinds.dedup();
        ctx.nontrivial(&format!("{}|{}|{}|{:?}|{}", fx.label, fx.app.parallelism, batch.len(), kinds, plans.len()));
    }
}

// ---------------------------------------------------------------------------------------------
// load balancing alone

fn bal_case(ctx: &mut Ctx, par: usize, qs: &[Value], branch: &str) {
    let Some(idx) = ctx.begin() else { return };
    let r = std::panic::catch_unwind(std::panic::AssertUnwindSafe(|| {
        apply_load_balancing_policy(qs, par, 1.0).map(|bins| {
            bins.iter().map(|b| b.iter().map(|q| q.get("i").and_then(|i| i.as_u64()).unwrap_or(u64::MAX)).collect::<Vec<u64>>()).collect::<Vec<_>>()
        })
    }));
    let mut case = format!("bal {} {}", par, qs.len());
    for q in qs {
        case.push(' ');
        case.push_str(&enc(q));
    }
    let line = match &r {
        Err(_) => "panic".to_string(),
        Ok(Err(e)) => {
            if e.to_string().contains("cannot find min bin of empty slice") { "err MinBinEmpty".to_string() } else { "err Other".to_string() }
        }
        Ok(Ok(bins)) => {
            let mut s = format!("ok {}", bins.len());
            for b in bins {
                s.push_str(&format!(" {}", b.len()));
                for i in b {
                    s.push_str(&format!(" {}", i));
                }
            }
            s
        }
    };
    ctx.emit(idx, case, line);
    ctx.count(branch);
    match &r {
        Err(_) => ctx.fail(idx, "balance/panic", format!("apply_load_balancing_policy panicked (parallelism {}, {} queries)", par, qs.len())),
        Ok(Err(_)) => {
            if par >= 1 {
                ctx.fail(idx, "batch/whole-batch-error", format!("apply_load_balancing_policy failed for parallelism {} on {}", par, clip(&Value::Array(qs.to_vec()).to_string())));
            }
        }
        Ok(Ok(bins)) => {
            let mut all: Vec<u64> = bins.iter().flatten().copied().collect();
            all.sort();
            let want: Vec<u64> = (0..qs.len() as u64).collect();
            if all != want {
                ctx.fail(idx, "balance/not-a-partition", format!("bins {:?} are not a partition of 0..{} (parallelism {})", bins, qs.len(), par));
            }
            if !qs.is_empty() && bins.len() != par.min(qs.len()) {
                ctx.fail(idx, "balance/bin-count", format!("{} bins for parallelism {} and {} queries", bins.len(), par, qs.len()));
            }
            if bins.iter().filter(|b| !b.is_empty()).count() >= 2 {
                ctx.nontrivial(&format!("bal|{}|{}|{:?}", par, qs.len(), bins.iter().map(|b| b.len()).collect::<Vec<_>>()));
            }
        }
    }
}

fn bal_queries(rng: &mut Rng, n: usize) -> Vec<Value> {
    let style = rng.below(5);
    (0..n)
        .map(|i| {
            let mut m = Map::new();
            m.insert("i".into(), json!(i));
            let w: Option<Value> = match style {
                0 => Some(json!(1)),
                1 => Some(json!(i + 1)),
                2 => Some(json!([1, 4, 1, 2][i % 4])),
                3 => match rng.below(8) {
                    0 => None,
                    1 => Some(json!("heavy")),
                    2 => Some(Value::Null),
                    3 => Some(json!(0)),
                    4 => Some(json!(-rng.small_decimal(5, 1))),
                    5 => Some(json!(rng.uniform(0.0, 100.0))),
                    6 => Some(json!([1.0e308, 1.0e-300, 4.0e15][rng.below(3)])),
                    _ => Some(json!(rng.range(0, 6))),
                },
                _ => Some(json!(rng.small_decimal(3, 1))),
            };
            if let Some(w) = w {
                m.insert("query_weight_estimate".into(), w);
            }
            Value::Object(m)
        })
        .collect()
}

// ---------------------------------------------------------------------------------------------
// fixtures

#[allow(clippy::too_many_arguments)]
fn make_fixture(root: &Path, id: usize, rng: &mut Rng, label: &str, plugins: Vec<PluginSpec>, traversal: Traversal, edge_oriented: bool, solution_limit: Option<usize>, parallelism: usize, persist: bool) -> Option<(Fixture, bool)> {
    make_fixture_ext(root, id, rng, label, plugins, traversal, edge_oriented, solution_limit, parallelism, persist, &FxExtra::default())
}

/// what a fixture may set besides the arguments of `make_fixture`
#[derive(Default)]
struct FxExtra {
    /// `[algorithm]`: (type, k, underlying type)
    algorithm: Option<(&'static str, usize, &'static str)>,
    /// replaces the `float_cache_policy` line of the energy vehicle
    cache_line: Option<String>,
    /// replaces the `real_world_energy_adjustment` of the energy vehicle
    adjustment: Option<f64>,
    /// posted speeds (km/h) to draw from, and the grades (decimal) of a grade table to write and configure
    speeds: Option<Vec<f64>>,
    grades: Option<Vec<f64>>,
    /// the energy vehicle's `grade_unit` (the unit the model file was trained in) instead of "decimal"
    model_grade_unit: Option<&'static str>,
}

fn make_fixture_ext(root: &Path, id: usize, rng: &mut Rng, label: &str, plugins: Vec<PluginSpec>, traversal: Traversal, edge_oriented: bool, solution_limit: Option<usize>, parallelism: usize, persist: bool, extra: &FxExtra) -> Option<(Fixture, bool)> {
    let dir = root.join(format!("fx{}", id));
    let n = 12 + rng.below(26);
    let net = match (traversal, &extra.speeds) {
        (_, Some(sp)) => gen_net_speeds(rng, n, sp),
        // speeds (km/h, the unit the cache key is taken in) that share cache keys rounded to tens: 20, 20, 50, 50, 80, 80
        (Traversal::Energy { .. }, _) => gen_net_speeds(rng, n, &[15.2, 24.4, 45.5, 54.4, 75.1, 84.8]),
        _ => gen_net(rng, n),
    };
    write_net(&dir, &net);
    let mut toml = config_toml(&dir, parallelism, traversal, &plugins, persist, edge_oriented, solution_limit);
    if let Some((ty, k, under)) = extra.algorithm {
        let alg = format!("[algorithm]\ntype = \"{}\"\nk = {}\n[algorithm.underlying]\ntype = \"{}\"\n", ty, k, under);
        toml = toml.replacen("[graph]\n", &format!("{}[graph]\n", alg), 1);
    }
    if let Some(line) = &extra.cache_line {
        let old = "float_cache_policy = { cache_size = 1000, key_precisions = [-1, 0] }\n";
        assert!(toml.contains(old), "fixture {}: no cache line to replace", label);
        toml = toml.replacen(old, line, 1);
    }
    if let Some(a) = extra.adjustment {
        toml = toml.replacen("real_world_energy_adjustment = 1.166\n", &format!("real_world_energy_adjustment = {:?}\n", a), 1);
    }
    if let Some(u) = extra.model_grade_unit {
        assert!(toml.contains("\ngrade_unit = \"decimal\"\n"), "fixture {}: no vehicle grade unit to replace", label);
        toml = toml.replacen("\ngrade_unit = \"decimal\"\n", &format!("\ngrade_unit = \"{}\"\n", u), 1);
    }
    if let Some(gs) = &extra.grades {
        // one grade per edge, drawn from the list; `grade_table_grade_unit = "decimal"` is already configured
        let mut text = String::new();
        for _ in 0..net.edges.len() {
            text.push_str(&format!("{:?}\n", gs[rng.below(gs.len())]));
        }
        std::fs::write(dir.join("grades.txt"), text).expect("grades");
        toml = toml.replacen("grade_table_grade_unit = \"decimal\"\n", &format!("grade_table_grade_unit = \"decimal\"\ngrade_table_input_file = \"{}/grades.txt\"\n", dir.to_str().unwrap()), 1);
    }
    match build_app(&dir, &toml) {
        Ok(mut app) => {
            let mut built = std::mem::take(&mut app.input_plugins).into_iter();
            for spec in &plugins {
                match spec.user_plugin() {
                    Some(p) => app.input_plugins.push(p),
                    None => {
                        if let Some(p) = built.next() {
                            app.input_plugins.push(p);
                        }
                    }
                }
            }
            Some((Fixture { net, dir, plugins, traversal, edge_oriented, solution_limit, app, label: label.to_string(), ksp: extra.algorithm.map(|a| a.0) }, persist))
        }
        Err(e) => {
            eprintln!("C06 harness: cannot build fixture {}: {}", label, e);
            None
        }
    }
}

fn plugin_configs() -> Vec<(&'static str, Vec<PluginSpec>, bool)> {
    let inj = |ow: Option<bool>| PluginSpec::Inject { key: INJECT_KEY.to_string(), value: json!({"by": "config", "n": 7}), overwrite: ow };
    let cat = || PluginSpec::LbCat { col: Some(CAT_COL.to_string()), mapping: vec![("a".to_string(), 1.0), ("b".to_string(), 5.5), ("c".to_string(), 0.25)], default: Some(2.0) };
    let split = || PluginSpec::UserSplit { key: ALTS_KEY.to_string() };
    let fail = || PluginSpec::UserFailOn { marker: MARK_KEY.to_string() };
    let breaker = || PluginSpec::UserBreaker { key: BREAK_KEY.to_string() };
    let cat_nodefault = || PluginSpec::LbCat { col: Some(CAT_COL.to_string()), mapping: vec![("a".to_string(), 1.0), ("b".to_string(), 3.0)], default: None };
    vec![
        ("none", vec![], false),
        ("grid", vec![PluginSpec::Grid], false),
        ("inject_overwrite", vec![inj(Some(true))], false),
        ("inject_default", vec![inj(None)], false),
        ("inject_no_overwrite", vec![inj(Some(false))], false),
        ("grid+inject_no_overwrite", vec![PluginSpec::Grid, inj(Some(false))], false),
        ("inject+grid", vec![inj(Some(true)), PluginSpec::Grid], false),
        ("lb_numeric", vec![PluginSpec::LbNum { col: Some(LB_COL.to_string()) }], false),
        ("grid+lb_numeric_default_col", vec![PluginSpec::Grid, PluginSpec::LbNum { col: None }], false),
        ("lb_categorical", vec![cat()], false),
        ("grid+lb_categorical_nodefault", vec![PluginSpec::Grid, cat_nodefault()], false),
        ("vertex_rtree", vec![PluginSpec::VertexRtree { tolerance_m: Some(60.0) }], false),
        ("grid+vertex_rtree+lb_haversine", vec![PluginSpec::Grid, PluginSpec::VertexRtree { tolerance_m: None }, PluginSpec::LbHaversine], false),
        ("edge_rtree", vec![PluginSpec::EdgeRtree { tolerance_m: Some(1500.0) }], true),
        ("none_edge_oriented", vec![], true),
        ("grid+inject+lb_numeric", vec![PluginSpec::Grid, inj(Some(true)), PluginSpec::LbNum { col: Some(LB_COL.to_string()) }], false),
        // user-defined plugins (public trait, public `input_plugins` field): expand only SOME queries, fail on some,
        // break the invariant
        ("user_split", vec![split()], false),
        ("grid+user_split", vec![PluginSpec::Grid, split()], false),
        ("user_split+grid", vec![split(), PluginSpec::Grid], false),
        ("grid+user_split+user_fail", vec![PluginSpec::Grid, split(), fail()], false),
        ("user_fail+grid+user_split", vec![fail(), PluginSpec::Grid, split()], false),
        ("user_split+inject_no_overwrite+lb_numeric", vec![split(), inj(Some(false)), PluginSpec::LbNum { col: Some(LB_COL.to_string()) }], false),
        ("grid+user_split+vertex_rtree", vec![PluginSpec::Grid, split(), PluginSpec::VertexRtree { tolerance_m: None }], false),
        ("user_breaker", vec![breaker()], false),
        ("grid+user_breaker+user_split", vec![PluginSpec::Grid, breaker(), split()], false),
        ("user_split+user_breaker+user_fail", vec![split(), breaker(), fail()], false),
    ]
}

fn plan_jobs(rng: &mut Rng, _fx: &Fixture, persist_cfg: bool, n: usize, profile: Profile, thorough: bool) -> Vec<Planned> {
    let ident: Vec<usize> = (0..n).collect();
    let mut plans = vec![];
    let run_par = if rng.chance(1, 3) { None } else { Some(1 + rng.below(16)) };
    let policy = match rng.below(6) {
        0 => Some(false),
        1 => Some(true),
        _ => None,
    };
    let persist = policy.unwrap_or(persist_cfg);
    let pool = [0usize, 0, 1, 2, 5][rng.below(5)];
    plans.push(Planned { job: Job { order: ident.clone(), run_cfg: run_cfg_value(run_par, policy), pool }, kind: JobKind::Main, run_par, persist, emit: true });
    let small = n <= 12;
    let mut extra_emit = 2usize;
    let mut emit_flag = |small: bool| {
        if small {
            true
        } else if extra_emit > 0 {
            extra_emit -= 1;
            true
        } else {
            false
        }
    };
    if profile == Profile::C12 {
        let p2 = Some(1 + rng.below(16));
        plans.push(Planned { job: Job { order: ident, run_cfg: run_cfg_value(p2, Some(true)), pool: 0 }, kind: JobKind::Par, run_par: p2, persist: true, emit: true });
        return plans;
    }
    // orders
    if n >= 2 && n <= 4 {
        for perm in permutations(n).into_iter().skip(1) {
            plans.push(Planned { job: Job { order: perm, run_cfg: run_cfg_value(run_par, Some(true)), pool }, kind: JobKind::Perm, run_par, persist: true, emit: true });
        }
    } else if n > 4 {
        for _ in 0..2 {
            let mut o = ident.clone();
            rng.shuffle(&mut o);
            plans.push(Planned { job: Job { order: o, run_cfg: run_cfg_value(run_par, Some(true)), pool }, kind: JobKind::Perm, run_par, persist: true, emit: emit_flag(small) });
        }
    }
    // parallelism, configured and per run
    let pars: Vec<usize> = if thorough { (1..=16).collect() } else { let mut v = vec![1, 1 + rng.below(16), 1 + rng.below(16)]; v.dedup(); v };
    for p in pars {
        plans.push(Planned { job: Job { order: ident.clone(), run_cfg: run_cfg_value(Some(p), Some(true)), pool: 0 }, kind: JobKind::Par, run_par: Some(p), persist: true, emit: emit_flag(small && !thorough) });
    }
    plans.push(Planned { job: Job { order: ident.clone(), run_cfg: run_cfg_value(None, Some(true)), pool: 0 }, kind: JobKind::Par, run_par: None, persist: true, emit: emit_flag(small) });
    // rayon pools of different sizes
    for pool in [1usize, 3, 8] {
        if thorough || rng.chance(1, 2) {
            plans.push(Planned { job: Job { order: ident.clone(), run_cfg: run_cfg_value(run_par, Some(true)), pool }, kind: JobKind::Pool, run_par, persist: true, emit: false });
        }
    }
    // the other persistence policy
    plans.push(Planned { job: Job { order: ident, run_cfg: run_cfg_value(run_par, Some(false)), pool: 0 }, kind: JobKind::Discard, run_par, persist: false, emit: emit_flag(small) });
    plans
}

/// the same batch, offered in two orders to two *fresh* processes (cold cache each): with cache keys rounded to tens
/// the first edge predicted under a key fixes the rate of every other speed with that key, so the responses
/// depend on which query ran first
fn cache_demo(ctx: &mut Ctx, fx: &Fixture, control: Option<&Fixture>, rng: &mut Rng) {
    for attempt in 0..6 {
        let gens: Vec<GenQ> = (0..6).map(|_| valid_query(fx, rng)).collect();
        let batch: Vec<Value> = gens.iter().map(|g| g.q.clone()).collect();
        let ident: Vec<usize> = (0..batch.len()).collect();
        let rev: Vec<usize> = ident.iter().rev().copied().collect();
        let cfg = run_cfg_value(Some(1), Some(true));
        let Some(idx) = ctx.begin() else { continue };
        let a = forked(fx, &batch, &[Job { order: ident.clone(), run_cfg: cfg.clone(), pool: 1 }], false, 120);
        let b = forked(fx, &batch, &[Job { order: rev, run_cfg: cfg.clone(), pool: 1 }], false, 120);
        let fmt = fmt_table(fx, &batch);
        ctx.emit(idx, case_line(fx, &a, &batch, &ident, Some(1), true, &fmt), out_line(&a.jobs[0]));
        ctx.count("corpus_rounded_cache");
        // control: the same experiment without a cache policy must not depend on the order
        if let Some(cfx) = control {
            let cg: Vec<GenQ> = (0..6).map(|_| valid_query(cfx, rng)).collect();
            let cb: Vec<Value> = cg.iter().map(|g| g.q.clone()).collect();
            let ca = forked(cfx, &cb, &[Job { order: ident.clone(), run_cfg: cfg.clone(), pool: 1 }], false, 120);
            let cr = forked(cfx, &cb, &[Job { order: ident.iter().rev().copied().collect(), run_cfg: cfg.clone(), pool: 1 }], false, 120);
            match (&ca.jobs[0], &cr.jobs[0]) {
                (RunOut::Ok(x), RunOut::Ok(y)) if sorted(x.clone()) == sorted(y.clone()) => ctx.count("cache_control_equal"),
                _ => ctx.fail(idx, "batch/order-dependent", format!("energy model WITHOUT cache policy: the batch in reverse order (fresh process) returns different responses: {}", clip(&Value::Array(cb.clone()).to_string()))),
            }
        }
        if let (RunOut::Ok(ra), RunOut::Ok(rb)) = (&a.jobs[0], &b.jobs[0]) {
            if sorted(ra.clone()) != sorted(rb.clone()) {
                let diff = ra.iter().find(|r| !rb.contains(r)).cloned().unwrap_or_default();
                ctx.fail(idx, "cache/order-dependent", format!("energy model with float_cache_policy key_precisions [-1, 0]: the batch in reverse order (fresh process, parallelism 1) returns different responses; e.g. only in the forward run: {}", clip(&decode(&diff).to_string())));
                ctx.nontrivial(&format!("cache|{}", attempt));
                return;
            }
        }
    }
}

/// the DOCUMENTED cache key of `FloatCachePolicy` ("the key is rounded to the specified precision"): each input times
/// `10^precision`, rounded to the nearest integer, halves away from zero — computed here, not by the code under test
fn documented_key(precs: &[i32], inputs: &[f64]) -> Vec<i64> {
    inputs.iter().zip(precs.iter()).map(|(v, p)| (v * 10f64.powi(*p)).round() as i64).collect()
}

/// The cache with a FINE key precision: key_precisions [2, 2] over links whose (speed, grade) inputs have pairwise
/// different documented keys — two posted speeds that are far apart, grades -0.02 / -0.01 / 0 / +0.01 (flat and
/// gently descending links at the same speed).  No two different inputs share a cache cell, so the cache must be
/// transparent and a batch must not depend on its order: the same batch is offered forwards, backwards and rotated to
/// fresh processes (cold cache each, parallelism 1).  A difference is NOT the known finding `cache/order-dependent`
/// (which needs a key precision coarser than the model's resolution): key `cache/order-dependent-without-key-collision`.
/// Seeded changes C06_cache_key_round_half_cast (`(v * m + 0.5) as i64`: a scaled grade of -1 gets the flat road's key
/// 0) and C06_cache_stores_adjusted_rate (a hit returns the rate already multiplied by real_world_energy_adjustment
/// = 1.166, which is then applied again).
fn fine_cache_runs(ctx: &mut Ctx, root: &Path, id: usize, rng: &mut Rng) {
    let speeds = vec![31.3, 52.7];
    let grades = vec![-0.02, -0.01, 0.0, 0.01];
    let precs = [2, 2];
    let mut keys = HashSet::new();
    for s in &speeds {
        for g in &grades {
            keys.insert(documented_key(&precs, &[*s, *g]));
        }
    }
    if keys.len() != speeds.len() * grades.len() {
        // the demand below rests on it
        ctx.count("fine_cache_documented_keys_collide");
        return;
    }
    let extra = FxExtra {
        cache_line: Some("float_cache_policy = { cache_size = 1000, key_precisions = [2, 2] }\n".to_string()),
        speeds: Some(speeds),
        grades: Some(grades),
        // Toyota_Camry.bin splits the grade at half-integers of a PERCENT value (-12 … 12): read as "decimal" — as the
        // other energy fixtures do — every grade of a road is the same input to it and no cache defect could show;
        // here the grade table is in decimal (-0.01: scaled key -1 at precision 2) and the model reads percent, so the
        // four grades have four different rates at either speed (0.0434 / 0.0439 / 0.0397 / 0.0407 gal/mile at 31.3 km/h)
        model_grade_unit: Some("percent"),
        ..Default::default()
    };
    let Some((fx, _)) = make_fixture_ext(root, id, rng, "energy_fine_cache", vec![], Traversal::Energy { cache: true }, false, None, 1, true, &extra) else { return };
    for attempt in 0..4 {
        let gens: Vec<GenQ> = (0..6).map(|_| valid_query(&fx, rng)).collect();
        let batch: Vec<Value> = gens.iter().map(|g| g.q.clone()).collect();
        let n = batch.len();
        let ident: Vec<usize> = (0..n).collect();
        let rev: Vec<usize> = ident.iter().rev().copied().collect();
        let rot: Vec<usize> = (0..n).map(|i| (i + n / 2) % n).collect();
        let cfg = run_cfg_value(Some(1), Some(true));
        let Some(idx) = ctx.begin() else { continue };
        let a = forked(&fx, &batch, &[Job { order: ident.clone(), run_cfg: cfg.clone(), pool: 1 }], false, 120);
        let fmt = fmt_table(&fx, &batch);
        ctx.emit(idx, case_line(&fx, &a, &batch, &ident, Some(1), true, &fmt), out_line(&a.jobs[0]));
        ctx.count("corpus_fine_cache");
        let RunOut::Ok(ra) = &a.jobs[0] else {
            ctx.fail(idx, "batch/panic", format!("energy model with float_cache_policy key_precisions [2, 2]: the batch did not return responses: {}", clip(&Value::Array(batch.clone()).to_string())));
            continue;
        };
        for (name, order) in [("in reverse order", rev), ("rotated by half", rot)] {
            let b = forked(&fx, &batch, &[Job { order: order.clone(), run_cfg: cfg.clone(), pool: 1 }], false, 120);
            let RunOut::Ok(rb) = &b.jobs[0] else { continue };
            if sorted(ra.clone()) != sorted(rb.clone()) {
                let diff = ra.iter().find(|r| !rb.contains(r)).cloned().unwrap_or_default();
                let other = rb.iter().find(|r| !ra.contains(r)).cloned().unwrap_or_default();
                ctx.fail(idx, "cache/order-dependent-without-key-collision", format!("energy model with float_cache_policy key_precisions [2, 2] over links at 31.3 / 52.7 km/h with grades -0.02 / -0.01 / 0 / 0.01 (pairwise different documented keys round(v * 100), so no two different inputs may share a cache cell): the batch {} offered {} to a fresh process (parallelism 1) returns different responses; only in the forward run: {}; only in the other run: {}", Value::Array(batch.clone()), name, clip(&decode(&diff).to_string()), clip(&decode(&other).to_string())));
                ctx.nontrivial(&format!("fine_cache|{}", attempt));
                return;
            }
        }
        ctx.count("fine_cache_order_independent");
    }
}

fn gq(q: Value, expect: Expect, kind: &'static str, danger: Option<&'static str>) -> GenQ {
    GenQ { q, expect, kind, danger, fail_key: None }
}

pub fn run(ctx: &mut Ctx, profile: Profile) -> &'static str {
    let root = std::fs::canonicalize(".").unwrap_or_else(|_| PathBuf::from(".")).join(format!("work/c06_{}_{}", if profile == Profile::C06 { "a" } else { "b" }, std::process::id()));
    let _ = std::fs::remove_dir_all(&root);
    // keep the progress bars of the real code out of the check's log
    unsafe {
        let devnull = libc::open(b"/dev/null\0".as_ptr() as *const libc::c_char, libc::O_WRONLY);
        if devnull >= 0 && std::env::var("C06_STDERR").is_err() {
            libc::dup2(devnull, 2);
        }
    }
    let thorough = !ctx.quick();
    let tag: u64 = if profile == Profile::C06 { 6 } else { 12 };
    let mut frng = Rng::for_case(ctx.seed, tag, 1_000_000);
    let mut fixtures: Vec<(Fixture, bool)> = vec![];
    let rounds = if thorough { 3 } else { 1 };
    let mut id = 0;
    for round in 0..rounds {
        for (label, plugins, edge) in plugin_configs() {
            let traversal = if frng.chance(1, 2) { Traversal::Distance } else { Traversal::Speed };
            let par = if round == 0 && label == "none" { 2 } else { 1 + frng.below(16) };
            let persist = !(frng.chance(1, 6));
            if let Some(f) = make_fixture(&root, id, &mut frng, label, plugins, traversal, edge, None, par, persist) {
                fixtures.push(f);
            }
            id += 1;
        }
        // a search that is cut short (terminated queries)
        if let Some(f) = make_fixture(&root, id, &mut frng, "grid_solution_limit", vec![PluginSpec::Grid], Traversal::Distance, false, Some(6), 3, true) {
            fixtures.push(f);
        }
        id += 1;
    }
    // the energy model (no cache): vehicle names in the queries, unknown vehicles among the failing ones
    if let Some(f) = make_fixture(&root, id, &mut frng, "grid_energy", vec![PluginSpec::Grid], Traversal::Energy { cache: false }, false, None, 4, true) {
        fixtures.push(f);
    }
    id += 1;
    // k-shortest-paths search configurations (C12: "under every … search configuration"): Yen's algorithm and the
    // single-via-paths algorithm, vertex and edge oriented, with and without the grid-search plugin
    if profile == Profile::C12 {
        for (label, plugins, edge, alg) in [
            ("yens", vec![], false, ("yens", 3usize, "a*")),
            ("ksp_single_via", vec![], false, ("ksp_single_via", 2, "dijkstra")),
            ("grid+yens", vec![PluginSpec::Grid], false, ("yens", 2, "dijkstra")),
            ("yens_edge_oriented", vec![], true, ("yens", 3, "a*")),
            ("ksp_single_via_edge_oriented", vec![], true, ("ksp_single_via", 3, "a*")),
        ] {
            let traversal = if frng.chance(1, 2) { Traversal::Distance } else { Traversal::Speed };
            let par = 1 + frng.below(6);
            let extra = FxExtra { algorithm: Some(alg), ..Default::default() };
            if let Some(f) = make_fixture_ext(&root, id, &mut frng, label, plugins, traversal, edge, None, par, true, &extra) {
                fixtures.push(f);
            }
            id += 1;
        }
    }
    // configured parallelism 0 (a configuration error, not a query)
    // a configured parallelism of 0 is refused when the application is built (fix): the public field is set afterwards,
    // so that the chunking with `self.parallelism = 0` stays exercised
    let zero = make_fixture(&root, id, &mut frng, "none_parallelism_0", vec![], Traversal::Distance, false, None, 1, true).map(|(mut f, p)| {
        f.app.parallelism = 0;
        (f, p)
    });
    let find = |label: &str| fixtures.iter().position(|f| f.0.label == label);

    // ---- corpus: witnesses of repaired and of known defects ----
    let simple = |plans_par: Vec<Option<usize>>, n: usize| -> Vec<Planned> {
        plans_par.into_iter().map(|p| Planned { job: Job { order: (0..n).collect(), run_cfg: run_cfg_value(p, Some(true)), pool: 0 }, kind: JobKind::Main, run_par: p, persist: true, emit: true }).collect()
    };
    if let Some(i) = find("none") {
        let (fx, pc) = &fixtures[i];
        // batch/empty (93abeee)
        run_case(ctx, fx, *pc, &[], simple(vec![None, Some(1), Some(7)], 0), "corpus_empty_batch", 20);
        // batch/whole-batch-error (1eb0c7f): a non-numeric weight estimate
        let b = vec![
            gq(json!({"origin_vertex": 0, "destination_vertex": 3}), Expect::Ok, "valid_route", None),
            gq(json!({"origin_vertex": 1, "destination_vertex": 2, "query_weight_estimate": "heavy"}), Expect::Ok, "odd_weight_estimate", None),
            gq(json!({"origin_vertex": 2, "destination_vertex": 0, "query_weight_estimate": null}), Expect::Ok, "odd_weight_estimate", None),
        ];
        run_case(ctx, fx, *pc, &b, simple(vec![None, Some(3)], 3), "corpus_weight_estimate", 20);
        // non-object queries without any plugin (6b89952: they were answered with the placeholder request)
        let b = vec![
            gq(json!(5), Expect::Any, "non_object", None),
            gq(json!({"origin_vertex": 0, "destination_vertex": 3}), Expect::Ok, "valid_route", None),
            gq(json!("text"), Expect::Any, "non_object", None),
            gq(Value::Null, Expect::Any, "non_object", None),
            gq(json!([{"origin_vertex": 1, "destination_vertex": 2}]), Expect::Any, "non_object", None),
        ];
        run_case(ctx, fx, *pc, &b, simple(vec![None, Some(2)], 5), "corpus_non_object", 20);
        // out-of-range ids must be answered with an error (the destination-less one used to succeed with an empty tree)
        let unk = |q: Value| {
            let mut g = gq(q, Expect::Err, "unknown_id", None);
            g.fail_key = Some("search/unknown-origin-accepted");
            g
        };
        let b = vec![unk(json!({"origin_vertex": 99999})), unk(json!({"origin_vertex": 99999, "destination_vertex": 1})), unk(json!({"origin_vertex": 1, "destination_vertex": 99999})), unk(json!({"origin_vertex": 1u64 << 40}))];
        run_case(ctx, fx, *pc, &b, simple(vec![None], 4), "corpus_unknown_id", 20);
        // S4: per-run parallelism 0
        let b = vec![gq(json!({"origin_vertex": 0, "destination_vertex": 3}), Expect::Ok, "valid_route", None), gq(json!(5), Expect::Any, "non_object", None)];
        run_case(ctx, fx, *pc, &b, simple(vec![Some(0)], 2), "corpus_parallelism_0", 20);
        run_case(ctx, fx, *pc, &b[1..], simple(vec![Some(0)], 1), "corpus_parallelism_0", 20);
    }
    // the input classes of C12 that live inside the single-query function / the matchers, one batch each
    for label in ["none", "grid", "vertex_rtree", "grid_energy", "none_edge_oriented"] {
        let Some(i) = find(label) else { continue };
        let (fx, pc) = &fixtures[i];
        let k = |q: Value, kind: &'static str| gq(q, Expect::Any, kind, None);
        let mut b = vec![
            k(json!({"origin_vertex": 0, "destination_vertex": 0}), "identical_od"),
            k(json!({"origin_vertex": 0, "destination_vertex": 1, "weights": {"distance": 0, "time": 0, "energy_liquid": 0}}), "bad_weights"),
            k(json!({"origin_vertex": 0, "destination_vertex": 1, "weights": {}}), "bad_weights"),
            k(json!({"origin_vertex": 0, "destination_vertex": 1, "weights": {"no_such_feature": 1}}), "bad_weights"),
            k(json!({"origin_vertex": 0, "destination_vertex": 1, "weights": {"distance": -1, "time": 1}}), "bad_weights"),
            k(json!({"origin_vertex": 0, "destination_vertex": 1, "model_name": "no_such_vehicle"}), "unknown_vehicle"),
            k(json!({"origin_vertex": 0, "destination_vertex": 1, "model_name": 7}), "unknown_vehicle"),
            k(json!({"origin_vertex": 1u64 << 63, "destination_vertex": 1}), "unknown_id"),
            k(json!({"origin_vertex": 0, "destination_vertex": u64::MAX}), "unknown_id"),
            k(json!({"origin_edge": 0, "destination_edge": 0}), "identical_od"),
            k(json!({"origin_edge": u64::MAX, "destination_edge": 1}), "unknown_id"),
            k(json!({"origin_x": 1.0e308, "origin_y": -1.0e308, "destination_x": 0, "destination_y": 0}), "bad_coordinates"),
            k(json!({"origin_x": 181.0, "origin_y": 91.0}), "bad_coordinates"),
            k(json!({"origin_x": -105.0, "origin_y": 39.7, "destination_x": "east", "destination_y": null}), "bad_coordinates"),
        ];
        if label == "grid_energy" {
            for q in b.iter_mut() {
                if let Value::Object(m) = &mut q.q {
                    m.entry("model_name").or_insert(json!("camry"));
                }
            }
        }
        let n = b.len();
        run_case(ctx, fx, *pc, &b, simple(vec![None, Some(3)], n), "corpus_input_classes", 30);
    }
    // every way of giving half of a coordinate pair to a map-matching plugin: a missing field, answered with an error
    // response (seeded change C12_destination_y_only_accepted: destination_y alone was taken for "no destination")
    for label in ["vertex_rtree", "edge_rtree"] {
        let Some(i) = find(label) else { continue };
        let (fx, pc) = &fixtures[i];
        let (ox, oy) = fx.net.xy[0];
        let (dx, dy) = fx.net.xy[1];
        let full = [("origin_x", coord_json(ox)), ("origin_y", coord_json(oy)), ("destination_x", coord_json(dx)), ("destination_y", coord_json(dy))];
        let mut b = vec![];
        for mask in 0..16u32 {
            let mut m = Map::new();
            for (bit, (k, v)) in full.iter().enumerate() {
                if mask & (1 << bit) != 0 {
                    m.insert(k.to_string(), v.clone());
                }
            }
            let has = |k: &str| m.contains_key(k);
            let half = has("origin_x") != has("origin_y") || has("destination_x") != has("destination_y");
            let mut g = gq(Value::Object(m), if half { Expect::Err } else { Expect::Any }, "bad_coordinates", None);
            if half {
                g.fail_key = Some("matcher/half-coordinate-pair-accepted");
            }
            b.push(g);
        }
        let n = b.len();
        run_case(ctx, fx, *pc, &b, simple(vec![None], n), "corpus_coordinate_pairs", 20);
    }
    // the same classes under the k-shortest-paths configurations: a best route of 0 edges (identical origin and
    // destination) or 1 edge (adjacent), an unreachable destination, out-of-range ids, with and without a query-level k
    // (seeded change C12_yens_spur_count_underflow: `len() - 2` on the accepted path)
    for label in ["yens", "ksp_single_via", "grid+yens", "yens_edge_oriented", "ksp_single_via_edge_oriented"] {
        let Some(i) = find(label) else { continue };
        let (fx, pc) = &fixtures[i];
        // two batches (a k-shortest-paths search on at most 38 vertices takes milliseconds: a short fuse)
        let b = ksp_corpus(fx);
        let (b1, b2) = b.split_at(10);
        run_case(ctx, fx, *pc, b1, simple(vec![None, Some(2)], b1.len()), "corpus_ksp_input_classes", 3);
        run_case(ctx, fx, *pc, b2, simple(vec![None, Some(2)], b2.len()), "corpus_ksp_input_classes", 3);
    }
    if let Some(i) = find("none_edge_oriented") {
        let (fx, pc) = &fixtures[i];
        let unk = |q: Value| {
            let mut g = gq(q, Expect::Err, "unknown_id", None);
            g.fail_key = Some("search/unknown-origin-accepted");
            g
        };
        let b = vec![unk(json!({"origin_edge": 99999})), unk(json!({"origin_edge": 99999, "destination_edge": 1})), unk(json!({"origin_edge": 1, "destination_edge": 99999})), unk(json!({"origin_edge": 1u64 << 40}))];
        run_case(ctx, fx, *pc, &b, simple(vec![None], 4), "corpus_unknown_id", 20);
    }
    if let Some((fx, pc)) = &zero {
        let b = vec![gq(json!({"origin_vertex": 0, "destination_vertex": 3}), Expect::Ok, "valid_route", None), gq(json!({"origin_vertex": 1, "destination_vertex": 2}), Expect::Ok, "valid_route", None)];
        run_case(ctx, fx, *pc, &b, simple(vec![None, Some(2)], 2), "corpus_parallelism_0", 20);
        run_case(ctx, fx, *pc, &[], simple(vec![None], 0), "corpus_parallelism_0", 20);
    }
    for label in ["inject_overwrite", "inject_default", "inject_no_overwrite"] {
        if let Some(i) = find(label) {
            let (fx, pc) = &fixtures[i];
            // inject/non-object (0edf6bd)
            let b = vec![
                gq(json!(5), Expect::Any, "non_object", Some("inject/non-object")),
                gq(json!({"origin_vertex": 0, "destination_vertex": 3}), Expect::Ok, "valid_route", None),
                gq(Value::Null, Expect::Any, "non_object", Some("inject/non-object")),
                gq(json!("s"), Expect::Any, "non_object", Some("inject/non-object")),
            ];
            run_case(ctx, fx, *pc, &b, simple(vec![None, Some(4)], 4), "corpus_inject_non_object", 20);
        }
    }
    if let Some(i) = find("grid") {
        let (fx, pc) = &fixtures[i];
        // grid/degenerate (90097cd)
        for sec in [json!({}), json!({"x": []}), json!({"a": 1}), json!({"a": [1, 2], "b": []})] {
            let b = vec![
                gq(json!({"origin_vertex": 0, "destination_vertex": 3, "grid_search": sec}), Expect::Err, "degenerate_grid", Some("grid/degenerate")),
                gq(json!({"origin_vertex": 0, "grid_search": {"destination_vertex": [1, 2, 3]}}), Expect::Any, "grid", None),
            ];
            run_case(ctx, fx, *pc, &b, simple(vec![None], 2), "corpus_degenerate_grid", 20);
        }
    }
    if let Some(i) = find("grid") {
        let (fx, pc) = &fixtures[i];
        // 6b89952: the empty array was flattened away without a response, a nested array was split into queries
        let b = vec![
            gq(json!([]), Expect::Any, "non_object", None),
            gq(json!({"origin_vertex": 0, "destination_vertex": 3}), Expect::Ok, "valid_route", None),
            gq(json!([{"origin_vertex": 1, "destination_vertex": 2}, {"origin_vertex": 2, "destination_vertex": 1}]), Expect::Any, "non_object", None),
            gq(json!([[]]), Expect::Any, "non_object", None),
        ];
        run_case(ctx, fx, *pc, &b, simple(vec![None, Some(2)], 4), "corpus_array_query", 20);
    }
    if let Some(i) = find("grid+user_split") {
        let (fx, pc) = &fixtures[i];
        // mixed query state: grid search makes three children, the user-defined split expands only the middle one
        // ([a, [b1, b2], c] must be de-nested: one response per expanded child) — seeded change C06_flatten_not_all_arrays
        let b = vec![
            gq(json!({"origin_vertex": 0, "destination_vertex": 2, "grid_search": {"variant": [{"name": "a"}, {"name": "b", "alts": [{"destination_vertex": 1}, {"destination_vertex": 2}]}, {"name": "c"}]}}), Expect::Any, "user_plugin_keys", None),
            gq(json!({"origin_vertex": 0, "destination_vertex": 1, "name": "plain"}), Expect::Ok, "valid_route", None),
            gq(json!({"origin_vertex": 1, "alts": [{"destination_vertex": 3}, {"destination_vertex": 4, "alts": "ignored"}, 5]}), Expect::Any, "user_plugin_keys", None),
        ];
        run_case(ctx, fx, *pc, &b, simple(vec![None, Some(1), Some(3)], 3), "corpus_mixed_state", 20);
    }
    if let Some(i) = find("user_breaker") {
        let (fx, pc) = &fixtures[i];
        // a user-defined plugin that breaks the invariant: invariant errors (755333a: they named the placeholder
        // request), an erased query, a two-level nesting, a mixed state made by one plugin
        let b: Vec<GenQ> = ["scalar", "null", "nested", "empty", "mixed", "none"].iter().map(|m| gq(json!({"origin_vertex": 0, "destination_vertex": 3, "break": m}), Expect::Any, "user_plugin_keys", None)).collect();
        run_case(ctx, fx, *pc, &b, simple(vec![None, Some(2)], 6), "corpus_invariant_breaker", 20);
    }
    if let Some(i) = find("grid+user_breaker+user_split") {
        let (fx, pc) = &fixtures[i];
        let b = vec![
            gq(json!({"origin_vertex": 0, "grid_search": {"_o": [{"destination_vertex": 1, "break": "mixed"}, {"destination_vertex": 2}, {"destination_vertex": 3, "break": "nested", "alts": [{"k": 1}, {"k": 2}]}]}}), Expect::Any, "user_plugin_keys", None),
            gq(json!({"origin_vertex": 0, "grid_search": {"_o": [{"destination_vertex": 1}, {"destination_vertex": 2, "break": "scalar"}]}}), Expect::Any, "user_plugin_keys", None),
        ];
        run_case(ctx, fx, *pc, &b, simple(vec![None], 2), "corpus_invariant_breaker", 20);
    }
    if let Some(i) = find("grid+inject_no_overwrite") {
        let (fx, pc) = &fixtures[i];
        // S1: the second child is fine, the first one makes the inject plugin fail
        let b = vec![
            gq(json!({"origin_vertex": 0, "grid_search": {"_o": [{"injected": 1, "destination_vertex": 3}, {"destination_vertex": 4}]}}), Expect::Any, "grid", None),
            gq(json!({"origin_vertex": 1, "destination_vertex": 2}), Expect::Ok, "valid_route", None),
        ];
        run_case(ctx, fx, *pc, &b, simple(vec![None, Some(1)], 2), "corpus_sibling_loss", 20);
    }

    // ---- the shared prediction cache (C08 finding predict/cache-rounding-collision, seen from the batch) ----
    if profile == Profile::C06 {
        id += 1;
        if let Some((fx, _)) = make_fixture(&root, id, &mut frng, "energy_rounded_cache", vec![], Traversal::Energy { cache: true }, false, None, 1, true) {
            let control = find("grid_energy").map(|i| &fixtures[i].0);
            cache_demo(ctx, &fx, control, &mut frng);
        }
        id += 1;
        fine_cache_runs(ctx, &root, id, &mut frng);
    }

    // ---- load balancing alone ----
    let nb = ctx.n(150, 3000);
    for k in 0..nb {
        let mut rng = Rng::for_case(ctx.seed, tag * 100 + 1, k as u64);
        let n = if k < 20 { k % 5 } else { rng.below(40) };
        let par = if k < 40 { k % 8 } else { rng.below(18) };
        let qs = bal_queries(&mut rng, n);
        bal_case(ctx, par, &qs, "balance");
    }
    {
        // the repository's own examples
        let mk = |ws: Vec<i64>| -> Vec<Value> { ws.iter().enumerate().map(|(i, w)| json!({"i": i, "query_weight_estimate": w})).collect() };
        bal_case(ctx, 4, &mk(vec![1; 12]), "balance_repo_test");
        bal_case(ctx, 4, &mk((1..=12).collect()), "balance_repo_test");
        bal_case(ctx, 4, &mk(vec![1, 4, 1, 2, 1, 4, 1, 2, 1, 4, 1, 2]), "balance_repo_test");
    }

    // ---- entry points and builders ----
    entry_streams(ctx, &fixtures, profile, tag);
    builder_streams(ctx, tag);
    config_stream(ctx, &root, tag);
    // the command-line entry (harness/src/c06/cli.rs)
    cli::cli_stream(ctx, profile, tag);

    // ---- generated batches ----
    let n_cases = match profile {
        Profile::C06 => ctx.n(1200, 6000),
        Profile::C12 => ctx.n(4000, 30000),
    };
    for k in 0..n_cases {
        let mut rng = Rng::for_case(ctx.seed, tag, k as u64);
        if fixtures.is_empty() {
            break;
        }
        let (fx, pc) = &fixtures[k % fixtures.len()];
        let size = match profile {
            Profile::C06 => match rng.below(10) {
                0 => 1,
                1..=3 => 2 + rng.below(3),
                4..=7 => 5 + rng.below(12),
                8 => 17 + rng.below(44),
                _ => rng.below(3),
            },
            Profile::C12 => match rng.below(8) {
                0 => 0,
                1..=4 => 1 + rng.below(4),
                _ => 5 + rng.below(10),
            },
        };
        let gens: Vec<GenQ> = (0..size).map(|_| gen_query(fx, &mut rng, profile)).collect();
        let plans = plan_jobs(&mut rng, fx, *pc, size, profile, thorough);
        run_case(ctx, fx, *pc, &gens, plans, if profile == Profile::C06 { "generated_batch" } else { "mutated_batch" }, 10);
    }
    drop(fixtures);
    drop(zero);
    let _ = std::fs::remove_dir_all(&root);
    "non-trivial: a batch run that returned at least two responses (distinct by plugin configuration, configured parallelism, batch size, kinds of query in the batch, number of runs compared), or a load-balancing call that filled at least two bins"
}

// =============================================================================================
// entry points: get_queries, run with a per-run configuration and a response sink, CompassAppBindings::run_queries,
// the plugin builders, CompassApp::try_from from TOML
//
// Case lines (model: lean/Compass/Model/BatchEntry.lean, driver lean/Compass/Drv/C06.lean):
//   `gq <json>`                                      the real `value.get_queries()`        -> `ok n json…` | `err`
//   `call <selfPar> <persist> <env> <runcfg> <fmt> <plugins> <entry> <respond>`   the real `app.run` / `get_queries` + `run` /
//        `run_queries`, with an arbitrary per-run configuration                     -> `ok n …` | `err <Kind>` | `panic` | `diverges`
//   `ibuild <params> <parsedString> <parsedJson> <n probes…>`   the real `InjectPluginBuilder::build` and the built plugin on probes
//   `lbuild <fmt> <params> <n probes…>`                         the real `LoadBalancerBuilder::build` and the built plugin on probes
//   `stages <n> (name 0|1)…`                         the real `CompassApp::try_from` from a (mutated) TOML: which stage's error
//                                                    it reports, given which stages fail on their own
// Oracle keys: entry/get-queries, run-config/accepted-invalid, run-config/rejected-valid, sink/changes-responses,
//   sink/write-error-swallowed, entry/value-differs, entry/texts-differ, entry/malformed-text-accepted, builder/panic,
//   builder/accepted-invalid, builder/rejected-valid, builder/plugin-differs, config/panic, config/timeout,
//   config/accepted-invalid, config/rejected-valid, config/path-differs

use routee_compass::app::bindings::CompassAppBindings;
use routee_compass::app::compass::compass_app_error::CompassAppError;
use routee_compass::app::compass::compass_json_extensions::CompassJsonExtensions;
use routee_compass::app::compass::config::builders::InputPluginBuilder;
use routee_compass::app::compass::config::compass_configuration_error::CompassConfigurationError;
use routee_compass::plugin::input::default::inject::inject_builder::InjectPluginBuilder;
use routee_compass::plugin::input::default::load_balancer::builder::LoadBalancerBuilder;

struct HarnessBindings<'a> {
    app: &'a CompassApp,
}

impl CompassAppBindings for HarnessBindings<'_> {
    fn from_config_toml_string(_config_string: String, _original_file_path: String) -> Result<Self, CompassAppError> {
        Err(CompassAppError::InternalError("the harness wraps an existing application".to_string()))
    }
    fn app(&self) -> &CompassApp {
        self.app
    }
}

const DEV_FULL: &str = "/dev/full";

/// JSON text -> value with every float parsed by `str::parse::<f64>` (correctly rounded; `serde_json::from_str`
/// without its `float_roundtrip` feature may be one ulp off, and the responses of `run_queries` come back as texts)
fn parse_exact(text: &str) -> Option<Value> {
    fn ws(b: &[u8], i: &mut usize) {
        while *i < b.len() && matches!(b[*i], b' ' | b'\n' | b'\r' | b'\t') {
            *i += 1;
        }
    }
    fn string(b: &[u8], i: &mut usize) -> Option<String> {
        let start = *i;
        *i += 1;
        while *i < b.len() {
            match b[*i] {
                b'\\' => *i += 2,
                b'"' => {
                    *i += 1;
                    return serde_json::from_str::<String>(std::str::from_utf8(&b[start..*i]).ok()?).ok();
                }
                _ => *i += 1,
            }
        }
        None
    }
    fn value(b: &[u8], i: &mut usize) -> Option<Value> {
        ws(b, i);
        match *b.get(*i)? {
            b'{' => {
                *i += 1;
                let mut m = Map::new();
                ws(b, i);
                if *b.get(*i)? == b'}' {
                    *i += 1;
                    return Some(Value::Object(m));
                }
                loop {
                    ws(b, i);
                    let k = string(b, i)?;
                    ws(b, i);
                    if *b.get(*i)? != b':' {
                        return None;
                    }
                    *i += 1;
                    let v = value(b, i)?;
                    m.insert(k, v);
                    ws(b, i);
                    match *b.get(*i)? {
                        b',' => *i += 1,
                        b'}' => {
                            *i += 1;
                            return Some(Value::Object(m));
                        }
                        _ => return None,
                    }
                }
            }
            b'[' => {
                *i += 1;
                let mut a = vec![];
                ws(b, i);
                if *b.get(*i)? == b']' {
                    *i += 1;
                    return Some(Value::Array(a));
                }
                loop {
                    a.push(value(b, i)?);
                    ws(b, i);
                    match *b.get(*i)? {
                        b',' => *i += 1,
                        b']' => {
                            *i += 1;
                            return Some(Value::Array(a));
                        }
                        _ => return None,
                    }
                }
            }
            b'"' => string(b, i).map(Value::String),
            b't' if b[*i..].starts_with(b"true") => {
                *i += 4;
                Some(Value::Bool(true))
            }
            b'f' if b[*i..].starts_with(b"false") => {
                *i += 5;
                Some(Value::Bool(false))
            }
            b'n' if b[*i..].starts_with(b"null") => {
                *i += 4;
                Some(Value::Null)
            }
            _ => {
                let start = *i;
                while *i < b.len() && matches!(b[*i], b'0'..=b'9' | b'-' | b'+' | b'.' | b'e' | b'E') {
                    *i += 1;
                }
                let t = std::str::from_utf8(&b[start..*i]).ok()?;
                if let Ok(u) = t.parse::<u64>() {
                    Some(Value::from(u))
                } else if let Ok(n) = t.parse::<i64>() {
                    Some(Value::from(n))
                } else {
                    serde_json::Number::from_f64(t.parse::<f64>().ok()?).map(Value::Number)
                }
            }
        }
    }
    let b = text.as_bytes();
    let mut i = 0;
    let v = value(b, &mut i)?;
    ws(b, &mut i);
    if i == b.len() {
        Some(v)
    } else {
        None
    }
}

fn call_err_kind(e: &CompassAppError) -> String {
    match e {
        CompassAppError::CompassConfigurationError(CompassConfigurationError::SerdeDeserializationError(_)) => "RunConfig".to_string(),
        CompassAppError::InternalError(s) if s.starts_with("failure writing to /dev/full") || s.starts_with("failure flushing") => "SinkWrite".to_string(),
        CompassAppError::InternalError(s) if s.starts_with("failure writing to") || s.starts_with("failure opening file") => "SinkOpen".to_string(),
        CompassAppError::CompassFailure(s) if s.contains("iterations_per_flush") => "FlushRate".to_string(),
        CompassAppError::JsonError { .. } => "NotJson".to_string(),
        other => {
            let t = other.to_string();
            if t.contains("cannot find min bin of empty slice") {
                "MinBinEmpty".to_string()
            } else {
                format!("Other:{}", error_kind(&t))
            }
        }
    }
}

#[derive(Clone, Debug)]
enum Entry {
    /// `app.run(vec, cfg)`
    Vec(Vec<Value>),
    /// `value.get_queries()` then `run`
    Value(Value),
    /// `run_queries(texts, cfg text)`
    Texts(Vec<String>, Option<String>),
}

#[derive(Clone, Debug)]
struct EntryJob {
    entry: Entry,
    run_cfg: Option<Value>,
}

fn call_entry(app: &CompassApp, job: &EntryJob) -> RunOut {
    let r = std::panic::catch_unwind(std::panic::AssertUnwindSafe(|| -> Result<Vec<Value>, String> {
        match &job.entry {
            Entry::Vec(b) => app.run(b.clone(), job.run_cfg.as_ref()).map_err(|e| call_err_kind(&e)),
            Entry::Value(v) => match v.get_queries() {
                Err(_) => Err("NotABatch".to_string()),
                Ok(b) => app.run(b, job.run_cfg.as_ref()).map_err(|e| call_err_kind(&e)),
            },
            Entry::Texts(ts, c) => HarnessBindings { app }
                .run_queries(ts.clone(), c.clone())
                .map(|rs| rs.iter().map(|s| parse_exact(s).unwrap_or(Value::Null)).collect())
                .map_err(|e| call_err_kind(&e)),
        }
    }));
    match r {
        Err(_) => RunOut::Panic,
        Ok(Err(k)) => RunOut::Err(k),
        Ok(Ok(rs)) => RunOut::Ok(rs.iter().map(|r| enc(&canon_response(r))).collect()),
    }
}

/// one template of a per-run configuration value, and whether it must be accepted
fn run_cfg_part(rng: &mut Rng, fx: &Fixture, key: &str, case_tag: usize) -> Option<(Value, bool)> {
    let work_file = |name: &str| fx.dir.join(name).to_str().unwrap_or_default().to_string();
    let json_fmt = |nd: bool| json!({"type": "json", "newline_delimited": nd});
    let rate_ok = [json!(1), json!(7), Value::Null][rng.below(3)].clone();
    let rate_nonpos = [json!(0), json!(-3)][rng.below(2)].clone();
    let rate_bad = [json!("x"), json!(1.5)][rng.below(2)].clone();
    match key {
        "parallelism" => match rng.below(14) {
            0..=2 => None,
            3..=6 => Some((json!(1 + rng.below(16)), true)),
            7 => Some((json!(0), true)),
            8 => Some((json!("abc"), false)),
            9 => Some((json!(-1), false)),
            10 => Some((json!(1.5), false)),
            11 => Some((Value::Null, false)),
            12 => Some((json!(4.0), false)),
            _ => Some((json!([2]), false)),
        },
        "response_persistence_policy" => match rng.below(10) {
            0..=2 => None,
            3 | 4 => Some((json!("persist_response_in_memory"), true)),
            5 => Some((json!("discard_response_from_memory"), true)),
            6 => Some((json!({"discard_response_from_memory": null}), true)),
            7 => Some((json!("PersistResponseInMemory"), false)),
            8 => Some((json!(1), false)),
            _ => Some((Value::Null, false)),
        },
        _ => match rng.below(34) {
            // serde's other shapes of an internally tagged enum: a sequence whose first element is the tag, and (nested
            // only) the variant's index as the tag
            22 => Some((json!(["none"]), true)),
            23 => Some((json!(["none", 1, "x"]), false)),
            24 => Some((json!(["file", work_file(&format!("sink_{}_seq.json", case_tag)), ["json", true], null]), true)),
            25 => Some((json!(["file", work_file(&format!("sink_{}_seq2.json", case_tag)), {"type": "json", "newline_delimited": true}, 3]), true)),
            26 => Some((json!({"type": "file", "filename": work_file(&format!("sink_{}_seq3.json", case_tag)), "format": ["json", false]}), true)),
            27 => Some((json!({"type": "file", "filename": work_file(&format!("sink_{}_idx.json", case_tag)), "format": {"type": 0, "newline_delimited": true}}), true)),
            28 => Some((json!({"type": "file", "filename": work_file(&format!("sink_{}_idx2.json", case_tag)), "format": [0, true]}), true)),
            29 => Some((json!({"type": 0}), false)),
            30 => Some((json!([1]), false)),
            31 => Some((json!(["file", work_file("sink_short_seq.json"), ["json", true]]), false)),
            32 => Some((json!(["file", DEV_FULL, ["json", true], null]), true)),
            33 => Some((json!({"type": "file", "filename": work_file("sink_badidx.json"), "format": {"type": 7, "newline_delimited": true}}), false)),
            0..=4 => None,
            5 => Some((json!({"type": "none"}), true)),
            6 => Some((json!({"type": "none", "filename": 7}), true)),
            7 | 8 => Some((json!({"type": "file", "filename": work_file(&format!("sink_{}_{}.json", case_tag, rng.below(1000))), "format": json_fmt(rng.chance(1, 2))}), true)),
            9 => Some((json!({"type": "file", "filename": work_file(&format!("sink_{}_r.json", case_tag)), "format": json_fmt(true), "file_flush_rate": rate_ok}), true)),
            10 => Some((json!({"type": "file", "filename": work_file(&format!("sink_{}_z.json", case_tag)), "format": json_fmt(true), "file_flush_rate": rate_nonpos}), true)),
            11 | 12 | 13 => Some((json!({"type": "file", "filename": DEV_FULL, "format": json_fmt(true)}), true)),
            14 => Some((json!({"type": "file", "filename": work_file("no_such_dir/sink.json"), "format": json_fmt(true)}), true)),
            15 => Some((json!({"type": "file", "filename": work_file("sink_bad_rate.json"), "format": json_fmt(true), "file_flush_rate": rate_bad}), false)),
            16 => Some((json!({"type": "parquet"}), false)),
            17 => Some((json!({"filename": "x"}), false)),
            18 => Some((json!("none"), false)),
            19 => Some((json!({"type": "file", "format": json_fmt(true)}), false)),
            20 => Some((json!({"type": "file", "filename": 5, "format": json_fmt(true)}), false)),
            _ => Some((json!({"type": "file", "filename": work_file("sink_nofmt.json"), "format": {"type": "yaml"}}), false)),
        },
    }
}

/// how the environment of the harness treats a sink file: (can be opened, writes succeed)
fn sink_env(name: &str) -> (bool, bool) {
    if name == DEV_FULL {
        (true, false)
    } else if name.contains("no_such_dir") {
        (false, false)
    } else {
        (true, true)
    }
}

fn sink_file_names(cfg: &Option<Value>) -> Vec<String> {
    let Some(p) = cfg.as_ref().and_then(|c| c.get("response_output_policy")) else { return vec![] };
    // object shape: the `filename` entry; sequence shape `["file", <filename>, …]`: the second element
    let name = match p {
        Value::Array(a) if a.first() == Some(&json!("file")) => a.get(1).and_then(|f| f.as_str()),
        other => other.get("filename").and_then(|f| f.as_str()),
    };
    name.map(|s| vec![s.to_string()]).unwrap_or_default()
}

#[allow(clippy::too_many_arguments)]
fn entry_case_line(fx: &Fixture, persist_cfg: bool, rep: &Report, batch_for_fmt: &[Value], job: &EntryJob, fmt: &str) -> String {
    let names = sink_file_names(&job.run_cfg);
    let mut s = format!("call {} {} {}", fx.app.parallelism, if persist_cfg { 1 } else { 0 }, names.len());
    for n in &names {
        let (o, w) = sink_env(n);
        s.push_str(&format!(" {} {} {}", hex(n), if o { 1 } else { 0 }, if w { 1 } else { 0 }));
    }
    match &job.run_cfg {
        None => s.push_str(" n"),
        Some(c) => s.push_str(&format!(" s {}", enc(c))),
    }
    s.push_str(&format!(" {} {}", fmt, fx.plugins.len()));
    for (i, p) in fx.plugins.iter().enumerate() {
        s.push(' ');
        s.push_str(&p.model_tokens(rep.tables.get(&i)));
    }
    match &job.entry {
        Entry::Vec(b) => {
            s.push_str(&format!(" vec {}", b.len()));
            for q in b {
                s.push(' ');
                s.push_str(&enc(q));
            }
        }
        Entry::Value(v) => s.push_str(&format!(" value {}", enc(v))),
        Entry::Texts(ts, c) => {
            s.push_str(" texts");
            match c {
                None => s.push_str(" n"),
                Some(c) => match serde_json::from_str::<Value>(c) {
                    Ok(v) => s.push_str(&format!(" s {}", enc(&v))),
                    Err(_) => s.push_str(" x"),
                },
            }
            s.push_str(&format!(" {}", ts.len()));
            for t in ts {
                match serde_json::from_str::<Value>(t) {
                    Ok(v) => s.push_str(&format!(" t {}", enc(&v))),
                    Err(_) => s.push_str(" x"),
                }
            }
        }
    }
    let _ = batch_for_fmt;
    s.push_str(&format!(" {}", rep.respond.len()));
    for (k, v) in &rep.respond {
        s.push(' ');
        s.push_str(&hex(k));
        s.push(' ');
        s.push_str(v);
    }
    s
}

/// the batch an entry stands for (for the tables and the baseline), when it stands for one
fn entry_batch(e: &Entry) -> Option<Vec<Value>> {
    match e {
        Entry::Vec(b) => Some(b.clone()),
        Entry::Value(v) => v.get_queries().ok(),
        Entry::Texts(ts, _) => ts.iter().map(|t| serde_json::from_str::<Value>(t).ok()).collect(),
    }
}

fn entry_case(ctx: &mut Ctx, fx: &Fixture, persist_cfg: bool, entry: Entry, run_cfg: Option<Value>, cfg_valid: bool, branch: &str) {
    let Some(idx) = ctx.begin() else { return };
    let batch = entry_batch(&entry).unwrap_or_default();
    let job = EntryJob { entry: entry.clone(), run_cfg: run_cfg.clone() };
    // baseline: the same batch through `run` with the same parallelism / persistence but without an output policy
    let mut base_cfg = run_cfg.clone();
    if let Some(Value::Object(m)) = &mut base_cfg {
        m.shift_remove("response_output_policy");
    }
    let base_cfg_valid = cfg_valid || {
        // validity of the remaining two keys alone is not known separately: only use the baseline when the whole is valid
        false
    };
    let base = EntryJob { entry: Entry::Vec(batch.clone()), run_cfg: base_cfg };
    let jobs = vec![job.clone(), base];
    let mut run = |secs: u32| {
        fork_text(secs, &mut |emit| {
            for (j, jb) in jobs.iter().enumerate() {
                emit(format!("J {} {}", j, out_line(&call_entry(&fx.app, jb))));
            }
            emit_tables(fx, &batch, emit);
            emit("END".to_string());
        })
    };
    let mut text = run(15);
    if !text.contains("\nEND") || text.contains(" panic") {
        ctx.count("child_retried");
        text = run(90);
    }
    let rep = parse_report(&text, 2, batch.len(), false);
    let fmt = fmt_table(fx, &batch);
    ctx.emit(idx, entry_case_line(fx, persist_cfg, &rep, &batch, &job, &fmt), out_line(&rep.jobs[0]));
    ctx.count(branch);
    ctx.count(match &entry {
        Entry::Vec(_) => "entry_vec",
        Entry::Value(_) => "entry_value",
        Entry::Texts(..) => "entry_texts",
    });
    // ---- oracle ----
    let names = sink_file_names(&run_cfg);
    let failing_sink = names.iter().any(|n| n == DEV_FULL);
    let texts_malformed = matches!(&entry, Entry::Texts(ts, c) if ts.iter().any(|t| serde_json::from_str::<Value>(t).is_err()) || c.as_ref().map(|c| serde_json::from_str::<Value>(c).is_err()).unwrap_or(false));
    let not_a_batch = matches!(&entry, Entry::Value(v) if v.get_queries().is_err());
    match &rep.jobs[0] {
        RunOut::Dead => ctx.fail(idx, "batch/timeout", format!("the call did not return: entry {:?} cfg {:?}", clip(&format!("{:?}", entry)), run_cfg)),
        RunOut::Panic => ctx.fail(idx, "batch/panic", format!("the call panicked: cfg {:?} under {}", run_cfg, fx.label)),
        RunOut::Err(k) => {
            ctx.count(&format!("call_err_{}", k));
            if k == "RunConfig" && cfg_valid {
                ctx.fail(idx, "run-config/rejected-valid", format!("valid per-run configuration {} rejected", clip(&run_cfg.clone().unwrap_or(Value::Null).to_string())));
            }
            if k == "NotJson" && !texts_malformed {
                ctx.fail(idx, "entry/texts-differ", "run_queries reports a JSON error on well-formed texts".to_string());
            }
            if k == "NotABatch" && !not_a_batch {
                ctx.fail(idx, "entry/get-queries", "a batch value was refused".to_string());
            }
            if k.starts_with("Other") {
                ctx.fail(idx, "batch/whole-batch-error", format!("the call returned Err({}) under {} with cfg {:?}", k, fx.label, run_cfg));
            }
        }
        RunOut::Ok(rs) => {
            if !cfg_valid {
                ctx.fail(idx, "run-config/accepted-invalid", format!("invalid per-run configuration {} accepted", clip(&run_cfg.clone().unwrap_or(Value::Null).to_string())));
            }
            if texts_malformed {
                ctx.fail(idx, "entry/malformed-text-accepted", "run_queries accepted a text that is not JSON".to_string());
            }
            if not_a_batch {
                ctx.fail(idx, "entry/get-queries", "a value that is not a batch was run".to_string());
            }
            if let (true, RunOut::Ok(b)) = (base_cfg_valid, &rep.jobs[1]) {
                let persist = run_cfg.as_ref().and_then(|c| c.get("response_persistence_policy")).map(|p| p == &json!("persist_response_in_memory")).unwrap_or(persist_cfg);
                let _ = persist;
                // a sink never changes what is returned (JSON format), whatever the entry
                if !failing_sink && sorted(b.clone()) != sorted(rs.clone()) {
                    let key = match &entry {
                        Entry::Vec(_) => "sink/changes-responses",
                        Entry::Value(_) => "entry/value-differs",
                        Entry::Texts(..) => "entry/texts-differ",
                    };
                    ctx.fail(idx, key, format!("{} responses, the same batch through run without output policy gives {} (cfg {:?}, {})", rs.len(), b.len(), run_cfg, fx.label));
                }
                // a sink whose writes fail must fail the call as soon as there is a response to write: count them
                // with the persisting baseline of the alone runs (every query yields at least one response)
                if failing_sink && !batch.is_empty() {
                    ctx.fail(idx, "sink/write-error-swallowed", format!("every write to the sink {} fails, the batch has {} queries (each gets a response that must be persisted), yet the call returned Ok with {} responses (cfg {}, {})", DEV_FULL, batch.len(), rs.len(), clip(&run_cfg.clone().unwrap_or(Value::Null).to_string()), fx.label));
                }
            }
            if rs.len() >= 2 {
                ctx.nontrivial(&format!("call|{}|{}|{:?}|{}", fx.label, rs.len(), names, branch));
            }
        }
    }
}

fn gq_case(ctx: &mut Ctx, v: &Value) {
    let Some(idx) = ctx.begin() else { return };
    let r = std::panic::catch_unwind(|| v.get_queries());
    let line = match &r {
        Err(_) => "panic".to_string(),
        Ok(Err(_)) => "err".to_string(),
        Ok(Ok(qs)) => {
            let mut s = format!("ok {}", qs.len());
            for q in qs {
                s.push(' ');
                s.push_str(&enc(q));
            }
            s
        }
    };
    ctx.emit(idx, format!("gq {}", enc(v)), line);
    ctx.count("get_queries");
    // oracle: an array is the batch; an object is a batch of itself unless it has `queries`, which must be an array
    let want: Option<Vec<Value>> = match v {
        Value::Array(a) => Some(a.clone()),
        Value::Object(m) => match m.get("queries") {
            None => Some(vec![v.clone()]),
            Some(Value::Array(a)) => Some(a.clone()),
            Some(_) => None,
        },
        _ => None,
    };
    let got = match r {
        Ok(Ok(qs)) => Some(Some(qs)),
        Ok(Err(_)) => Some(None),
        Err(_) => None,
    };
    match got {
        None => ctx.fail(idx, "batch/panic", format!("get_queries panicked on {}", clip(&v.to_string()))),
        Some(g) => {
            if g != want {
                ctx.fail(idx, "entry/get-queries", format!("get_queries({}) = {:?}, expected {:?}", clip(&v.to_string()), g.map(|x| x.len()), want.map(|x| x.len())));
            }
        }
    }
}

fn batch_value(rng: &mut Rng, fx: &Fixture, profile: Profile) -> Value {
    let n = rng.below(5);
    let qs: Vec<Value> = (0..n).map(|_| gen_query(fx, rng, profile).q).collect();
    match rng.below(12) {
        0..=3 => Value::Array(qs),
        4 | 5 => json!({"queries": qs}),
        6 => json!({"queries": qs, "note": "extra fields are ignored"}),
        7 => valid_query(fx, rng).q,
        8 => json!({"queries": {"a": 1}}),
        9 => json!({"queries": "all"}),
        10 => [json!(5), json!("batch"), Value::Null, json!(true), json!(2.5)][rng.below(5)].clone(),
        _ => json!({"queries": null, "origin_vertex": 0}),
    }
}

fn builder_kind(e: &CompassConfigurationError) -> &'static str {
    match e {
        CompassConfigurationError::ExpectedFieldForComponent(..) => "MissingField",
        CompassConfigurationError::ExpectedFieldWithType(..) => "WrongType",
        CompassConfigurationError::SerdeDeserializationError(..) => "Serde",
        CompassConfigurationError::UserConfigurationError(..) => "UserConfig",
        _ => "Other",
    }
}

fn probe_line(p: &Arc<dyn InputPlugin>, probes: &[Value]) -> String {
    let mut s = String::new();
    for q in probes {
        let mut v = q.clone();
        let r = std::panic::catch_unwind(std::panic::AssertUnwindSafe(|| p.process(&mut v)));
        match r {
            Err(_) => s.push_str(" panic"),
            Ok(Ok(())) => s.push_str(&format!(" ok {}", enc(&v))),
            Ok(Err(e)) => s.push_str(&format!(" perr {}", variant(&e))),
        }
    }
    s
}

fn opt_json(v: &Option<Value>) -> String {
    match v {
        None => "n".to_string(),
        Some(v) => format!("s {}", enc(v)),
    }
}

fn ibuild_case(ctx: &mut Ctx, params: &Value, must: Option<bool>, branch: &str) {
    let Some(idx) = ctx.begin() else { return };
    let value_text = params.get("value").and_then(|v| v.as_str()).unwrap_or("");
    let parsed_string: Option<Value> = serde_json::from_str(&format!("\"{}\"", value_text)).ok();
    let parsed_json: Option<Value> = serde_json::from_str(value_text).ok();
    let probes = vec![json!({}), json!({"injected": 1, "other": true}), json!(5), json!({"k": null}), json!([1])];
    let r = std::panic::catch_unwind(std::panic::AssertUnwindSafe(|| InjectPluginBuilder {}.build(params)));
    let line = match &r {
        Err(_) => "panic".to_string(),
        Ok(Err(e)) => format!("err {}", builder_kind(e)),
        Ok(Ok(p)) => format!("ok{}", probe_line(p, &probes)),
    };
    let mut case = format!("ibuild {} {} {} {}", enc(params), opt_json(&parsed_string), opt_json(&parsed_json), probes.len());
    for q in &probes {
        case.push(' ');
        case.push_str(&enc(q));
    }
    ctx.emit(idx, case, line);
    ctx.count(branch);
    match (&r, must) {
        (Err(_), _) => ctx.fail(idx, "builder/panic", format!("InjectPluginBuilder::build panicked on {}", params)),
        (Ok(Ok(_)), Some(false)) => ctx.fail(idx, "builder/accepted-invalid", format!("InjectPluginBuilder::build accepted {}", params)),
        (Ok(Err(e)), Some(true)) => ctx.fail(idx, "builder/rejected-valid", format!("InjectPluginBuilder::build rejected {}: {}", params, e)),
        (Ok(Ok(p)), Some(true)) => {
            // the built plugin writes the configured value under the configured key
            let key = params.get("key").and_then(|k| k.as_str()).unwrap_or("");
            let mut q = json!({});
            let _ = p.process(&mut q);
            let want = match params.get("format").and_then(|f| f.as_str()) {
                Some("string") => parsed_string.clone(),
                _ => parsed_json.clone(),
            };
            if q.get(key) != want.as_ref() {
                ctx.fail(idx, "builder/plugin-differs", format!("the plugin built from {} turned {{}} into {}", params, q));
            }
            ctx.nontrivial(&format!("ibuild|{}", params));
        }
        _ => {}
    }
}

fn lbuild_case(ctx: &mut Ctx, fx_fmt_nums: &[f64], params: &Value, must: Option<bool>, branch: &str) {
    let Some(idx) = ctx.begin() else { return };
    let probes = vec![
        json!({"w": 3, "cls": "a"}),
        json!({"w": 2.5, "cls": "zzz", "query_weight_estimate": 4}),
        json!({"w": "heavy", "cls": 7}),
        json!({"query_weight_estimate": 9, "cls": "b"}),
        json!({}),
        json!(5),
    ];
    let r = std::panic::catch_unwind(std::panic::AssertUnwindSafe(|| LoadBalancerBuilder {}.build(params)));
    let wh = params.get("weight_heuristic");
    let haversine = wh.and_then(|h| h.get("type")).and_then(|t| t.as_str()) == Some("haversine") || wh.and_then(|h| h.as_array()).and_then(|a| a.first()).and_then(|t| t.as_str()) == Some("haversine");
    let line = match &r {
        Err(_) => "panic".to_string(),
        Ok(Err(e)) => format!("err {}", builder_kind(e)),
        Ok(Ok(_)) if haversine => "ok haversine".to_string(),
        Ok(Ok(p)) => format!("ok custom{}", probe_line(p, &probes)),
    };
    // how `json!(f64)` prints the weights that may be written
    let mut nums: Vec<f64> = fx_fmt_nums.to_vec();
    fn walk(v: &Value, out: &mut Vec<f64>) {
        match v {
            Value::Number(n) => out.extend(n.as_f64()),
            Value::Array(xs) => xs.iter().for_each(|x| walk(x, out)),
            Value::Object(m) => m.values().for_each(|x| walk(x, out)),
            _ => {}
        }
    }
    walk(params, &mut nums);
    probes.iter().for_each(|p| walk(p, &mut nums));
    let mut seen = HashSet::new();
    let items: Vec<String> = nums.iter().filter(|f| seen.insert(f.to_bits())).map(|f| format!("{} {}", f.to_bits(), hex(&serde_json::to_string(&json!(f)).unwrap_or_default()))).collect();
    let mut case = format!("lbuild {} {} {} {}", items.len(), items.join(" "), enc(params), probes.len()).replace("  ", " ");
    for q in &probes {
        case.push(' ');
        case.push_str(&enc(q));
    }
    ctx.emit(idx, case, line);
    ctx.count(branch);
    match (&r, must) {
        (Err(_), _) => ctx.fail(idx, "builder/panic", format!("LoadBalancerBuilder::build panicked on {}", params)),
        (Ok(Ok(_)), Some(false)) => ctx.fail(idx, "builder/accepted-invalid", format!("LoadBalancerBuilder::build accepted {}", params)),
        (Ok(Err(e)), Some(true)) => ctx.fail(idx, "builder/rejected-valid", format!("LoadBalancerBuilder::build rejected {}: {}", params, e)),
        (Ok(Ok(_)), Some(true)) => ctx.nontrivial(&format!("lbuild|{}", params)),
        _ => {}
    }
}

fn builder_streams(ctx: &mut Ctx, tag: u64) {
    // inject: hand-written, then generated
    let ok = Some(true);
    let bad = Some(false);
    for (p, must) in [
        (json!({"type": "inject", "key": "k", "value": "7", "format": "json"}), ok),
        (json!({"type": "inject", "key": "k", "value": "{\"a\": [1, 2.5, null]}", "format": "json", "overwrite": false}), ok),
        (json!({"type": "inject", "key": "k", "value": "plain text", "format": "string", "overwrite": true}), ok),
        (json!({"type": "inject", "key": "k", "value": "tab\\tnew\\nline \\u00e9", "format": "string"}), ok),
        (json!({"type": "inject", "key": "k", "value": "a \"quoted\" word", "format": "string"}), bad),
        (json!({"type": "inject", "key": "k", "value": "back\\slash", "format": "string"}), bad),
        (json!({"type": "inject", "key": "k", "value": "{not json", "format": "json"}), bad),
        (json!({"type": "inject", "key": "k", "value": "", "format": "json"}), bad),
        (json!({"type": "inject", "key": "k", "value": "", "format": "string"}), ok),
        // the `toml` format is declared but not implemented: an error, not a panic while the application is built
        (json!({"type": "inject", "key": "k", "value": "a = 1", "format": "toml"}), bad),
        (json!({"type": "inject", "key": "k", "value": "7", "format": {"json": null}}), ok),
        (json!({"type": "inject", "key": "k", "value": "7", "format": "yaml"}), bad),
        (json!({"type": "inject", "key": "k", "value": "7", "format": 3}), bad),
        (json!({"type": "inject", "key": "k", "value": "7"}), bad),
        (json!({"type": "inject", "value": "7", "format": "json"}), bad),
        (json!({"type": "inject", "key": 5, "value": "7", "format": "json"}), bad),
        (json!({"type": "inject", "key": "k", "format": "json"}), bad),
        (json!({"type": "inject", "key": "k", "value": 7, "format": "json"}), bad),
        (json!({"type": "inject", "key": "k", "value": "7", "format": "json", "overwrite": "no"}), bad),
        (json!({"type": "inject", "key": "k", "value": "7", "format": "json", "overwrite": null}), bad),
        (json!({"type": "inject", "key": "", "value": "null", "format": "json"}), ok),
        (json!([1, 2]), bad),
        (json!(5), bad),
    ] {
        ibuild_case(ctx, &p, must, "inject_builder_corpus");
    }
    let n = ctx.n(150, 2000);
    for k in 0..n {
        let mut rng = Rng::for_case(ctx.seed, tag * 100 + 7, k as u64);
        let mut m = Map::new();
        m.insert("type".into(), json!("inject"));
        let mut must = true;
        match rng.below(8) {
            0 => must = false,
            1 => {
                let j = junk(&mut rng);
                if !j.is_string() {
                    must = false;
                }
                m.insert("key".into(), j);
            }
            _ => {
                m.insert("key".into(), json!(["k", "injected", "a b", ""][rng.below(4)]));
            }
        }
        let fmt = ["json", "string", "toml", "yaml"][rng.below(4)];
        let (text, parses): (String, bool) = match (fmt, rng.below(6)) {
            ("json", 0) => ("{broken".to_string(), false),
            ("json", 1) => ("[1, 2, {\"x\": null}]".to_string(), true),
            ("json", 2) => ("\"text\"".to_string(), true),
            ("json", _) => (format!("{}", rng.range(-5, 50)), true),
            ("string", 0) => ("has \" quote".to_string(), false),
            ("string", 1) => ("esc \\n ok".to_string(), true),
            ("string", 2) => ("bad \\q escape".to_string(), false),
            ("string", _) => (format!("word{}", rng.below(9)), true),
            (_, _) => ("a = 1".to_string(), true),
        };
        match rng.below(8) {
            0 => must = false,
            1 => {
                m.insert("value".into(), junk(&mut rng));
                if !m["value"].is_string() {
                    must = false;
                } else {
                    must = must && fmt == "string";
                }
            }
            _ => {
                m.insert("value".into(), json!(text));
                must = must && parses;
            }
        }
        match rng.below(8) {
            0 => must = false,
            1 => {
                m.insert("format".into(), junk(&mut rng));
                must = false;
            }
            _ => {
                m.insert("format".into(), json!(fmt));
                must = must && (fmt == "json" || fmt == "string");
            }
        }
        match rng.below(6) {
            0 => {
                m.insert("overwrite".into(), json!(rng.chance(1, 2)));
            }
            1 => {
                let j = junk(&mut rng);
                if !j.is_boolean() {
                    must = false;
                }
                m.insert("overwrite".into(), j);
            }
            _ => {}
        }
        // a `junk` value that happens to be a string makes the outcome depend on its content: no expectation then
        let uncertain = m.get("value").map(|v| v == &json!("abc") || v == &json!("")).unwrap_or(false) || m.get("format").map(|f| f.is_string() && !["json", "string", "toml", "yaml"].contains(&f.as_str().unwrap_or(""))).unwrap_or(false) || m.get("key").map(|k| k == &json!("abc")).unwrap_or(false);
        ibuild_case(ctx, &Value::Object(m), if uncertain { None } else { Some(must) }, "inject_builder_generated");
    }
    // load balancer
    let nums = [1.0, 5.5, 0.25, 2.0, 3.0, 4.0, 9.0, 2.5];
    for (p, must) in [
        (json!({"type": "load_balancer", "weight_heuristic": {"type": "haversine"}}), ok),
        (json!({"type": "load_balancer", "weight_heuristic": {"type": "custom", "custom_weight_type": {"type": "numeric", "column_name": "w"}}}), ok),
        (json!({"type": "load_balancer", "weight_heuristic": {"type": "custom", "custom_weight_type": {"type": "numeric"}}}), ok),
        (json!({"type": "load_balancer", "weight_heuristic": {"type": "custom", "custom_weight_type": {"type": "numeric", "column_name": null}}}), ok),
        (json!({"type": "load_balancer", "weight_heuristic": {"type": "custom", "custom_weight_type": {"type": "categorical", "column_name": "cls", "mapping": {"a": 1, "b": 5.5}, "default": 2}}}), ok),
        (json!({"type": "load_balancer", "weight_heuristic": {"type": "custom", "custom_weight_type": {"type": "categorical", "mapping": {}}}}), ok),
        (json!({"type": "load_balancer", "weight_heuristic": {"type": "custom", "custom_weight_type": {"type": "categorical", "column_name": "cls", "mapping": {"a": 1}, "default": null}}}), ok),
        (json!({"type": "load_balancer", "weight_heuristic": {"type": "custom", "custom_weight_type": {"type": "categorical", "column_name": "cls"}}}), bad),
        (json!({"type": "load_balancer", "weight_heuristic": {"type": "custom", "custom_weight_type": {"type": "categorical", "column_name": "cls", "mapping": {"a": "one"}}}}), bad),
        (json!({"type": "load_balancer", "weight_heuristic": {"type": "custom", "custom_weight_type": {"type": "categorical", "column_name": "cls", "mapping": {"a": 1}, "default": "x"}}}), bad),
        (json!({"type": "load_balancer", "weight_heuristic": {"type": "custom", "custom_weight_type": {"type": "ordinal"}}}), bad),
        (json!({"type": "load_balancer", "weight_heuristic": {"type": "custom", "custom_weight_type": {"type": "numeric", "column_name": 5}}}), bad),
        (json!({"type": "load_balancer", "weight_heuristic": {"type": "custom"}}), bad),
        (json!({"type": "load_balancer", "weight_heuristic": {"type": "euclidean"}}), bad),
        (json!({"type": "load_balancer", "weight_heuristic": {}}), bad),
        (json!({"type": "load_balancer", "weight_heuristic": "haversine"}), bad),
        (json!({"type": "load_balancer", "weight_heuristic": 3}), bad),
        (json!({"type": "load_balancer"}), bad),
        (json!("load_balancer"), bad),
        // serde's sequence shape and (nested) index tags of the internally tagged enums
        (json!({"type": "load_balancer", "weight_heuristic": ["haversine"]}), ok),
        (json!({"type": "load_balancer", "weight_heuristic": ["haversine", 1]}), bad),
        (json!({"type": "load_balancer", "weight_heuristic": {"type": 0}}), bad),
        (json!({"type": "load_balancer", "weight_heuristic": [0]}), bad),
        (json!({"type": "load_balancer", "weight_heuristic": {"type": "custom", "custom_weight_type": {"type": 0, "column_name": "w"}}}), ok),
        (json!({"type": "load_balancer", "weight_heuristic": {"type": "custom", "custom_weight_type": {"type": 1, "column_name": "cls", "mapping": {"a": 1, "b": 5.5}}}}), ok),
        (json!({"type": "load_balancer", "weight_heuristic": {"type": "custom", "custom_weight_type": {"type": 2}}}), bad),
        (json!({"type": "load_balancer", "weight_heuristic": {"type": "custom", "custom_weight_type": {"type": 0.0, "column_name": "w"}}}), bad),
        (json!({"type": "load_balancer", "weight_heuristic": ["custom", ["numeric", "w"]]}), ok),
        (json!({"type": "load_balancer", "weight_heuristic": ["custom", [0, "w"]]}), ok),
        (json!({"type": "load_balancer", "weight_heuristic": ["custom"]}), bad),
        (json!({"type": "load_balancer", "weight_heuristic": {"type": "custom", "custom_weight_type": ["numeric", "w"]}}), ok),
        (json!({"type": "load_balancer", "weight_heuristic": {"type": "custom", "custom_weight_type": ["numeric", null]}}), ok),
        (json!({"type": "load_balancer", "weight_heuristic": {"type": "custom", "custom_weight_type": ["numeric"]}}), bad),
        (json!({"type": "load_balancer", "weight_heuristic": {"type": "custom", "custom_weight_type": ["numeric", "w", 1]}}), bad),
        (json!({"type": "load_balancer", "weight_heuristic": {"type": "custom", "custom_weight_type": ["categorical", "cls", {"a": 1.0}, 2.0]}}), ok),
        (json!({"type": "load_balancer", "weight_heuristic": {"type": "custom", "custom_weight_type": ["categorical", "cls", {"a": 1.0}, null]}}), ok),
        (json!({"type": "load_balancer", "weight_heuristic": {"type": "custom", "custom_weight_type": ["categorical", "cls", {"a": 1.0}]}}), bad),
        (json!({"type": "load_balancer", "weight_heuristic": {"type": "custom", "custom_weight_type": ["categorical", null, {}, null]}}), ok),
    ] {
        lbuild_case(ctx, &nums, &p, must, "lb_builder_corpus");
    }
    let n = ctx.n(100, 1500);
    for k in 0..n {
        let mut rng = Rng::for_case(ctx.seed, tag * 100 + 8, k as u64);
        let mut must = true;
        let mut cw = Map::new();
        let ty = ["numeric", "categorical", "numeric", "categorical", "bogus"][rng.below(5)];
        cw.insert("type".into(), json!(ty));
        if ty == "bogus" {
            must = false;
        }
        match rng.below(5) {
            0 => {}
            1 => {
                cw.insert("column_name".into(), Value::Null);
            }
            2 => {
                let j = junk(&mut rng);
                if !(j.is_string() || j.is_null()) {
                    must = false;
                }
                cw.insert("column_name".into(), j);
            }
            _ => {
                cw.insert("column_name".into(), json!(["w", "cls", "query_weight_estimate"][rng.below(3)]));
            }
        }
        if ty == "categorical" || rng.chance(1, 5) {
            match rng.below(6) {
                0 => {
                    if ty == "categorical" {
                        must = false;
                    }
                }
                1 => {
                    let j = junk(&mut rng);
                    if ty == "categorical" && !(j.is_object() && j.as_object().map(|o| o.values().all(|v| v.is_number())).unwrap_or(false)) {
                        must = false;
                    }
                    cw.insert("mapping".into(), j);
                }
                _ => {
                    cw.insert("mapping".into(), json!({"a": rng.range(1, 9), "b": rng.small_decimal(9, 1), "zzz": 0.25}));
                }
            }
            match rng.below(5) {
                0 => {
                    cw.insert("default".into(), json!(rng.small_decimal(5, 1)));
                }
                1 => {
                    cw.insert("default".into(), Value::Null);
                }
                2 => {
                    let j = junk(&mut rng);
                    if ty == "categorical" && !(j.is_number() || j.is_null()) {
                        must = false;
                    }
                    cw.insert("default".into(), j);
                }
                _ => {}
            }
        }
        // serde's other shapes, when every positional field is there
        let mut cw_value = Value::Object(cw.clone());
        match (ty, rng.below(4)) {
            ("numeric", 0) if cw.get("column_name").map(|c| c.is_string() || c.is_null()).unwrap_or(false) => {
                cw_value = json!(["numeric", cw["column_name"].clone()]);
            }
            ("categorical", 0) if cw.contains_key("mapping") && cw.contains_key("column_name") && cw.contains_key("default") => {
                cw_value = json!(["categorical", cw["column_name"].clone(), cw["mapping"].clone(), cw["default"].clone()]);
            }
            ("numeric", 1) | ("categorical", 1) => {
                if let Value::Object(m) = &mut cw_value {
                    m.insert("type".into(), json!(if ty == "numeric" { 0 } else { 1 }));
                }
            }
            _ => {}
        }
        let wh = match rng.below(9) {
            8 => {
                if rng.chance(1, 2) { json!(["haversine"]) } else { json!(["custom", cw_value.clone()]) }
            }
            0 => json!({"type": "haversine"}),
            1 => {
                must = false;
                json!({"type": "custom"})
            }
            2 => {
                must = false;
                junk(&mut rng)
            }
            _ => json!({"type": "custom", "custom_weight_type": cw_value}),
        };
        let is_hav = wh == json!({"type": "haversine"}) || wh == json!(["haversine"]);
        let p = json!({"type": "load_balancer", "weight_heuristic": wh});
        lbuild_case(ctx, &nums, &p, Some(must || is_hav), "lb_builder_generated");
    }
}

fn entry_streams(ctx: &mut Ctx, fixtures: &[(Fixture, bool)], profile: Profile, tag: u64) {
    // get_queries alone
    for v in [
        json!([]),
        json!([{"origin_vertex": 0}, 5, [1]]),
        json!({"origin_vertex": 0, "destination_vertex": 1}),
        json!({"queries": []}),
        json!({"queries": [{"origin_vertex": 0}, {"origin_vertex": 1}], "origin_vertex": 7}),
        json!({"queries": {"origin_vertex": 0}}),
        json!({"queries": null}),
        json!({"queries": 3}),
        json!({"Queries": [1]}),
        json!({}),
        json!(5),
        json!("queries"),
        Value::Null,
        json!(true),
        json!(1.5),
    ] {
        gq_case(ctx, &v);
    }
    if fixtures.is_empty() {
        return;
    }
    let n = ctx.n(120, 1500);
    for k in 0..n {
        let mut rng = Rng::for_case(ctx.seed, tag * 100 + 5, k as u64);
        let (fx, _) = &fixtures[k % fixtures.len()];
        let v = batch_value(&mut rng, fx, profile);
        gq_case(ctx, &v);
    }
    // the call with a per-run configuration, through its three entries
    // corpus: the sink whose writes fail, under both policies (the discard policy used to swallow the error)
    if let Some((fx, pc)) = fixtures.iter().find(|f| f.0.label == "none") {
        let b = vec![json!({"origin_vertex": 0, "destination_vertex": 3}), json!({"origin_vertex": 1, "destination_vertex": 2})];
        let full = |policy: &str| json!({"response_persistence_policy": policy, "response_output_policy": {"type": "file", "filename": DEV_FULL, "format": {"type": "json", "newline_delimited": true}}});
        entry_case(ctx, fx, *pc, Entry::Vec(b.clone()), Some(full("persist_response_in_memory")), true, "corpus_failing_sink");
        entry_case(ctx, fx, *pc, Entry::Vec(b.clone()), Some(full("discard_response_from_memory")), true, "corpus_failing_sink");
        entry_case(ctx, fx, *pc, Entry::Vec(vec![json!(5)]), Some(full("discard_response_from_memory")), true, "corpus_failing_sink");
        entry_case(ctx, fx, *pc, Entry::Vec(vec![]), Some(full("persist_response_in_memory")), true, "corpus_failing_sink");
        entry_case(ctx, fx, *pc, Entry::Value(json!({"queries": b})), None, true, "corpus_entry");
        entry_case(ctx, fx, *pc, Entry::Value(json!(5)), None, true, "corpus_entry");
        entry_case(ctx, fx, *pc, Entry::Value(json!({"queries": 5})), Some(json!({"parallelism": "abc"})), false, "corpus_entry");
        entry_case(ctx, fx, *pc, Entry::Texts(vec![b[0].to_string(), "{oops".to_string()], None), None, true, "corpus_entry");
        entry_case(ctx, fx, *pc, Entry::Texts(vec![b[0].to_string(), b[1].to_string()], Some("{\"parallelism\": 3}".to_string())), Some(json!({"parallelism": 3})), true, "corpus_entry");
        entry_case(ctx, fx, *pc, Entry::Texts(vec![b[0].to_string()], Some("not json".to_string())), None, true, "corpus_entry");
        // a parallelism far beyond the batch size: the bins are per query at most (it used to allocate `parallelism`
        // bins: an allocation failure aborts the process)
        entry_case(ctx, fx, *pc, Entry::Vec(b.clone()), Some(json!({"parallelism": 4_000_000_000_000u64})), true, "corpus_huge_parallelism");
        entry_case(ctx, fx, *pc, Entry::Vec(b.clone()), Some(json!({"parallelism": u64::MAX})), true, "corpus_huge_parallelism");
        entry_case(ctx, fx, *pc, Entry::Vec(b.clone()), Some(json!(5)), true, "corpus_run_config");
        entry_case(ctx, fx, *pc, Entry::Vec(b.clone()), Some(json!({"parallelism": -1})), false, "corpus_run_config");
        entry_case(ctx, fx, *pc, Entry::Vec(b), Some(json!({"response_output_policy": {"type": "file", "filename": fx.dir.join("no_such_dir/x.json").to_str().unwrap_or_default(), "format": {"type": "json", "newline_delimited": false}}})), true, "corpus_run_config");
    }
    let n = ctx.n(260, 3000);
    for k in 0..n {
        let mut rng = Rng::for_case(ctx.seed, tag * 100 + 6, k as u64);
        let (fx, pc) = &fixtures[k % fixtures.len()];
        // the per-run configuration
        let mut valid = true;
        let mut m = Map::new();
        // key order as the generator likes: the code reads them by name
        let mut keys = ["parallelism", "response_persistence_policy", "response_output_policy"];
        rng.shuffle(&mut keys);
        for key in keys {
            if let Some((v, ok)) = run_cfg_part(&mut rng, fx, key, k) {
                m.insert(key.to_string(), v);
                valid = valid && ok;
            }
        }
        let cfg: Option<Value> = match rng.below(10) {
            0 => {
                valid = true;
                None
            }
            1 => {
                // a configuration that is not an object has no keys: nothing is overridden
                valid = true;
                Some([json!(5), json!("cfg"), json!([{"parallelism": "abc"}]), Value::Null][rng.below(4)].clone())
            }
            _ => Some(Value::Object(m)),
        };
        let size = rng.below(6);
        let batch: Vec<Value> = (0..size).map(|_| gen_query(fx, &mut rng, profile).q).collect();
        let entry = match rng.below(10) {
            0..=4 => Entry::Vec(batch),
            5..=7 => Entry::Value(batch_value(&mut rng, fx, profile)),
            _ => {
                let mut ts: Vec<String> = batch.iter().map(|q| q.to_string()).collect();
                if rng.chance(1, 6) && !ts.is_empty() {
                    let i = rng.below(ts.len());
                    ts[i] = ["{oops", "", "[1,", "nul"][rng.below(4)].to_string();
                }
                let ct = match &cfg {
                    None => None,
                    Some(c) => Some(if rng.chance(1, 10) { "{bad cfg".to_string() } else { c.to_string() }),
                };
                Entry::Texts(ts, ct)
            }
        };
        entry_case(ctx, fx, *pc, entry, cfg, valid, "generated_call");
    }
}

// ---------------------------------------------------------------------------------------------
// CompassApp::try_from from a (mutated) TOML: never a panic, invalid configurations rejected, valid ones accepted,
// and with two defects at once the error of the EARLIER build stage is the one reported

const STAGES: [&str; 15] = [
    "config", "algorithm", "state", "traversal", "access", "cost", "frontier", "termination", "graph", "input_plugins", "output_plugins",
    "parallelism", "search_orientation", "response_persistence_policy", "response_output_policy",
];

struct Mutation {
    name: &'static str,
    /// the build stage the edit breaks (the harness's knowledge of the configuration layout); "" when it breaks none
    stage: &'static str,
    /// text appended to the base configuration
    append: String,
    /// replacement (from, to) applied to the base configuration
    replace: Option<(String, String)>,
    /// must the build fail
    must: Option<bool>,
    /// the parallelism the built application must have (what the configuration library makes of the value)
    par: Option<u64>,
}

fn apply_mutation(base: &str, m: &Mutation) -> String {
    let mut t = base.to_string();
    if let Some((from, to)) = &m.replace {
        t = t.replacen(from.as_str(), to.as_str(), 1);
    }
    if m.append.starts_with("TOP:") {
        t = format!("{}\n{}", &m.append[4..], t);
    } else {
        t.push_str(&m.append);
    }
    t
}

fn config_mutations(d: &str) -> Vec<Mutation> {
    let rep = |name: &'static str, stage: &'static str, from: &str, to: &str, must: Option<bool>| Mutation { name, stage, append: String::new(), replace: Some((from.to_string(), to.to_string())), must, par: None };
    let app = |name: &'static str, stage: &'static str, text: String, must: Option<bool>| Mutation { name, stage, append: text, replace: None, must, par: None };
    let t = Some(true);
    let f = Some(false);
    let par_ok = |name: &'static str, to: &str, par: u64| Mutation { name, stage: "", append: String::new(), replace: Some(("parallelism = ".to_string(), to.to_string())), must: Some(false), par: Some(par) };
    let plug = "input_plugins = [";
    vec![
        app("valid", "", String::new(), f),
        app("toml_syntax_error", "config", "\n[graph\n".to_string(), t),
        rep("edge_file_missing", "config", "/edges.csv", "/no_such_edges.csv", t),
        rep("vertex_file_missing", "config", "/vertices.csv\"\nverbose", "/no_such_vertices.csv\"\nverbose", t),
        rep("speed_table_missing", "config", "/speeds.csv", "/no_such_speeds.csv", t),
        rep("geometry_file_missing", "config", "/geoms.txt", "/no_geoms.txt", t),
        app("algorithm_unknown", "algorithm", "\n[algorithm]\ntype = \"bogosort\"\n".to_string(), t),
        app("algorithm_dijkstra", "", "\n[algorithm]\ntype = \"dijkstra\"\n".to_string(), None),
        app("state_section", "", "\n[state]\nextra_distance = { distance_unit = \"miles\", initial = 0.0 }\n".to_string(), None),
        app("state_section_bad", "state", "\n[state]\nextra = { color = \"blue\" }\n".to_string(), t),
        rep("traversal_unknown_type", "traversal", "type = \"speed_table\"", "type = \"warp_drive\"", t),
        rep("traversal_missing_field", "traversal", "speed_unit = \"kilometers_per_hour\"\n", "", t),
        rep("traversal_bad_unit", "traversal", "speed_unit = \"kilometers_per_hour\"", "speed_unit = \"furlongs_per_fortnight\"", t),
        app("access_unknown", "access", "\n[access]\ntype = \"teleport\"\n".to_string(), t),
        rep("cost_bad_aggregation", "cost", "cost_aggregation = \"sum\"", "cost_aggregation = \"median\"", t),
        app("frontier_unknown", "frontier", "\n[frontier]\ntype = \"wild_west\"\n".to_string(), t),
        app("termination_unknown", "termination", "\n[termination]\ntype = \"never\"\n".to_string(), t),
        app("termination_negative", "termination", "\n[termination]\ntype = \"iterations\"\nlimit = -5\n".to_string(), t),
        app("termination_iterations", "", "\n[termination]\ntype = \"iterations\"\nlimit = 50\n".to_string(), f),
        rep("graph_section_without_files", "graph", &format!("edge_list_input_file = \"{}/edges.csv\"\n", d), "", t),
        rep("input_plugin_unknown", "input_plugins", plug, "input_plugins = [{ type = \"crystal_ball\" }, ", t),
        rep("input_plugin_without_type", "input_plugins", plug, "input_plugins = [{ key = \"k\" }, ", t),
        rep("input_plugins_not_a_list", "input_plugins", plug, "input_plugins = 7 # [", t),
        rep("inject_toml_format", "input_plugins", plug, "input_plugins = [{ type = \"inject\", key = \"k\", value = \"a = 1\", format = \"toml\" }, ", t),
        rep("inject_bad_json", "input_plugins", plug, "input_plugins = [{ type = \"inject\", key = \"k\", value = \"{oops\", format = \"json\" }, ", t),
        rep("inject_string_format", "", plug, "input_plugins = [{ type = \"inject\", key = \"k\", value = \"plain\", format = \"string\" }, ", f),
        rep("load_balancer_without_heuristic", "input_plugins", plug, "input_plugins = [{ type = \"load_balancer\" }, ", t),
        rep("load_balancer_bad_heuristic", "input_plugins", plug, "input_plugins = [{ type = \"load_balancer\", weight_heuristic = { type = \"custom\", custom_weight_type = { type = \"categorical\" } } }, ", t),
        rep("vertex_rtree_bad_tolerance_unit", "input_plugins", plug, &format!("input_plugins = [{{ type = \"vertex_rtree\", vertices_input_file = \"{}/vertices.csv\", distance_tolerance = 10.0, distance_unit = \"cubits\" }}, ", d), t),
        rep("grid_search_plugin_extra_fields", "", plug, "input_plugins = [{ type = \"grid_search\", depth = 3 }, ", f),
        rep("output_plugin_unknown", "output_plugins", "{ type = \"summary\" },", "{ type = \"horoscope\" },", t),
        rep("traversal_plugin_bad_format", "output_plugins", "route = \"edge_id\"", "route = \"hologram\"", t),
        rep("parallelism_string", "parallelism", "parallelism = ", "parallelism = \"many\" # ", t),
        rep("parallelism_negative", "parallelism", "parallelism = ", "parallelism = -2 # ", t),
        // what the configuration library (config 0.14) makes of a value that is not an unsigned integer: fractions are
        // rounded, numeric strings parsed, booleans counted, non-finite values saturated; a result of 0 is refused
        par_ok("parallelism_float_2_5", "parallelism = 2.5 # ", 3),
        par_ok("parallelism_float_2_4", "parallelism = 2.4 # ", 2),
        par_ok("parallelism_numeric_string", "parallelism = \"3\" # ", 3),
        par_ok("parallelism_true", "parallelism = true # ", 1),
        par_ok("parallelism_inf", "parallelism = inf # ", u64::MAX),
        par_ok("parallelism_1e30", "parallelism = 1e30 # ", u64::MAX),
        rep("parallelism_zero", "parallelism", "parallelism = ", "parallelism = 0 # ", t),
        rep("parallelism_false", "parallelism", "parallelism = ", "parallelism = false # ", t),
        rep("parallelism_nan", "parallelism", "parallelism = ", "parallelism = nan # ", t),
        rep("parallelism_0_4", "parallelism", "parallelism = ", "parallelism = 0.4 # ", t),
        rep("parallelism_minus_zero", "parallelism", "parallelism = ", "parallelism = -0 # ", t),
        rep("parallelism_list", "parallelism", "parallelism = ", "parallelism = [2] # ", t),
        rep("parallelism_padded_string", "parallelism", "parallelism = ", "parallelism = \" 3\" # ", t),
        rep("orientation_unknown", "search_orientation", "search_orientation = \"vertex\"", "search_orientation = \"diagonal\"", t),
        rep("orientation_wrong_type", "search_orientation", "search_orientation = \"vertex\"", "search_orientation = 3", t),
        rep("persistence_unknown", "response_persistence_policy", "response_persistence_policy = \"persist_response_in_memory\"", "response_persistence_policy = \"forget_everything\"", t),
        app("output_policy_unknown", "response_output_policy", "TOP:response_output_policy = { type = \"carrier_pigeon\" }".to_string(), t),
        app("output_policy_file", "", format!("TOP:response_output_policy = {{ type = \"file\", filename = \"{}/configured_sink.json\", format = {{ type = \"json\", newline_delimited = true }} }}", d), f),
        app("output_policy_file_missing_format", "response_output_policy", format!("TOP:response_output_policy = {{ type = \"file\", filename = \"{}/x.json\" }}", d), t),
    ]
}

/// build from the TOML text and from the file, in a child: ("ok <parallelism>" | "err <text>" | "panic" | "dead") twice
fn build_in_child(toml: &str, path: &Path, count: &mut dyn FnMut()) -> (String, String) {
    let p = path.to_str().unwrap_or_default().to_string();
    let _ = std::fs::write(path, toml);
    let mut run = |secs: u32| {
        fork_text(secs, &mut |emit| {
            let r = std::panic::catch_unwind(std::panic::AssertUnwindSafe(|| CompassApp::try_from_config_toml_string(toml.to_string(), p.clone(), &CompassAppBuilder::default())));
            match r {
                Err(_) => emit("B panic".to_string()),
                Ok(Ok(app)) => emit(format!("B ok {}", app.parallelism)),
                Ok(Err(e)) => emit(format!("B err {}", hex(&e.to_string()))),
            }
            // the same configuration through the file entry point (TryFrom<&Path>, read_config_from_file)
            let r = std::panic::catch_unwind(std::panic::AssertUnwindSafe(|| CompassApp::try_from(Path::new(&p))));
            match r {
                Err(_) => emit("P panic".to_string()),
                Ok(Ok(app)) => emit(format!("P ok {}", app.parallelism)),
                Ok(Err(e)) => emit(format!("P err {}", hex(&e.to_string()))),
            }
            emit("END".to_string());
        })
    };
    let mut text = run(30);
    if !text.contains("\nEND") {
        count();
        text = run(180);
    }
    let mut built = String::from("dead");
    let mut path_built = String::from("dead");
    for line in text.lines() {
        if let Some(r) = line.strip_prefix("B ") {
            built = match r.strip_prefix("err ") {
                Some(h) => format!("err {}", unhex(h).unwrap_or_default()),
                None => r.to_string(),
            };
        }
        if let Some(r) = line.strip_prefix("P ") {
            path_built = match r.strip_prefix("err ") {
                Some(h) => format!("err {}", unhex(h).unwrap_or_default()),
                None => r.to_string(),
            };
        }
    }
    (built, path_built)
}

fn config_stream(ctx: &mut Ctx, root: &Path, tag: u64) {
    let rounds = ctx.n(1, 4);
    for round in 0..rounds {
        let mut rng = Rng::for_case(ctx.seed, tag * 100 + 9, round as u64);
        let dir = root.join(format!("cfg{}", round));
        let n_vertices = 12 + rng.below(10);
        let net = gen_net(&mut rng, n_vertices);
        write_net(&dir, &net);
        let d = dir.to_str().unwrap_or_default().to_string();
        let plugins = vec![PluginSpec::Grid, PluginSpec::LbNum { col: Some(LB_COL.to_string()) }];
        let base = config_toml(&dir, 1 + rng.below(8), Traversal::Speed, &plugins, true, false, None);
        let path = dir.join("config.toml");
        let muts = config_mutations(&d);
        let mut single_err: Vec<Option<String>> = vec![];
        let stage_line = |failing: &[&str]| {
            let mut s = format!("stages {}", STAGES.len());
            for st in STAGES {
                s.push_str(&format!(" {} {}", st, if failing.contains(&st) { 1 } else { 0 }));
            }
            s
        };
        // one defect at a time
        for m in &muts {
            let Some(idx) = ctx.begin() else {
                single_err.push(None);
                continue;
            };
            let toml = apply_mutation(&base, m);
            let mut retried = false;
            let (built, path_built) = build_in_child(&toml, &path, &mut || retried = true);
            if retried {
                ctx.count("child_retried");
            }
            single_err.push(built.strip_prefix("err ").map(|e| e.to_string()));
            let failing: Vec<&str> = if m.stage.is_empty() { vec![] } else { vec![m.stage] };
            let impl_line = if built.starts_with("ok") {
                "ok".to_string()
            } else if built.starts_with("err") {
                // a single defect: the stage is the one the edit breaks (the pairs below check the order)
                format!("err {}", if m.stage.is_empty() { "?" } else { m.stage })
            } else {
                built.clone()
            };
            ctx.emit(idx, stage_line(&failing), impl_line);
            ctx.count(&format!("config_{}", m.name));
            config_oracle(ctx, idx, m.name, m.must, &built, &path_built);
            if let (Some(want), Some(got)) = (m.par, built.strip_prefix("ok ")) {
                if got.parse::<u64>().ok() != Some(want) {
                    ctx.fail(idx, "config/parallelism-coerced", format!("`{}`: the application was built with parallelism {}, expected {}", m.name, got, want));
                }
            }
            if built.starts_with("err") {
                ctx.nontrivial(&format!("cfg|{}", m.name));
            }
        }
        // two defects at once: the error reported must be the one of the earlier stage
        let breaking: Vec<usize> = (0..muts.len()).filter(|i| !muts[*i].stage.is_empty() && muts[*i].stage != "config").collect();
        let pairs = ctx.n(12, 60);
        for _ in 0..pairs {
            let a = breaking[rng.below(breaking.len())];
            let b = breaking[rng.below(breaking.len())];
            if muts[a].stage == muts[b].stage {
                continue;
            }
            // both edits must still find their anchor text
            let ta = apply_mutation(&base, &muts[a]);
            let tab = apply_mutation(&ta, &muts[b]);
            if tab == ta || apply_mutation(&base, &muts[b]) == base {
                continue;
            }
            let (Some(ea), Some(eb)) = (&single_err[a], &single_err[b]) else { continue };
            let Some(idx) = ctx.begin() else { continue };
            let mut retried = false;
            let (built, path_built) = build_in_child(&tab, &path, &mut || retried = true);
            let impl_line = match built.strip_prefix("err ") {
                Some(e) if norm_err(e) == norm_err(ea) => format!("err {}", muts[a].stage),
                Some(e) if norm_err(e) == norm_err(eb) => format!("err {}", muts[b].stage),
                Some(e) => format!("err ?{}", clip(e).replace(' ', "_")),
                None => built.split(' ').next().unwrap_or("").to_string(),
            };
            ctx.emit(idx, stage_line(&[muts[a].stage, muts[b].stage]), impl_line.clone());
            ctx.count("config_two_defects");
            config_oracle(ctx, idx, "two_defects", Some(true), &built, &path_built);
            ctx.nontrivial(&format!("cfg2|{}|{}", muts[a].name, muts[b].name));
        }
    }
}

/// an error text without what legitimately varies: the list of known names (HashMap order) and the file name the
/// file entry point appends to a TOML syntax error
fn norm_err(t: &str) -> String {
    let t = t.split(", must be one of").next().unwrap_or(t).trim_end();
    match (t.ends_with("config.toml"), t.rfind(" in ")) {
        (true, Some(i)) => t[..i].trim_end().to_string(),
        _ => t.to_string(),
    }
}

fn config_oracle(ctx: &mut Ctx, idx: usize, name: &str, must: Option<bool>, built: &str, path_built: &str) {
    match (built, must) {
        ("dead", _) => ctx.fail(idx, "config/timeout", format!("building the application from the configuration `{}` did not return", name)),
        ("panic", _) => ctx.fail(idx, "config/panic", format!("building the application from the configuration `{}` panicked", name)),
        (b, Some(true)) if b.starts_with("ok") => ctx.fail(idx, "config/accepted-invalid", format!("the invalid configuration `{}` was accepted", name)),
        (b, Some(false)) if b.starts_with("err") => ctx.fail(idx, "config/rejected-valid", format!("the valid configuration `{}` was rejected: {}", name, clip(b))),
        _ => {}
    }
    if norm_err(built) != norm_err(path_built) {
        ctx.fail(idx, "config/path-differs", format!("`{}`: from the TOML text: {}, from the file: {}", name, clip(built), clip(path_built)));
    }
}
