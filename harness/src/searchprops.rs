//! C01 C02 C03 C04 C05 C10 — checks on plain (Dijkstra / A*) searches.
//! Every case is run through the real `SearchAlgorithm::run_{vertex,edge}_oriented`; the case, with
//! the pop schedule the implementation took, goes to the Lean driver; and a property-specific oracle
//! (independent of the Lean model) inspects what the real code returned.
use crate::ctx::Ctx;
use crate::rng::Rng;
use crate::search::*;
use routee_compass_core::algorithm::search::edge_traversal::EdgeTraversal;
use routee_compass_core::algorithm::search::search_algorithm_result::SearchAlgorithmResult;
use routee_compass_core::model::network::edge_id::EdgeId;
use routee_compass_core::model::unit::as_f64::AsF64;
use routee_compass_core::model::unit::*;
use std::collections::{HashMap, HashSet, VecDeque};

#[derive(Clone, Copy, PartialEq, Eq, Debug)]
pub enum Prop {
    C01,
    C02,
    C03,
    C04,
    C05,
    C10,
}

fn tag(p: Prop) -> u64 {
    match p {
        Prop::C01 => 1,
        Prop::C02 => 2,
        Prop::C03 => 3,
        Prop::C04 => 4,
        Prop::C05 => 5,
        Prop::C10 => 10,
    }
}

pub fn close(a: f64, b: f64, rel: f64, abs: f64) -> bool {
    (a - b).abs() <= rel * a.abs().max(b.abs()) + abs
}

/// search-direction tail / head of an edge
fn tail(c: &SCase, e: usize) -> usize {
    if c.reverse {
        c.edges[e].1
    } else {
        c.edges[e].0
    }
}
fn head(c: &SCase, e: usize) -> usize {
    if c.reverse {
        c.edges[e].0
    } else {
        c.edges[e].1
    }
}

/// is edge `e` permitted by the edge-local restriction models, judged by the real frontier model
/// with no previous edge (turn restrictions are pair-dependent and never fire without one)
pub fn permitted(c: &SCase, b: &Built, e: usize) -> bool {
    let edge = b.graph.get_edge(&EdgeId(e)).unwrap();
    let st = b.si.state_model.initial_state().unwrap();
    let _ = c;
    b.si.frontier_model.valid_frontier(edge, &st, None, &b.si.state_model).unwrap_or(false)
}

fn has_turn_restriction(c: &SCase) -> bool {
    c.frontier.iter().any(|f| matches!(f, Fr::TurnRestriction(_)))
}

fn inner_source_of(c: &SCase) -> usize {
    inner_source(c)
}

/// inner (vertex-level) source / target of a case
fn inner_source(c: &SCase) -> usize {
    if c.edge_oriented {
        c.edges[c.source].1
    } else {
        c.source
    }
}

fn adjacency(c: &SCase) -> Vec<Vec<usize>> {
    let mut adj = vec![vec![]; c.coords.len()];
    for e in 0..c.edges.len() {
        adj[tail(c, e)].push(e);
    }
    adj
}

pub fn reachable(c: &SCase, b: &Built, from: usize) -> Vec<bool> {
    let adj = adjacency(c);
    let ok: Vec<bool> = (0..c.edges.len()).map(|e| permitted(c, b, e)).collect();
    let mut seen = vec![false; c.coords.len()];
    let mut q = VecDeque::new();
    seen[from] = true;
    q.push_back(from);
    while let Some(v) = q.pop_front() {
        for &e in &adj[v] {
            if ok[e] && !seen[head(c, e)] {
                seen[head(c, e)] = true;
                q.push_back(head(c, e));
            }
        }
    }
    seen
}

// ---------------------------------------------------------------------------------------------
// C01

pub fn oracle_c01(ctx: &mut Ctx, idx: usize, c: &SCase, r: &SearchAlgorithmResult) {
    let distinct = c.target.map_or(true, |t| t != c.source);
    if !distinct {
        return;
    }
    for route in &r.routes {
        let ids: Vec<usize> = route.iter().map(|e| e.edge_id.0).collect();
        if ids.iter().any(|e| *e >= c.edges.len()) {
            ctx.fail(idx, "route/unknown-edge", format!("route {:?}", ids));
            continue;
        }
        let mut seen = HashSet::new();
        if ids.iter().any(|e| !seen.insert(*e)) {
            ctx.fail(idx, "route/edge-twice", format!("route {:?}", ids));
        }
        if ids.is_empty() {
            ctx.fail(idx, "route/empty", "distinct origin and destination but empty route".into());
            continue;
        }
        if c.edge_oriented {
            let t = c.target.unwrap();
            if ids[0] != c.source {
                ctx.fail(idx, "route/origin-edge-missing", format!("origin edge {} route {:?}", c.source, ids));
            }
            if *ids.last().unwrap() != t {
                ctx.fail(idx, "route/destination-edge-missing", format!("destination edge {} route {:?}", t, ids));
            }
        } else {
            if tail(c, ids[0]) != c.source {
                ctx.fail(idx, "route/does-not-leave-origin", format!("origin {} route {:?}", c.source, ids));
            }
            if head(c, *ids.last().unwrap()) != c.target.unwrap() {
                ctx.fail(idx, "route/does-not-reach-destination", format!("destination {:?} route {:?}", c.target, ids));
            }
        }
        for w in ids.windows(2) {
            if head(c, w[0]) != tail(c, w[1]) {
                ctx.fail(idx, "route/not-contiguous", format!("edges {} then {} in route {:?}", w[0], w[1], ids));
            }
        }
    }
    let root = inner_source(c);
    for t in &r.trees {
        // edge-oriented: the search origin is the origin EDGE; an entry at its head must be that edge's own entry —
        // any other entry there has a parent, and following parents from it cannot end at the origin
        if c.edge_oriented {
            if let Some(b0) = t.get(&routee_compass_core::model::network::vertex_id::VertexId(root)) {
                let e0 = b0.edge_traversal.edge_id.0;
                if e0 != c.source {
                    ctx.fail(
                        idx,
                        "tree/not-rooted",
                        format!("the entry at the head {} of the origin edge {} records edge {} with parent {}: following parents from it does not end at the search origin", root, c.source, e0, b0.terminal_vertex.0),
                    );
                }
            }
        }
        for (k, br) in t.iter() {
            let e = br.edge_traversal.edge_id.0;
            if e >= c.edges.len() {
                ctx.fail(idx, "tree/unknown-edge", format!("vertex {} edge {}", k.0, e));
                continue;
            }
            // the origin-edge entry the edge-oriented wrapper adds at the inner source
            let origin_entry = c.edge_oriented && k.0 == root && e == c.source;
            if origin_entry {
                if c.edges[e].0 != br.terminal_vertex.0 || c.edges[e].1 != k.0 {
                    ctx.fail(idx, "tree/entry-edge-does-not-join", format!("origin entry at {} edge {}", k.0, e));
                }
                continue;
            }
            if tail(c, e) != br.terminal_vertex.0 || head(c, e) != k.0 {
                ctx.fail(
                    idx,
                    "tree/entry-edge-does-not-join",
                    format!("entry {} parent {} edge {} ({}->{})", k.0, br.terminal_vertex.0, e, c.edges[e].0, c.edges[e].1),
                );
            }
            // follow parents to the root
            let mut v = k.0;
            let mut seen = HashSet::new();
            let mut ok = false;
            for _ in 0..=t.len() {
                if v == root {
                    ok = true;
                    break;
                }
                if !seen.insert(v) {
                    break;
                }
                match t.get(&routee_compass_core::model::network::vertex_id::VertexId(v)) {
                    None => break,
                    Some(b2) => {
                        if c.edge_oriented && v == root {
                            ok = true;
                            break;
                        }
                        v = b2.terminal_vertex.0
                    }
                }
            }
            if !ok {
                ctx.fail(idx, "tree/not-rooted", format!("following parents from {} does not reach the origin {}", k.0, root));
            }
        }
    }
}

// ---------------------------------------------------------------------------------------------
// C02: least cost (Bellman–Ford over per-edge costs obtained from the real models edge by edge)

fn edge_cost_alone(c: &SCase, b: &Built, e: usize) -> Option<f64> {
    let init = b.si.state_model.initial_state().ok()?;
    let et = if c.reverse {
        EdgeTraversal::reverse_traversal(EdgeId(e), None, &init, &b.si)
    } else {
        EdgeTraversal::forward_traversal(EdgeId(e), None, &init, &b.si)
    }
    .ok()?;
    Some(et.total_cost().as_f64())
}

pub fn bellman_ford(c: &SCase, b: &Built, from: usize) -> Option<Vec<f64>> {
    let n = c.coords.len();
    let mut cost = vec![];
    for e in 0..c.edges.len() {
        cost.push(if permitted(c, b, e) { Some(edge_cost_alone(c, b, e)?) } else { None });
    }
    let mut dist = vec![f64::INFINITY; n];
    dist[from] = 0.0;
    for _ in 0..n {
        let mut changed = false;
        for e in 0..c.edges.len() {
            if let Some(ce) = cost[e] {
                let (u, v) = (tail(c, e), head(c, e));
                if dist[u] + ce < dist[v] {
                    dist[v] = dist[u] + ce;
                    changed = true;
                }
            }
        }
        if !changed {
            break;
        }
    }
    Some(dist)
}

pub fn admissible_setting(c: &SCase, style: LenStyle) -> bool {
    match effective_wf(c) {
        Some(w) if w == 0.0 => true,
        Some(w) => w <= 1.0 && style == LenStyle::Metric,
        None => style == LenStyle::Metric,
    }
}

/// the reported cost of every route edge is the cost under the objective in force for the query:
/// weights, vehicle rates and aggregation as the harness derived them independently from the query
/// (when it overrides them) or else from the configuration — sum aggregation only
fn oracle_c02_objective(ctx: &mut Ctx, idx: usize, c: &SCase, b: &Built, r: &SearchAlgorithmResult) {
    if c.agg_mul {
        return;
    }
    let init: Vec<f64> = match b.si.state_model.initial_state() {
        Ok(s) => s.iter().map(|x| x.0).collect(),
        Err(_) => return,
    };
    for route in &r.routes {
        let (lo, hi) = if c.edge_oriented && route.len() >= 2 && !(c.target.is_some() && c.edges[c.source].1 == c.edges[c.target.unwrap()].0) {
            (1, if c.target.is_some() { route.len() - 1 } else { route.len() })
        } else {
            (0, route.len())
        };
        let mut prev = init.clone();
        for et in &route[lo..hi] {
            let st: Vec<f64> = et.result_state.iter().map(|x| x.0).collect();
            if st.len() != prev.len() {
                break;
            }
            let e = et.edge_id.0;
            let mut sum = 0.0;
            let mut mag = 0.0;
            for i in 0..prev.len() {
                let v = map_rate(&b.cost_vrates[i], st[i] - prev[i]) * b.cost_weights[i];
                let n = net_rate(&b.cost_nrates[i], e) * b.cost_weights[i];
                sum += v + n;
                mag += v.abs() + n.abs();
            }
            let total = et.total_cost().as_f64();
            if sum > 1e-9 * mag + 1e-9 && !close(total, sum, 1e-9, 1e-9 * mag + 1e-12) {
                ctx.fail(idx, "cost/not-under-query-objective", format!("edge {}: charged {} but the weights and rates in force give {}", e, total, sum));
            }
            prev = st;
        }
    }
}

fn oracle_c02(ctx: &mut Ctx, idx: usize, c: &SCase, b: &Built, r: &SearchAlgorithmResult, style: LenStyle) {
    oracle_c02_objective(ctx, idx, c, b, r);
    let src = inner_source(c);
    let Some(dist) = bellman_ford(c, b, src) else { return };
    if !admissible_setting(c, style) {
        return;
    }
    if let Some(t) = inner_target(c) {
        if t == src {
            return;
        }
        for route in &r.routes {
            let inner: Vec<&EdgeTraversal> = if c.edge_oriented && route.len() >= 2 {
                route[1..route.len() - 1].iter().collect()
            } else {
                route.iter().collect()
            };
            let total: f64 = inner.iter().map(|e| e.total_cost().as_f64()).sum();
            if !close(total, dist[t], 1e-9, 1e-9) {
                ctx.fail(
                    idx,
                    "route/not-least-cost",
                    format!("route cost {} but least cost {} (wf {:?}, edges {:?})", total, dist[t], effective_wf(c), inner.iter().map(|e| e.edge_id.0).collect::<Vec<_>>()),
                );
            }
        }
    } else if let Some(tree) = r.trees.first() {
        // destination-less: every tree vertex labelled with its least cost (label = summed cost to the root)
        for (k, _) in tree.iter() {
            if c.edge_oriented && k.0 == src {
                continue;
            }
            let mut v = k.0;
            let mut total = 0.0;
            let mut steps = 0;
            while v != src && steps <= tree.len() {
                match tree.get(&routee_compass_core::model::network::vertex_id::VertexId(v)) {
                    None => break,
                    Some(br) => {
                        total += br.edge_traversal.total_cost().as_f64();
                        v = br.terminal_vertex.0;
                    }
                }
                steps += 1;
            }
            if v == src && !close(total, dist[k.0], 1e-9, 1e-9) {
                ctx.fail(idx, "tree/label-not-least-cost", format!("vertex {} tree cost {} least {}", k.0, total, dist[k.0]));
            }
        }
    }
}

// ---------------------------------------------------------------------------------------------
// C03: accumulation along the route

fn turn_class(angle: i32) -> Option<usize> {
    // independent copy of the classification table (no_turn 0, slight_right 1, slight_left 2, right 3,
    // left 4, sharp_right 5, sharp_left 6, u_turn 7)
    match angle {
        -180..=-160 => Some(7),
        -159..=-135 => Some(6),
        -134..=-45 => Some(4),
        -44..=-20 => Some(2),
        -19..=19 => Some(0),
        20..=44 => Some(1),
        45..=134 => Some(3),
        135..=159 => Some(5),
        160..=180 => Some(7),
        _ => None,
    }
}

fn bearing(src: (i16, Option<i16>), dst: (i16, Option<i16>)) -> i32 {
    let end = src.1.unwrap_or(src.0) as i32;
    let a = dst.0 as i32 - end;
    if a > 180 {
        a - 360
    } else if a < -180 {
        a + 360
    } else {
        a
    }
}

fn feat_index(b: &Built, name: &str) -> Option<usize> {
    b.si.state_model.indexed_iter().find(|(_, (n, _))| n.as_str() == name).map(|(i, _)| i)
}

pub fn oracle_c03(ctx: &mut Ctx, idx: usize, c: &SCase, b: &Built, r: &SearchAlgorithmResult, reopened: bool) {
    // a search that re-opened a vertex (possible only with a heuristic that is inconsistent for the
    // network, never for Dijkstra) can leave a child's entry computed from its parent's earlier
    // label: every accumulation failure of such a run is attributed to that one recorded finding
    let n0 = ctx.oracle_len();
    oracle_c03_inner(ctx, idx, c, b, r);
    if reopened && effective_wf(c) != Some(0.0) {
        ctx.rekey_since(n0, "route/stale-link-after-reopening");
    }
}

pub fn oracle_c03_inner(ctx: &mut Ctx, idx: usize, c: &SCase, b: &Built, r: &SearchAlgorithmResult) {
    let init: Vec<f64> = match b.si.state_model.initial_state() {
        Ok(s) => s.iter().map(|x| x.0).collect(),
        Err(_) => return,
    };
    let di = feat_index(b, "distance");
    let ti = feat_index(b, "time");
    let fdu = c.feats.iter().find_map(|(n, k, _)| if n == "distance" { if let FeatK::D(u) = k { Some(*u) } else { None } } else { None });
    let ftu = c.feats.iter().find_map(|(n, k, _)| if n == "time" { if let FeatK::T(u) = k { Some(*u) } else { None } } else { None });
    for route in &r.routes {
        if route.is_empty() {
            continue;
        }
        // the edges over which the accumulation runs
        let (lo, hi) = if c.edge_oriented && route.len() >= 2 && !(c.target.is_some() && c.edges[c.source].1 == c.edges[c.target.unwrap()].0) {
            // origin and destination edges are reported with zero cost and unchanged state
            let first = &route[0];
            if first.total_cost().as_f64() != 0.0 || first.result_state.iter().map(|x| x.0).collect::<Vec<_>>() != init {
                ctx.fail(idx, "route/origin-edge-not-neutral", format!("origin edge reported cost {} state {:?}", first.total_cost(), first.result_state));
            }
            if c.target.is_some() {
                let last = &route[route.len() - 1];
                let before = &route[route.len() - 2];
                if last.total_cost().as_f64() != 0.0 || last.result_state != before.result_state {
                    ctx.fail(idx, "route/destination-edge-not-neutral", format!("destination edge reported cost {}", last.total_cost()));
                }
                (1, route.len() - 1)
            } else {
                (1, route.len())
            }
        } else {
            (0, route.len())
        };
        let mut exp_d = di.map(|i| init[i]);
        let mut exp_t = ti.map(|i| init[i]);
        let mut prev_state = init.clone();
        let mut prev_edge: Option<usize> = None;
        for et in &route[lo..hi] {
            let e = et.edge_id.0;
            let st: Vec<f64> = et.result_state.iter().map(|x| x.0).collect();
            if st.len() != init.len() {
                ctx.fail(idx, "state/wrong-length", format!("edge {} state {:?}", e, st));
                break;
            }
            let len_m = c.edges[e].2;
            // per-edge contributions computed with the real unit functions, independently of the search
            let (d_add, t_add): (Option<f64>, Option<f64>) = match &c.trav {
                Trav::Dist(du) => {
                    let d = DistanceUnit::Meters.convert(&Distance::new(len_m), du);
                    (fdu.map(|f| du.convert(&d, &f).as_f64()), None)
                }
                Trav::Speed { su, du, tu, table } => {
                    let d = DistanceUnit::Meters.convert(&Distance::new(len_m), du);
                    let t = Time::create(&Speed::new(table[e]), su, &d, du, tu).ok();
                    (fdu.map(|f| du.convert(&d, &f).as_f64()), t.and_then(|t| ftu.map(|f| tu.convert(&t, &f).as_f64())))
                }
            };
            let mut delay_add = 0.0;
            if let (Acc::Turn { tu, headings, delays }, Some(p)) = (&c.access, prev_edge) {
                // travel order of the pair: forward (prev, e); reverse search lists edges against travel
                let (a, bb) = if c.reverse { (e, p) } else { (p, e) };
                if let Some(cl) = turn_class(bearing(headings[a], headings[bb])) {
                    if let (Some(dl), Some(f)) = (delays[cl], ftu) {
                        delay_add = tu.convert(&Time::new(dl), &f).as_f64();
                    }
                }
            }
            if let (Some(i), Some(x), Some(add)) = (di, exp_d, d_add) {
                let nx = x + add;
                if !close(st[i], nx, 1e-9, 1e-12) {
                    ctx.fail(idx, "state/distance-not-sum", format!("edge {}: distance {} expected {} (+{})", e, st[i], nx, add));
                }
                exp_d = Some(st[i]);
                if st[i] < prev_state[i] {
                    ctx.fail(idx, "state/distance-decreases", format!("edge {}: {} after {}", e, st[i], prev_state[i]));
                }
            }
            if let (Some(i), Some(x)) = (ti, exp_t) {
                if matches!(c.trav, Trav::Speed { .. }) || matches!(c.access, Acc::Turn { .. }) {
                    let nx = x + t_add.unwrap_or(0.0) + delay_add;
                    if !close(st[i], nx, 1e-9, 1e-12) {
                        ctx.fail(
                            idx,
                            "state/time-not-sum",
                            format!("edge {} after {:?}: time {} expected {} (+{} traversal, +{} turn delay)", e, prev_edge, st[i], nx, t_add.unwrap_or(0.0), delay_add),
                        );
                    }
                    exp_t = Some(st[i]);
                    if st[i] < prev_state[i] {
                        ctx.fail(idx, "state/time-decreases", format!("edge {}: {} after {}", e, st[i], prev_state[i]));
                    }
                }
            }
            // reported cost = weighted rated change of state (+ surcharges), sum aggregation
            if !c.agg_mul {
                let mut sum = 0.0;
                let mut mag = 0.0;
                for i in 0..init.len() {
                    let delta = st[i] - prev_state[i];
                    let v = map_rate(&b.cost_vrates[i], delta) * b.cost_weights[i];
                    let n = net_rate(&b.cost_nrates[i], e) * b.cost_weights[i];
                    sum += v + n;
                    mag += v.abs() + n.abs();
                }
                let total = et.total_cost().as_f64();
                if sum > 1e-9 * mag + 1e-9 {
                    if !close(total, sum, 1e-9, 1e-9 * mag + 1e-12) {
                        ctx.fail(idx, "cost/not-weighted-state-change", format!("edge {}: reported {} expected {}", e, total, sum));
                    }
                } else if sum < -(1e-9 * mag + 1e-9) && !(total > 0.0 && total <= 1e-9) {
                    ctx.fail(idx, "cost/floor-missing", format!("edge {}: reported {} for non-positive sum {}", e, total, sum));
                }
            } else if matches!(c.access, Acc::None) && !init.is_empty() {
                // product aggregation (no access step on the edge): the vehicle share is the product over
                // EVERY feature of weight x rate(change of state), the network share the product of the
                // weighted per-edge rates; their sum, floored, is the edge's cost
                let mut pv = 1.0;
                let mut pn = 1.0;
                for i in 0..init.len() {
                    let delta = st[i] - prev_state[i];
                    pv *= map_rate(&b.cost_vrates[i], delta) * b.cost_weights[i];
                    pn *= net_rate(&b.cost_nrates[i], e) * b.cost_weights[i];
                }
                let sum: f64 = pv + pn;
                let mag = pv.abs() + pn.abs();
                let total = et.total_cost().as_f64();
                if sum.is_finite() && sum > 1e-9 * mag + 1e-9 {
                    if !close(total, sum, 1e-9, 1e-9 * mag + 1e-12) {
                        ctx.fail(idx, "cost/not-weighted-state-change", format!("edge {} (product aggregation): reported {} expected {} = {} + {}", e, total, sum, pv, pn));
                    }
                } else if sum < -(1e-9 * mag + 1e-9) && !(total > 0.0 && total <= 1e-9) {
                    ctx.fail(idx, "cost/floor-missing", format!("edge {} (product aggregation): reported {} for non-positive total {}", e, total, sum));
                }
            }
            prev_state = st;
            prev_edge = Some(e);
        }
        // physical cross-check of the totals against hand-written SI factors (0.3 % tolerance): a
        // conversion that is off by more than the property's 0.1 % in any unit the route is reported in
        // shows up here even though model and code would still agree with each other
        let inner = &route[lo..hi];
        if let (Some(i), Some(f), Some(last)) = (di, fdu, inner.last()) {
            let total_m: f64 = inner.iter().map(|et| c.edges[et.edge_id.0].2).sum();
            let expect = init[i] + total_m / si_d(&f);
            let got = last.result_state[i].0;
            if !close(got, expect, 3e-3, 1e-9) {
                ctx.fail(idx, "state/distance-not-physical", format!("route distance {} {} but the edge lengths sum to {} m = {} {}", got, f, total_m, expect, f));
            }
        }
        if let (Some(i), Some(f), Some(last), Trav::Speed { su, table, .. }) = (ti, ftu, inner.last(), &c.trav) {
            if matches!(c.access, Acc::None) {
                let si_speed = |u: &SpeedUnit| match u {
                    SpeedUnit::KilometersPerHour => 1000.0 / 3600.0,
                    SpeedUnit::MilesPerHour => 1609.344 / 3600.0,
                    SpeedUnit::MetersPerSecond => 1.0,
                };
                let si_time = |u: &TimeUnit| match u {
                    TimeUnit::Hours => 3600.0,
                    TimeUnit::Minutes => 60.0,
                    TimeUnit::Seconds => 1.0,
                    TimeUnit::Milliseconds => 0.001,
                };
                let secs: f64 = inner.iter().map(|et| c.edges[et.edge_id.0].2 / (table[et.edge_id.0] * si_speed(su))).sum();
                let expect = init[i] + secs / si_time(&f);
                let got = last.result_state[i].0;
                if !close(got, expect, 3e-3, 1e-9) {
                    ctx.fail(idx, "state/time-not-physical", format!("route time {} {} but length/speed sums to {} s = {} {}", got, f, secs, expect, f));
                }
            }
        }
    }
}

fn map_rate(v: &VR, x: f64) -> f64 {
    match v {
        VR::Zero => 0.0,
        VR::Raw => x,
        VR::Factor(f) => x * f,
        VR::Offset(o) => x + o,
        VR::Combined(vs) => vs.iter().fold(x, |acc, r| map_rate(r, acc)),
    }
}

fn net_rate(v: &NR, e: usize) -> f64 {
    match v {
        NR::Zero => 0.0,
        NR::Edge(t) => t.iter().find(|(k, _)| *k == e).map(|(_, c)| *c).unwrap_or(0.0),
        NR::EdgeEdge(_) => 0.0,
        NR::Combined(vs) => vs.iter().map(|r| net_rate(r, e)).sum(),
    }
}

// ---------------------------------------------------------------------------------------------
// C04: forbidden edges / turns, judged from the raw restriction inputs

/// Some(true) clearly allowed, Some(false) clearly forbidden, None within 0.3 % of the limit
fn restriction_verdict(r: &Restr, p: &VParams) -> Option<bool> {
    let (v, lim) = match r {
        Restr::Weight { per_axle, limit, unit } => {
            let w = p.total_weight.0 * si_w(&p.total_weight.1);
            (if *per_axle { w / p.axles as f64 } else { w }, limit * si_w(unit))
        }
        Restr::Length { which, limit, unit } => {
            let dim = match which {
                2 => p.total_length,
                3 => p.width,
                4 => p.height,
                _ => p.trailer_length,
            };
            (dim.0 * si_d(&dim.1), limit * si_d(unit))
        }
    };
    if v <= lim * (1.0 - 3e-3) {
        Some(true)
    } else if v > lim * (1.0 + 3e-3) {
        Some(false)
    } else {
        None
    }
}

fn edge_forbidden(c: &SCase, e: usize) -> Option<String> {
    for f in &c.frontier {
        match f {
            Fr::RoadClass { allowed: Some(a), table, .. } => {
                if !a.contains(&table[e]) {
                    return Some(format!("road class {} not in {:?}", table[e], a));
                }
            }
            Fr::EdgeCut(es) => {
                if es.contains(&e) {
                    return Some("edge is cut".into());
                }
            }
            Fr::Vehicle { rows, params } => {
                if let Some((_, rs)) = rows.iter().find(|(k, _)| *k == e) {
                    for r in rs {
                        if restriction_verdict(r, params) == Some(false) {
                            return Some(format!("vehicle exceeds {:?}", r));
                        }
                    }
                }
            }
            _ => {}
        }
    }
    None
}

pub fn oracle_c04(ctx: &mut Ctx, idx: usize, c: &SCase, r: &SearchAlgorithmResult, reopened: bool) {
    let n0 = ctx.oracle_len();
    oracle_c04_inner(ctx, idx, c, r);
    if reopened && effective_wf(c) != Some(0.0) {
        ctx.rekey_matching_since(n0, "route/restricted-turn", "route/restricted-turn-after-reopening");
    }
}

fn oracle_c04_inner(ctx: &mut Ctx, idx: usize, c: &SCase, r: &SearchAlgorithmResult) {
    // Edge-oriented queries: the origin / destination edges are given by the query, not chosen by the
    // search; `run_edge_oriented` attaches them without consulting the frontier model.  They are judged
    // under keys of their own (recorded findings, by design of the wrapper), by POSITION — the first and
    // the last element of a route, the wrapper's own tree entries — so that an inner element carrying a
    // forbidden edge is still reported under the ordinary keys.
    let eo_target = if c.edge_oriented { c.target } else { None };
    let adjacent = match eo_target {
        Some(t) => c.edge_oriented && t != c.source && c.edges[c.source].1 == c.edges[t].0,
        None => false,
    };
    for t in &r.trees {
        for (k, br) in t.iter() {
            let e = br.edge_traversal.edge_id.0;
            // the entries the wrapper itself writes: the origin edge under its head (destination-less
            // and adjacent arm), the destination edge under its head (adjacent arm)
            let wrapper_entry = c.edge_oriented
                && ((e == c.source && k.0 == c.edges[c.source].1 && (c.target.is_none() || adjacent))
                    || (adjacent && Some(e) == eo_target && k.0 == c.edges[e].1));
            if let Some(why) = edge_forbidden(c, e) {
                if wrapper_entry {
                    ctx.fail(idx, "tree/forbidden-endpoint-edge-edge-oriented", format!("tree entry {} carries the query's origin/destination edge {}: {}", k.0, e, why));
                } else {
                    ctx.fail(idx, "tree/forbidden-edge", format!("tree entry {} uses edge {}: {}", k.0, e, why));
                }
            }
        }
    }
    for route in &r.routes {
        let ids: Vec<usize> = route.iter().map(|e| e.edge_id.0).collect();
        let n = ids.len();
        // positions of the wrapper's elements: first and last of an edge-oriented route with a destination
        let is_endpoint = |i: usize| eo_target.is_some() && n >= 2 && (i == 0 || i + 1 == n);
        for (i, e) in ids.iter().enumerate() {
            if let Some(why) = edge_forbidden(c, *e) {
                if is_endpoint(i) {
                    ctx.fail(idx, "route/forbidden-endpoint-edge-edge-oriented", format!("route {:?} {} with the query's edge {}: {}", ids, if i == 0 { "starts" } else { "ends" }, e, why));
                } else {
                    ctx.fail(idx, "route/forbidden-edge", format!("route {:?} uses edge {}: {}", ids, e, why));
                }
            }
        }
        for f in &c.frontier {
            if let Fr::TurnRestriction(pairs) = f {
                for (i, w) in ids.windows(2).enumerate() {
                    if is_endpoint(i) || is_endpoint(i + 1) {
                        // the seams between the origin / destination edge and the inner route are
                        // never submitted to the frontier model by the edge-oriented wrapper
                        if pairs.contains(&(w[0], w[1])) {
                            ctx.fail(idx, "route/restricted-turn-at-edge-oriented-seam", format!("route {:?} takes restricted turn ({},{}) at the origin/destination edge", ids, w[0], w[1]));
                        }
                        continue;
                    }
                    // what the search submits: (previous edge, edge) in SEARCH order — accepted pairs
                    // are never listed (Dijkstra; A* unless a vertex was re-opened)
                    if pairs.contains(&(w[0], w[1])) {
                        ctx.fail(idx, "route/restricted-turn", format!("route {:?} ({}) takes the listed pair ({},{}) in search order (wf {:?})", ids, if c.reverse { "reverse search" } else { "forward search" }, w[0], w[1], effective_wf(c)));
                    }
                    // a reverse route read in travel order: the restrictions are listed in travel order,
                    // the reverse search shows the frontier model (later edge, earlier edge)
                    if c.reverse && pairs.contains(&(w[1], w[0])) {
                        ctx.fail(idx, "route/restricted-turn-reverse-search", format!("reverse route {:?} (search order) travels the restricted turn ({},{}) (wf {:?})", ids, w[1], w[0], effective_wf(c)));
                    }
                }
            }
        }
    }
}

// ---------------------------------------------------------------------------------------------
// C05: no-path exactly when unreachable

fn oracle_c05(ctx: &mut Ctx, idx: usize, c: &SCase, b: &Built, o: &Outcome) {
    if has_turn_restriction(c) {
        return; // the property is about edge-local restrictions
    }
    if c.target == Some(c.source) {
        return; // the property is about distinct origin and destination
    }
    let src = inner_source(c);
    let reach = reachable(c, b, src);
    match (inner_target(c), o) {
        (Some(t), Outcome::Ok(r)) => {
            if t != src {
                if !reach[t] {
                    ctx.fail(idx, "search/route-to-unreachable", format!("destination {} is unreachable from {} but a result was returned", t, src));
                }
                if c.target != Some(c.source) && r.routes.iter().any(|rt| rt.is_empty()) {
                    ctx.fail(idx, "search/empty-route", "success with an empty route".into());
                }
                if r.routes.is_empty() && !(c.edge_oriented && c.target == Some(c.source)) {
                    ctx.fail(idx, "search/no-route-returned", "success without a route".into());
                }
            }
        }
        (Some(t), Outcome::Err(k)) if k == "nopath" => {
            if reach[t] && t != src {
                ctx.fail(idx, "search/nopath-but-reachable", format!("destination {} is reachable from {} but 'no path' was reported", t, src));
            }
        }
        (Some(t), Outcome::Err(k)) if k == "internal" => {
            // an internal error is never the answer to a query; for an unreachable destination the
            // answer is 'no path' (a failing model — access, traversal, limit — has its own kind)
            if t != src && !reach[t] {
                ctx.fail(idx, "search/unreachable-not-nopath", format!("destination {} is unreachable from {} but the search ended in an internal error instead of 'no path'", t, src));
            } else {
                ctx.fail(idx, "search/internal-error", format!("search {} -> {} ended in an internal error", src, t));
            }
        }
        (None, Outcome::Ok(r)) => {
            if let Some(tree) = r.trees.first() {
                for v in 0..c.coords.len() {
                    let in_tree = tree.contains_key(&routee_compass_core::model::network::vertex_id::VertexId(v));
                    if v == src {
                        if in_tree && !c.edge_oriented {
                            ctx.fail(idx, "tree/contains-origin", format!("origin {} has a tree entry", v));
                        }
                        continue;
                    }
                    if in_tree && !reach[v] {
                        ctx.fail(idx, "tree/unreachable-vertex", format!("vertex {} in tree but unreachable", v));
                    }
                    if !in_tree && reach[v] {
                        ctx.fail(idx, "tree/missing-reachable-vertex", format!("vertex {} reachable but not in tree", v));
                    }
                }
            }
        }
        _ => {}
    }
}

// ---------------------------------------------------------------------------------------------
// C10: limits

pub fn limits(t: &Term, out: &mut Vec<Term>) {
    match t {
        Term::Combined(ms) => ms.iter().for_each(|m| limits(m, out)),
        other => out.push(other.clone()),
    }
}

fn oracle_c10(ctx: &mut Ctx, idx: usize, c: &SCase, b: &Built, ex: &Exec) {
    let mut ls = vec![];
    limits(&c.term, &mut ls);
    if ls.is_empty() {
        return;
    }
    if c.target == Some(c.source) || ex.scheds.is_empty() {
        return; // no search loop ran (identical or adjacent origin and destination)
    }
    let max_deg = adjacency(c).iter().map(|a| a.len()).max().unwrap_or(0);
    // iterations / tree size of the (single) underlying search
    let expansions = ex.scheds.first().map(|s| s.len()).unwrap_or(0);
    match &ex.outcome {
        Outcome::Ok(r) => {
            let size = r.trees.first().map(|t| t.len()).unwrap_or(0);
            let extra = if c.edge_oriented { 1 } else { 0 };
            for l in &ls {
                match l {
                    Term::Iters(lim) => {
                        if expansions as u64 > *lim {
                            ctx.fail(idx, "limit/iterations-exceeded", format!("{} expansions under limit {}", expansions, lim));
                        }
                    }
                    Term::Size(lim) => {
                        if size > lim + max_deg + extra {
                            ctx.fail(idx, "limit/size-exceeded", format!("tree size {} under limit {} (max degree {})", size, lim, max_deg));
                        }
                    }
                    Term::Runtime { limit_ns, freq, base_ns, per_ns } => {
                        // every scheduled check that ran must have been within budget
                        if *freq > 0 {
                            let mut it = 0u64;
                            while it <= expansions as u64 {
                                if base_ns + per_ns * it > *limit_ns {
                                    ctx.fail(idx, "limit/runtime-ignored", format!("check at iteration {} was over budget but the search returned after {} expansions", it, expansions));
                                    break;
                                }
                                it += freq;
                            }
                        }
                    }
                    _ => {}
                }
            }
            // identical to the unlimited result
            let mut c2 = c.clone();
            c2.term = Term::Combined(vec![]);
            if let Ok(b2) = build(&c2) {
                let ex2 = exec(&c2, &b2);
                if outcome_line(&ex2.outcome) != outcome_line(&ex.outcome) {
                    ctx.fail(idx, "limit/result-differs-from-unlimited", format!("limited: {} unlimited: {}", short(&outcome_line(&ex.outcome)), short(&outcome_line(&ex2.outcome))));
                }
            }
            let _ = b;
        }
        Outcome::Err(k) if k.starts_with("terminated") => {
            let named: Vec<&str> = k.trim_start_matches("terminated").trim().split(',').filter(|s| !s.is_empty()).collect();
            if named.is_empty() {
                ctx.fail(idx, "limit/terminated-without-explanation", k.clone());
            }
            for n in &named {
                let configured = ls.iter().any(|l| match (l, *n) {
                    (Term::Iters(_), "iterations") | (Term::Size(_), "size") | (Term::Runtime { .. }, "runtime") => true,
                    _ => false,
                });
                if !configured {
                    ctx.fail(idx, "limit/names-unconfigured-limit", k.clone());
                }
            }
            // success is monotone: the unlimited run must not be *less* successful, and a run under
            // doubled limits either succeeds or is terminated again
            for l in &ls {
                if let Term::Iters(lim) = l {
                    if expansions as u64 > *lim {
                        ctx.fail(idx, "limit/iterations-exceeded", format!("{} expansions before termination under limit {}", expansions, lim));
                    }
                }
            }
        }
        Outcome::Err(_) => {
            // a run that returns under a limit with anything but 'terminated' — "no path", a model's error —
            // must be the answer of the unlimited run: a stop must never be reported as something else
            let mut c2 = c.clone();
            c2.term = Term::Combined(vec![]);
            if let Ok(b2) = build(&c2) {
                let ex2 = exec(&c2, &b2);
                if outcome_line(&ex2.outcome) != outcome_line(&ex.outcome) {
                    ctx.fail(idx, "limit/result-differs-from-unlimited", format!("limited: {} unlimited: {}", short(&outcome_line(&ex.outcome)), short(&outcome_line(&ex2.outcome))));
                }
            }
        }
    }
}

/// every cost and state value of a result is a finite number
pub fn outcome_finite(o: &Outcome) -> bool {
    match o {
        Outcome::Err(_) => true,
        Outcome::Ok(r) => {
            let fin = |et: &EdgeTraversal| et.access_cost.as_f64().is_finite() && et.traversal_cost.as_f64().is_finite() && et.result_state.iter().all(|x| x.0.is_finite());
            r.routes.iter().all(|rt| rt.iter().all(|et| fin(et))) && r.trees.iter().all(|t| t.values().all(|b| fin(&b.edge_traversal)))
        }
    }
}

/// the numbers of a (hand-written) case are finite, lengths / speeds / delays non-negative
pub fn case_numbers_ordinary(c: &SCase) -> bool {
    let f = |x: f64| x.is_finite();
    c.edges.iter().all(|e| f(e.2) && e.2 >= 0.0 && e.2 < 1e300)
        && c.weights.iter().all(|w| f(w.1))
        && c.feats.iter().all(|x| f(x.2))
        && match &c.trav {
            Trav::Speed { table, .. } => table.iter().all(|s| f(*s) && *s >= 0.0),
            _ => true,
        }
        && match &c.access {
            Acc::Turn { delays, .. } => delays.iter().all(|d| d.map_or(true, |d| f(d) && d >= 0.0)),
            _ => true,
        }
}

pub fn short(s: &str) -> String {
    if s.len() > 300 {
        format!("{}…", &s[..300])
    } else {
        s.to_string()
    }
}

// ---------------------------------------------------------------------------------------------

fn corpus(p: Prop) -> Vec<(SCase, LenStyle)> {
    let base = |edges: Vec<(usize, usize, f64)>, n_v: usize| SCase {
        coords: (0..n_v).map(|i| (-105.0 + 0.01 * i as f32, 39.7)).collect(),
        edges,
        feats: vec![("distance".into(), FeatK::D(DistanceUnit::Meters), 0.0)],
        trav: Trav::Dist(DistanceUnit::Meters),
        access: Acc::None,
        weights: vec![("distance".into(), 1.0)],
        vrates: vec![("distance".into(), VR::Raw)],
        nrates: vec![],
        agg_mul: false,
        frontier: vec![],
        term: Term::Combined(vec![]),
        reverse: false,
        edge_oriented: false,
        source: 0,
        target: None,
        astar: None,
        query_wf: None,
        svc: None,
        term_via_builder: false,
        svc_unknown_weight: false,
        app: Default::default(),
    };
    let mut v = vec![];
    if p == Prop::C02 {
        // witness of the repaired single-precision haversine (/repo 0c20377): three nearby vertices, every
        // edge at least as long as the (double precision) great-circle distance between its ends; the
        // two-edge route over m costs 243.01572, the direct edge 243.20391: Dijkstra and an A* whose
        // estimate does not overshoot take the former
        let mut c = base(vec![(0, 2, 243.20391), (0, 1, 170.48180), (1, 2, 72.53392)], 3);
        c.coords = vec![(-104.99562, 39.719894), (-104.99761, 39.719963), (-104.99761, 39.720615)];
        c.target = Some(2);
        c.astar = Some(Some(1.0));
        v.push((c.clone(), LenStyle::Metric));
        c.astar = None;
        v.push((c, LenStyle::Metric));
    }
    match p {
        Prop::C01 | Prop::C03 => {
            // witness of the repaired edge-oriented defect: origin edge 0 (0->1), destination edge 1 (2->3),
            // the inner search labels vertex 3 before reaching 2
            let mut c = base(vec![(0, 1, 1.0), (2, 3, 1.0), (1, 3, 1.0), (3, 2, 5.0), (1, 2, 20.0)], 4);
            c.edge_oriented = true;
            c.source = 0;
            c.target = Some(1);
            v.push((c.clone(), LenStyle::TieHeavy));
            // route passing the origin edge's tail: origin 0 (0->1), inner route 1->0->2, destination 3 (2->3)
            let mut c2 = base(vec![(0, 1, 1.0), (1, 0, 1.0), (0, 2, 1.0), (2, 3, 1.0)], 4);
            c2.edge_oriented = true;
            c2.source = 0;
            c2.target = Some(3);
            v.push((c2, LenStyle::TieHeavy));
            // long chain in a non-exact unit pair (witness of the repaired accumulation drift)
            let n = 400;
            let mut c3 = base((0..n).map(|i| (i, i + 1, 1609.34)).collect(), n + 1);
            c3.feats = vec![("distance".into(), FeatK::D(DistanceUnit::Miles), 0.0)];
            c3.target = Some(n);
            v.push((c3, LenStyle::Generic));
            if p == Prop::C03 {
                v.push((stale_link_witness(false), LenStyle::Generic));
            }
        }
        Prop::C04 => {
            v.push((stale_link_witness(true), LenStyle::Generic));
            // edge-oriented seam: origin edge 0 (0->1), destination edge 2 (2->3), the only way is
            // 0,1,2 and the turn (0,1) is restricted
            let mut c = base(vec![(0, 1, 10.0), (1, 2, 10.0), (2, 3, 10.0)], 4);
            c.edge_oriented = true;
            c.source = 0;
            c.target = Some(2);
            c.frontier = vec![Fr::TurnRestriction(vec![(0, 1)])];
            v.push((c.clone(), LenStyle::Generic));
            // edge-oriented endpoint edges are never validated: origin edge 0 and destination edge 2 both
            // cut, the answer is still [0,1,2] (Lean C04.edge_oriented_endpoint_edges_counterexample (a))
            let mut c2 = c.clone();
            c2.frontier = vec![Fr::EdgeCut(vec![0, 2])];
            v.push((c2, LenStyle::Generic));
            // ... nor anything in the adjacent arm: destination edge 1 cut and the turn (0,1) restricted,
            // the query from edge 0 to edge 1 answers [0,1] (counterexample (b))
            let mut c3 = c.clone();
            c3.target = Some(1);
            c3.frontier = vec![Fr::EdgeCut(vec![1]), Fr::TurnRestriction(vec![(0, 1)])];
            v.push((c3, LenStyle::Generic));
            // destination-less: the origin edge's own tree entry carries the cut origin edge
            let mut c4 = c.clone();
            c4.target = None;
            c4.frontier = vec![Fr::EdgeCut(vec![0])];
            v.push((c4, LenStyle::Generic));
            // a reverse search shows the frontier model the pairs in search order: reverse Dijkstra from
            // vertex 2 back to vertex 0 with the turn (0,1) restricted returns [1,0] — travelled forward,
            // the listed turn (Lean C04.reverse_search_restricted_turn_counterexample)
            let mut c5 = c.clone();
            c5.edge_oriented = false;
            c5.reverse = true;
            c5.source = 2;
            c5.target = Some(0);
            c5.astar = None;
            v.push((c5, LenStyle::Generic));
            // no axles: weight per axle is +inf, the per-axle limit on edge 1 (however generous) refuses the
            // short way 0 -> 1 -> 2 -> 3 and the answer is the detour [0,3]; the total-weight limit on edge 2
            // alone would not
            let mut c6 = base(vec![(0, 1, 10.0), (1, 2, 10.0), (2, 3, 10.0), (1, 3, 100.0)], 4);
            c6.target = Some(3);
            c6.frontier = vec![Fr::Vehicle {
                rows: vec![(1, vec![Restr::Weight { per_axle: true, limit: 1.0e9, unit: WeightUnit::Kg }]), (2, vec![Restr::Weight { per_axle: false, limit: 1.0e9, unit: WeightUnit::Kg }])],
                params: VParams {
                    height: (1.0, DistanceUnit::Meters),
                    width: (1.0, DistanceUnit::Meters),
                    total_length: (1.0, DistanceUnit::Meters),
                    trailer_length: (1.0, DistanceUnit::Meters),
                    total_weight: (1000.0, WeightUnit::Kg),
                    axles: 0,
                },
            }];
            v.push((c6, LenStyle::Generic));
            // an EXACT cost tie at an expanded vertex (plain Dijkstra): the zero-length connector costs the
            // 1e-10 floor, which a label of 3,000,000 absorbs, so the junction is reached with the same cost
            // by the long edge and by the other long edge + connector.  Only a strictly better label may
            // replace the junction's tree entry: re-labelling it on the tie would leave the outgoing edge's
            // entry (written for the permitted turn) behind the connector, and the route would take the
            // restricted turn (connector, out).  Both numberings of the tied vertices (queue order).
            for (j, k) in [(1usize, 2usize), (2, 1)] {
                let mut t = base(vec![(0, j, 3_000_000.0), (0, k, 3_000_000.0), (k, j, 0.0), (j, 3, 1_000.0)], 4);
                t.coords = vec![(-105.0, 39.7); 4];
                t.target = Some(3);
                t.frontier = vec![Fr::TurnRestriction(vec![(2, 3)])];
                v.push((t, LenStyle::Generic));
            }
        }
        Prop::C10 => {
            let mut c = base(vec![(0, 1, 1.0), (1, 2, 1.0), (2, 3, 1.0)], 4);
            c.target = Some(3);
            c.term = Term::Iters(2);
            v.push((c.clone(), LenStyle::TieHeavy));
            c.term = Term::Iters(0);
            v.push((c.clone(), LenStyle::TieHeavy));
            c.term = Term::Size(1);
            v.push((c.clone(), LenStyle::TieHeavy));
            c.term = Term::Runtime { limit_ns: 1000, freq: 2, base_ns: 0, per_ns: 600 };
            v.push((c.clone(), LenStyle::TieHeavy));
        }
        Prop::C05 => {
            // a tentative cost of +inf (1e308 m at weight 10 overflows): `tentative < Cost::INFINITY` is
            // false, vertex 1 stays unlabelled and the answer is "no path" (destination-less: an empty
            // tree after one iteration) — correspondence only, the number is outside the quantifiers
            let mut o = base(vec![(0, 1, 1.0e308)], 2);
            o.weights = vec![("distance".into(), 10.0)];
            o.target = Some(1);
            v.push((o.clone(), LenStyle::Generic));
            o.target = None;
            v.push((o, LenStyle::Generic));
            // parallel edges 0 -> 1 of lengths NaN and 129.7: the NaN cost improves on nothing, the
            // route is the second edge
            let mut o2 = base(vec![(0, 1, f64::NAN), (0, 1, 129.7)], 2);
            o2.target = Some(1);
            v.push((o2, LenStyle::Generic));
            // a vertex the haversine function refuses (latitude and longitude swapped): 0 -> 1 -> 2 with
            // vertex 1 at (x = 39.7, y = -105).  `run_a_star` asks for the estimate of every vertex it
            // labels whatever the weight factor, so Dijkstra 0 -> 2 ends in a traversal error although
            // 2 is reachable; the destination-less search (no estimate) returns the tree; A* likewise fails
            let mut c = base(vec![(0, 1, 100.0), (1, 2, 100.0)], 3);
            c.coords[1] = (39.7, -105.0);
            c.target = Some(2);
            v.push((c.clone(), LenStyle::Generic));
            let mut c2 = c.clone();
            c2.target = None;
            v.push((c2, LenStyle::Generic));
            let mut c3 = c.clone();
            c3.astar = Some(Some(1.0));
            v.push((c3, LenStyle::Generic));
            // the destination itself out of range: the estimate of the origin already fails
            let mut c4 = c.clone();
            c4.coords[1] = (-104.99, 39.7);
            c4.coords[2] = (181.0, 0.0);
            v.push((c4, LenStyle::Generic));
            // a zero-length edge under the speed-table model: edges 0 -> 1 (100 m) and 0 -> 2 (0 m) at
            // 10 m/s; `Time::create` refuses the zero distance, the error leaves `run_a_star`, and the
            // query 0 -> 1 fails with a traversal error although 1 is reachable (C09 demands the
            // rejection by `create_time`; the search does not skip the edge)
            let mut z = base(vec![(0, 1, 100.0), (0, 2, 0.0)], 3);
            z.feats = vec![("distance".into(), FeatK::D(DistanceUnit::Meters), 0.0), ("time".into(), FeatK::T(TimeUnit::Seconds), 0.0)];
            z.trav = Trav::Speed { su: SpeedUnit::MetersPerSecond, du: DistanceUnit::Meters, tu: TimeUnit::Seconds, table: vec![10.0, 10.0] };
            z.weights = vec![("distance".into(), 1.0), ("time".into(), 1.0)];
            z.vrates = vec![("distance".into(), VR::Raw), ("time".into(), VR::Raw)];
            z.target = Some(1);
            v.push((z.clone(), LenStyle::Generic));
            // the same with a zero table speed on the second edge (50 m long)
            let mut z2 = z.clone();
            z2.edges[1].2 = 50.0;
            z2.trav = Trav::Speed { su: SpeedUnit::MetersPerSecond, du: DistanceUnit::Meters, tu: TimeUnit::Seconds, table: vec![10.0, 0.0] };
            v.push((z2, LenStyle::Generic));
            // the zero-length edge under the distance model is an edge like any other (its cost is
            // the positive floor of the cost model)
            let mut z3 = base(vec![(0, 1, 100.0), (0, 2, 0.0), (2, 1, 10.0)], 3);
            z3.target = Some(1);
            v.push((z3, LenStyle::Generic));
        }
        _ => {}
    }
    v
}

/// Witness of the recorded re-opening finding: vertices s=0, w=1, u=2, v=3, t=4 on one meridian,
/// edge lengths (100 m, 1000 m) far below the great-circle distances, so the A* estimate is
/// inconsistent for this network.  u is expanded first via the long edge s->u (v gets its entry from
/// that state), then re-labelled via the short detour s->w->u; on its second expansion the edge u->v
/// is not improved (a 2000 s right-turn delay / a restricted turn), so v keeps the entry computed from
/// u's earlier label, and the returned route s->w->u->v->t carries that stale state.
pub fn stale_link_witness(turn_restriction: bool) -> SCase {
    // metres north of t: s 7000, w 6000, u 5000, v 5200
    let lat = |m: f64| (39.0 + m / 111194.93) as f32;
    SCase {
        coords: vec![(-105.0, lat(7000.0)), (-105.0, lat(6000.0)), (-105.0, lat(5000.0)), (-105.0, lat(5200.0)), (-105.0, 39.0)],
        // 0: s->u (1000)  1: s->w (100)  2: w->u (100)  3: u->v (100)  4: v->t (100)
        edges: vec![(0, 2, 1000.0), (0, 1, 100.0), (1, 2, 100.0), (2, 3, 100.0), (3, 4, 100.0)],
        feats: vec![
            ("distance".into(), FeatK::D(DistanceUnit::Meters), 0.0),
            ("time".into(), FeatK::T(TimeUnit::Seconds), 0.0),
        ],
        trav: Trav::Dist(DistanceUnit::Meters),
        access: if turn_restriction {
            Acc::None
        } else {
            Acc::Turn {
                tu: TimeUnit::Seconds,
                // s->u and u->v head east (no turn between them), w->u heads north (right turn onto u->v)
                headings: vec![(90, Some(90)), (0, Some(0)), (0, Some(0)), (90, Some(90)), (90, Some(90))],
                delays: [Some(0.0), Some(0.0), Some(0.0), Some(2000.0), Some(0.0), Some(0.0), Some(0.0), Some(0.0)],
            }
        },
        weights: vec![("distance".into(), 1.0), ("time".into(), 1.0)],
        vrates: vec![("distance".into(), VR::Raw), ("time".into(), VR::Raw)],
        nrates: vec![],
        agg_mul: false,
        frontier: if turn_restriction { vec![Fr::TurnRestriction(vec![(2, 3)])] } else { vec![] },
        term: Term::Combined(vec![]),
        reverse: false,
        edge_oriented: false,
        source: 0,
        target: Some(4),
        astar: Some(Some(1.0)),
        query_wf: None,
        svc: None,
        term_via_builder: false,
        svc_unknown_weight: false,
        app: Default::default(),
    }
}

fn opts_for(p: Prop, rng: &mut Rng, quick: bool) -> GenOpts {
    let max_v = if quick { 9 } else { *rng.pick(&[9usize, 14, 30, 60, 150]) };
    let style = match rng.below(3) {
        0 => LenStyle::TieHeavy,
        1 => LenStyle::Generic,
        _ => LenStyle::Metric,
    };
    match p {
        Prop::C01 => GenOpts { max_v, len_style: style, ..Default::default() },
        Prop::C02 => GenOpts {
            max_v,
            len_style: if rng.chance(1, 2) { LenStyle::Metric } else { style },
            allow_access: false,
            allow_frontier: true,
            allow_term: false,
            allow_speed: true,
            state_indep_cost: true,
        },
        Prop::C03 => GenOpts { max_v, len_style: style, allow_frontier: false, allow_term: false, ..Default::default() },
        Prop::C04 => GenOpts { max_v, len_style: style, allow_term: false, ..Default::default() },
        Prop::C05 => GenOpts { max_v, len_style: style, allow_term: false, ..Default::default() },
        Prop::C10 => GenOpts { max_v, len_style: style, ..Default::default() },
    }
}

pub fn run(ctx: &mut Ctx, p: Prop) -> &'static str {
    let n = ctx.n(500, 60000);
    let mut items: Vec<(SCase, LenStyle)> = corpus(p);
    let n_corpus = items.len();
    for k in 0..n {
        // the generated stream is derived per index inside the loop below; placeholder entries here
        let _ = k;
    }
    let total = n_corpus + n;
    for k in 0..total {
        let Some(idx) = ctx.begin() else { continue };
        let mut shaped: Option<Shaped> = None;
        let (mut c, style) = if k < n_corpus {
            items[k].clone()
        } else {
            let mut rng = Rng::for_case(ctx.seed, tag(p), idx as u64);
            let opts = opts_for(p, &mut rng, ctx.quick());
            let style = opts.len_style;
            let mut c = gen_case(&mut rng, &opts);
            shape_for(p, &mut c, &mut rng);
            shape_app(&mut c, &mut rng);
            // one case in six goes where the generator above never does (a generator of its own, so
            // that the other five keep their choices)
            let mut rx = Rng::for_case(ctx.seed, 9200 + tag(p), idx as u64);
            if rx.chance(1, 6) {
                let numeric = rx.chance(2, 3);
                let sh = shape_extreme(&mut c, &mut rx, numeric);
                ctx.count(&format!("extreme_{}", sh.label));
                shaped = Some(sh);
            }
            (c, style)
        };
        // correspondence only: the case holds a number outside the properties' quantifiers
        let mut silent = shaped.map_or(false, |s| !s.oracle) || (k < n_corpus && !case_numbers_ordinary(&c));
        let style = if style == LenStyle::Metric && shaped.map_or(false, |s| !s.metric_ok) { LenStyle::Generic } else { style };
        if c.edge_oriented && c.reverse {
            // the application never runs an edge-oriented search in reverse, and the wrapper is wrong there
            // (Lean C01.edge_oriented_reverse_counterexample): outside the properties' quantifiers.  One such case
            // in three is kept for the correspondence alone (oracles silent) so that the reverse arms of
            // `run_edge_oriented` stay tied to the model; the others run forward.
            let mut r2 = Rng::for_case(ctx.seed, 9300 + tag(p), idx as u64);
            if k >= n_corpus && r2.chance(1, 3) {
                silent = true;
                ctx.count("edge_oriented_reverse_correspondence_only");
            } else {
                c.reverse = false;
            }
        }
        // the configurations the generator makes that the application must refuse: an unknown weight
        // name without ignore_unknown_weights, and weights that sum to zero
        let zero_weights = c.weights.iter().map(|(_, w)| *w).sum::<f64>() == 0.0;
        let expect_refusal = (matches!(c.svc, Some((_, _, _, false))) && c.svc_unknown_weight) || zero_weights;
        let b = match build(&c) {
            Ok(b) => {
                if expect_refusal {
                    ctx.emit(idx, "build".into(), "build accepted".into());
                    ctx.fail(idx, "build/unknown-weight-accepted", "a weight for a feature the state model does not have was accepted although ignore_unknown_weights is off".into());
                    continue;
                }
                b
            }
            Err(e) => {
                let kind = e.split(':').next().unwrap_or("").to_string();
                ctx.count(&format!("build_refused_{}", kind));
                if silent {
                    continue; // whether such a number should be refused is no part of these properties
                }
                if !(expect_refusal && kind == "cost") {
                    ctx.emit(idx, "build".into(), format!("build refused {}", kind));
                    ctx.fail(idx, "build/valid-configuration-refused", format!("a valid configuration was refused: {}", e));
                }
                continue;
            }
        };
        let ex = exec(&c, &b);
        if c.app.any() {
            // the same case with every model constructed in code: the application's builders, files and
            // services must give the same search (and the same maximum speed)
            ctx.count("built_through_application_builders");
            let mut c0 = c.clone();
            c0.app = AppBuild::default();
            match build(&c0) {
                Ok(b0) => {
                    let ex0 = exec(&c0, &b0);
                    let (l, l0) = (outcome_line(&ex.outcome), outcome_line(&ex0.outcome));
                    if l != l0 || ex.scheds != ex0.scheds {
                        ctx.fail(idx, "build/application-builders-differ-from-direct", format!("through the builders: {} constructed in code: {}", short(&l), short(&l0)));
                    }
                    if b.max_speed.to_bits() != b0.max_speed.to_bits() {
                        ctx.fail(idx, "speed_engine/max-speed-differs", format!("SpeedTraversalEngine::new found {} but get_max_speed on the same table {}", b.max_speed, b0.max_speed));
                    }
                }
                Err(e) => ctx.fail(idx, "build/application-builders-differ-from-direct", format!("the in-code construction was refused: {}", e)),
            }
        }
        if let (Trav::Speed { table, .. }, false) = (&c.trav, silent) {
            // premise of the A* time estimate: the engine's maximum is the largest table speed
            let m = table.iter().cloned().fold(f64::NEG_INFINITY, f64::max);
            if b.max_speed != m {
                ctx.fail(idx, "speed_engine/max-speed-not-maximum", format!("max_speed {} but the largest table speed is {}", b.max_speed, m));
            }
        }
        let mut sched: Vec<usize> = ex.scheds.first().cloned().unwrap_or_default();
        // the hook records the vertices that were expanded; a successful search with a destination
        // ends by popping the destination, which is not expanded
        if let (Outcome::Ok(_), Some(t), false) = (&ex.outcome, inner_target(&c), ex.scheds.is_empty()) {
            if t != inner_source_of(&c) {
                sched.push(t);
            }
        }
        let line = encode(&c, &b, &sched);
        let out = outcome_line(&ex.outcome);
        ctx.emit(idx, line, out.clone());
        let reopened = {
            let mut seen = HashSet::new();
            sched.iter().any(|v| !seen.insert(*v))
        };
        for d in describe(&c) {
            ctx.count(d);
        }
        if c.frontier.iter().any(|f| matches!(f, Fr::Vehicle { params, .. } if params.axles == 0)) {
            ctx.count("vehicle_zero_axles");
        }
        match &ex.outcome {
            Outcome::Ok(r) => {
                ctx.count("outcome_ok");
                let nontrivial = r.routes.iter().any(|rt| rt.len() >= 2) || r.trees.iter().any(|t| t.len() >= 3);
                if nontrivial {
                    ctx.nontrivial(&out);
                }
                if r.routes.iter().any(|rt| rt.len() >= 2) {
                    ctx.count("route_two_or_more_edges");
                }
                // re-opened vertices: a vertex popped twice
                let mut seen = HashSet::new();
                if sched.iter().any(|v| !seen.insert(*v)) {
                    ctx.count("vertex_reopened");
                }
            }
            Outcome::Err(k) => {
                ctx.count(&format!("outcome_err_{}", k.split(' ').next().unwrap_or("")));
                if k.starts_with("terminated") {
                    ctx.nontrivial(&format!("{} {}", idx, k));
                }
            }
        }
        // ties: equal f-scores are not observable here; count tie-heavy style instead
        if style == LenStyle::TieHeavy {
            ctx.count("style_tie_heavy");
        } else if style == LenStyle::Metric {
            ctx.count("style_metric");
        }
        // outside the quantifiers (a non-finite, negative or overflowing number in the case or in what
        // came back): the oracles are silent, the case counts for the correspondence
        let silent = silent || !outcome_finite(&ex.outcome);
        if silent {
            ctx.count("correspondence_only");
        }
        match (p, &ex.outcome) {
            _ if silent => {}
            (Prop::C01, Outcome::Ok(r)) => oracle_c01(ctx, idx, &c, r),
            (Prop::C02, Outcome::Ok(r)) => oracle_c02(ctx, idx, &c, &b, r, style),
            (Prop::C03, Outcome::Ok(r)) => oracle_c03(ctx, idx, &c, &b, r, reopened),
            (Prop::C04, Outcome::Ok(r)) => oracle_c04(ctx, idx, &c, r, reopened),
            (Prop::C05, o) => oracle_c05(ctx, idx, &c, &b, o),
            (Prop::C10, _) => oracle_c10(ctx, idx, &c, &b, &ex),
            _ => {}
        }
        if let Outcome::Err(k) = &ex.outcome {
            if k.starts_with("panic") && !k.contains("termination-frequency-zero") {
                ctx.fail(idx, "search/panic", k.clone());
            }
        }
    }
    items.clear();
    let _: HashMap<u8, u8> = HashMap::new();
    // the k-shortest-paths stream of this property (harness/src/c13.rs): single-via vertex- and
    // edge-oriented, Yen where it returns (child process); case lines start with `ksp`
    match p {
        Prop::C01 => crate::c13::run_prop_stream(ctx, crate::c13::Stream::C01),
        Prop::C03 => crate::c13::run_prop_stream(ctx, crate::c13::Stream::C03),
        Prop::C04 => crate::c13::run_prop_stream(ctx, crate::c13::Stream::C04),
        Prop::C10 => crate::c13::run_prop_stream(ctx, crate::c13::Stream::C10),
        _ => {}
    }
    // the application's builders, services and query parsers called directly, with well-formed and
    // malformed inputs (harness/src/appbuild.rs); case lines start with `bld`
    crate::appbuild::run_stream(ctx, p);
    match p {
        Prop::C01 => "random digraphs (rings, grids, two components, dense with parallel edges and self loops), tie-heavy / generic / metric lengths, Dijkstra and A* with weight factors 0..10, forward and reverse, vertex and edge orientation, with the full model stack, followed by a k-shortest-paths stream (single-via vertex- and edge-oriented, Yen where it returns: every single-via route and the first Yen route judged by the same walk oracle; lollipop and edge-oriented multi-route shapes first); non-trivial = successful search with a route of >= 2 edges or a tree of >= 3 entries (KSP: at least two routes), distinct by full output; half of the generated cases build their traversal / access / frontier models through the application's builders, files and services (compared with the in-code construction); then direct calls of a_star_algorithm::run_a_star_edge_oriented + backtrack::edge_oriented_route and of the k-shortest-path algorithms without destination (`bld` stream); one generated case in six (and one single-via case in eight of the k-shortest-paths stream) is pushed into a region the plain generator never reaches: a vertex whose coordinates the haversine function refuses, zero-length edges, zero table speeds (inside the quantifiers, oracles on); 0, -0, negative, 1e308, +-inf, NaN, subnormal lengths / speeds / weights / rates / delays / initial values / weight factors / vehicle limits and limits at the ends of u64 / usize (outside: correspondence only, oracles silent, as on every case whose result holds a non-finite number)",
        Prop::C02 => "state-independent non-negative costs (distance / speed models, raw / factor / combined rates, per-edge surcharges), no access model, edge-local restrictions, half of the cases metrically consistent; Bellman-Ford oracle; non-trivial as C01; then a `bld` stream: SpeedLookupBuilder / SpeedTraversalEngine::new on speed table files (positive, zero, negative, NaN, inf, junk rows, no rows, missing file, default units, malformed configuration), DistanceTraversalBuilder, the weight_factor query field; one generated case in six (and one single-via case in eight of the k-shortest-paths stream) is pushed into a region the plain generator never reaches: a vertex whose coordinates the haversine function refuses, zero-length edges, zero table speeds (inside the quantifiers, oracles on); 0, -0, negative, 1e308, +-inf, NaN, subnormal lengths / speeds / weights / rates / delays / initial values / weight factors / vehicle limits and limits at the ends of u64 / usize (outside: correspondence only, oracles silent, as on every case whose result holds a non-finite number)",
        Prop::C03 => "all unit configurations of distance / speed models and turn-delay access models; per-edge re-accumulation with the real unit functions, also along every alternative of a k-shortest-paths stream (turn delays, junction of the two halves included); non-trivial as C01; then a `bld` stream: speed table files and TurnDelayAccessModelBuilder on edge-headings files (swapped / wrong header, short records, cells that are no i16, empty departure) with delay-table configurations (missing classes, unknown names, ill-typed values, negative delays — refused, and what the real access model does to the clock is checked —, custom time feature); one generated case in six (and one single-via case in eight of the k-shortest-paths stream) is pushed into a region the plain generator never reaches: a vertex whose coordinates the haversine function refuses, zero-length edges, zero table speeds (inside the quantifiers, oracles on); 0, -0, negative, 1e308, +-inf, NaN, subnormal lengths / speeds / weights / rates / delays / initial values / weight factors / vehicle limits and limits at the ends of u64 / usize (outside: correspondence only, oracles silent, as on every case whose result holds a non-finite number)",
        Prop::C04 => "road-class, vehicle-restriction (mixed units, values straddling limits), turn-restriction and edge-cut models and their combinations, also on every alternative of a k-shortest-paths stream; non-trivial as C01; then a `bld` stream: VehicleParameters::from_query (every field missing / ill-typed / wrong unit family, axle counts up to 2^32), RoadClassBuilder with class files, parser mappings and road_classes fields (numbers, names, mixed, unknown, out of range), TurnRestrictionBuilder, VehicleRestrictionBuilder (bad names, units, values) and CombinedBuilder; one generated case in six (and one single-via case in eight of the k-shortest-paths stream) is pushed into a region the plain generator never reaches: a vertex whose coordinates the haversine function refuses, zero-length edges, zero table speeds (inside the quantifiers, oracles on); 0, -0, negative, 1e308, +-inf, NaN, subnormal lengths / speeds / weights / rates / delays / initial values / weight factors / vehicle limits and limits at the ends of u64 / usize (outside: correspondence only, oracles silent, as on every case whose result holds a non-finite number)",
        Prop::C05 => "disconnected and restricted graphs, with and without destination; BFS oracle over permitted edges; non-trivial as C01; one generated case in six (and one single-via case in eight of the k-shortest-paths stream) is pushed into a region the plain generator never reaches: a vertex whose coordinates the haversine function refuses, zero-length edges, zero table speeds (inside the quantifiers, oracles on); 0, -0, negative, 1e308, +-inf, NaN, subnormal lengths / speeds / weights / rates / delays / initial values / weight factors / vehicle limits and limits at the ends of u64 / usize (outside: correspondence only, oracles silent, as on every case whose result holds a non-finite number)",
        Prop::C10 => "iteration / solution-size / runtime limits (virtual clock) and combinations from zero to beyond need, followed by a k-shortest-paths stream (single-via and returning Yen runs: each underlying search within its limits, result identical to the unlimited query or the explicit terminated error); non-trivial = successful non-trivial search or explicit termination; then a `bld` stream: TerminationModelBuilder on nested sections with one planted defect (missing / ill-typed fields, malformed durations, unknown types), negative counts, frequency 0, durations beyond u64; one generated case in six (and one single-via case in eight of the k-shortest-paths stream) is pushed into a region the plain generator never reaches: a vertex whose coordinates the haversine function refuses, zero-length edges, zero table speeds (inside the quantifiers, oracles on); 0, -0, negative, 1e308, +-inf, NaN, subnormal lengths / speeds / weights / rates / delays / initial values / weight factors / vehicle limits and limits at the ends of u64 / usize (outside: correspondence only, oracles silent, as on every case whose result holds a non-finite number)",
    }
}

/// half of the generated cases build their models the way the application does (builders, files,
/// services); one case in forty has weights that sum to zero (refused); one turn-delay case in ten has a
/// heading outside [0, 360) (`Turn::from_angle` must answer with an error, not a delay)
fn shape_app(c: &mut SCase, rng: &mut Rng) {
    if rng.chance(1, 2) {
        c.app = AppBuild {
            trav: rng.chance(2, 3),
            access: rng.chance(2, 3),
            frontier: rng.chance(2, 3),
            omit_default_units: rng.chance(1, 2),
            gzip: rng.chance(1, 4),
        };
    }
    if rng.chance(1, 40) {
        for w in c.weights.iter_mut() {
            w.1 = 0.0;
        }
    }
    if let Acc::Turn { headings, .. } = &mut c.access {
        if rng.chance(1, 10) && !headings.is_empty() {
            let k = rng.below(headings.len());
            headings[k].0 = *rng.pick(&[360i16, 400, 539, 541, 720, -1, -90, -181, -400]);
            if rng.chance(1, 2) {
                headings[k].1 = Some(*rng.pick(&[360i16, 545, 700, -5, -200]));
            }
        }
    }
}

fn first_clock_of(t: &Term) -> Option<(u64, u64)> {
    match t {
        Term::Runtime { base_ns, per_ns, .. } => Some((*base_ns, *per_ns)),
        Term::Combined(ms) => ms.iter().filter_map(first_clock_of).next(),
        _ => None,
    }
}

/// bias the generated case towards what the property is about
fn shape_for(p: Prop, c: &mut SCase, rng: &mut Rng) {
    match p {
        Prop::C02 => {
            c.frontier.retain(|f| !matches!(f, Fr::TurnRestriction(_)));
            c.agg_mul = false;
            if matches!(c.astar, Some(Some(w)) if w > 1.0) && rng.chance(2, 3) {
                c.astar = Some(Some(1.0));
            }
            c.query_wf = None;
        }
        Prop::C04 => {
            // the direction stays as generated (one case in four is a reverse search): forbidden edges
            // are judged in both directions, restricted turns in search order (what the search submits)
            // and, for a reverse route, in travel order under the key of the recorded finding
            if !c.frontier.iter().any(|f| matches!(f, Fr::Vehicle { .. })) && rng.chance(1, 2) {
                // a vehicle-restriction model on most edges, limits straddling the vehicle's dimensions
                let n_e = c.edges.len();
                let params = VParams {
                    height: (0.5 + rng.small_decimal(5, 1), *rng.pick(&DU)),
                    width: (0.5 + rng.small_decimal(4, 1), *rng.pick(&DU)),
                    total_length: (1.0 + rng.small_decimal(30, 0), *rng.pick(&DU)),
                    trailer_length: (1.0 + rng.small_decimal(20, 0), *rng.pick(&DU)),
                    total_weight: (1.0 + rng.small_decimal(40, 0), *rng.pick(&WU)),
                    // `from_query` accepts 0 axles: weight per axle is then +inf (every per-axle limit refuses)
                    axles: if rng.chance(1, 8) { 0 } else { 1 + rng.below(5) as u8 },
                };
                let factors = [0.9, 0.96, 0.995, 1.005, 1.04, 1.1, 2.0, 3.0];
                let picked: Vec<usize> = (0..n_e).filter(|_| rng.chance(2, 3)).collect();
                let rows = picked
                    .into_iter()
                    .map(|e| {
                        let f = *rng.pick(&factors);
                        let r = if rng.chance(1, 2) {
                            let unit = *rng.pick(&WU);
                            let per_axle = rng.chance(1, 2);
                            let w = params.total_weight.0 * si_w(&params.total_weight.1) / si_w(&unit);
                            // limits stay finite for a vehicle without axles (as if it had one)
                            let w = if per_axle { w / params.axles.max(1) as f64 } else { w };
                            Restr::Weight { per_axle, limit: w * f, unit }
                        } else {
                            let which = 2 + rng.below(4) as u8;
                            let unit = *rng.pick(&DU);
                            let dim = match which {
                                2 => params.total_length,
                                3 => params.width,
                                4 => params.height,
                                _ => params.trailer_length,
                            };
                            Restr::Length { which, limit: dim.0 * si_d(&dim.1) / si_d(&unit) * f, unit }
                        };
                        (e, vec![r])
                    })
                    .collect();
                c.frontier.push(Fr::Vehicle { rows, params });
            }
            if c.frontier.is_empty() {
                let n_e = c.edges.len();
                let table: Vec<u8> = (0..n_e).map(|_| rng.below(3) as u8).collect();
                c.frontier.push(Fr::RoadClass { allowed: Some(vec![0, 1]), by_name: rng.chance(1, 2), table });
            }
        }
        Prop::C05 => {
            c.frontier.retain(|f| !matches!(f, Fr::TurnRestriction(_)));
        }
        Prop::C10 => {
            if matches!(&c.term, Term::Combined(ms) if ms.is_empty()) {
                let n_v = c.coords.len();
                c.term = match rng.below(3) {
                    0 => Term::Iters(rng.below(n_v + 3) as u64),
                    1 => Term::Size(rng.below(n_v + 2)),
                    _ => Term::Runtime { limit_ns: 1000 * (1 + rng.below(10)) as u64, freq: 1 + rng.below(4) as u64, base_ns: rng.below(3000) as u64, per_ns: (rng.below(4) * 700) as u64 },
                };
            }
            if rng.chance(1, 5) {
                // nested sections: an empty combined model never fires, an inner combined model fires or
                // stays silent as a whole
                let t = std::mem::replace(&mut c.term, Term::Combined(vec![]));
                let n_v = c.coords.len();
                c.term = match rng.below(3) {
                    0 => Term::Combined(vec![Term::Combined(vec![]), t]),
                    1 => Term::Combined(vec![Term::Combined(vec![Term::Iters(rng.below(2 * n_v + 3) as u64), Term::Size(n_v + 5)]), t]),
                    _ => Term::Combined(vec![t, Term::Combined(vec![Term::Combined(vec![Term::Size(rng.below(n_v + 2))])])]),
                };
                if let Some(cl) = first_clock_of(&c.term) {
                    normalise_clock(&mut c.term, cl);
                }
            }
            if rng.chance(1, 3) {
                // through the application's builder: runtime limits in whole seconds, clock in seconds
                fn to_secs(t: &mut Term, rng: &mut Rng) {
                    match t {
                        Term::Runtime { limit_ns, base_ns, per_ns, .. } => {
                            *limit_ns = (rng.below(5) as u64) * 1_000_000_000;
                            *base_ns = (rng.below(4) as u64) * 700_000_000;
                            *per_ns = (rng.below(4) as u64) * 600_000_000;
                        }
                        Term::Combined(ms) => ms.iter_mut().for_each(|m| to_secs(m, rng)),
                        _ => {}
                    }
                }
                to_secs(&mut c.term, rng);
                let clock = (((rng.below(4)) as u64) * 700_000_000, ((rng.below(4)) as u64) * 600_000_000);
                normalise_clock(&mut c.term, clock);
                c.term_via_builder = true;
            }
        }
        _ => {}
    }
}

/// what `shape_extreme` did to a case
#[derive(Clone, Copy, Debug)]
pub struct Shaped {
    pub label: &'static str,
    /// the case is still inside the properties' quantifiers (finite, non-negative numbers): the oracles
    /// stay on.  Off = correspondence only.
    pub oracle: bool,
    /// the edge lengths are still at least the great-circle distances (the `Metric` premise survives)
    pub metric_ok: bool,
}

/// Regions the plain generator never reaches (fidelity review of the search core): one component of
/// the case is pushed there.
///
/// * inside the quantifiers (oracles stay on): a vertex whose coordinates the haversine function
///   refuses (latitude / longitude swapped, 181 degrees, NaN, inf) — the estimate of that vertex is a
///   traversal error, Dijkstra included —; a zero-length edge; a zero table speed (`Time::create`
///   refuses both: the query that relaxes such an edge under the speed-table model fails with a
///   traversal error);
/// * outside (`numeric`; correspondence only): 0, -0, negative, 1e308, -1e308, +-inf, NaN, subnormal
///   and tiny lengths, speeds, weights, initial values, delays, weight factors, rates, surcharges,
///   vehicle limits and dimensions; usize / u64 limits at their ends.
pub fn shape_extreme(c: &mut SCase, rng: &mut Rng, numeric: bool) -> Shaped {
    let n_e = c.edges.len();
    let n_v = c.coords.len();
    const BAD_COORD: [(f32, f32); 7] =
        [(39.7, -105.0), (181.0, 0.0), (-105.0, 90.5), (f32::NAN, 39.7), (-105.0, f32::NAN), (f32::INFINITY, 0.0), (-105.0, f32::NEG_INFINITY)];
    let kind = if numeric { rng.below(19) } else { rng.below(4) };
    let inside = |label: &'static str, metric_ok: bool| Shaped { label, oracle: true, metric_ok };
    match kind {
        0 => {
            let k = rng.below(n_v);
            c.coords[k] = *rng.pick(&BAD_COORD);
            return inside("coord_out_of_range", true);
        }
        1 => {
            let k = rng.below(n_e);
            c.edges[k].2 = 0.0;
            return inside("edge_len_zero", false);
        }
        2 => {
            if let Trav::Speed { table, .. } = &mut c.trav {
                // never the whole table (a table whose maximum is zero is refused at build time)
                if table.len() >= 2 {
                    let k = rng.below(table.len());
                    table[k] = 0.0;
                    return inside("speed_zero", true);
                }
            }
            let k = rng.below(n_e);
            c.edges[k].2 = 0.0;
            return inside("edge_len_zero", false);
        }
        3 => {
            // several zero-length edges, and the target's own coordinates refused (every estimate fails)
            if rng.chance(1, 2) {
                for e in c.edges.iter_mut() {
                    if rng.chance(1, 3) {
                        e.2 = 0.0;
                    }
                }
                return inside("edge_len_zero_many", false);
            }
            if let Some(t) = inner_target(c) {
                if t < n_v {
                    c.coords[t] = *rng.pick(&BAD_COORD);
                    return inside("coord_target_out_of_range", true);
                }
            }
            let k = rng.below(n_v);
            c.coords[k] = *rng.pick(&BAD_COORD);
            return inside("coord_out_of_range", true);
        }
        _ => {}
    }
    // outside the quantifiers: every model constructed in code (a file or a JSON document cannot
    // carry every one of these numbers)
    c.app = AppBuild::default();
    c.svc = None;
    c.term_via_builder = false;
    const XF: [f64; 12] = [0.0, -0.0, -5.0, 1e308, -1e308, f64::INFINITY, f64::NEG_INFINITY, f64::NAN, 5e-324, 1e-320, 1e-10, 1e15];
    let x = *rng.pick(&XF);
    let label: &'static str = match kind {
        4 => {
            let k = rng.below(n_e);
            c.edges[k].2 = x;
            "x_edge_len"
        }
        5 => {
            if let Trav::Speed { table, .. } = &mut c.trav {
                let k = rng.below(table.len());
                table[k] = x;
                "x_speed"
            } else {
                let k = rng.below(n_e);
                c.edges[k].2 = x;
                "x_edge_len"
            }
        }
        6 => {
            if !c.weights.is_empty() {
                let k = rng.below(c.weights.len());
                c.weights[k].1 = x;
            }
            "x_weight"
        }
        7 => {
            let k = rng.below(c.feats.len());
            c.feats[k].2 = if matches!(c.feats[k].1, FeatK::X) && !x.is_finite() { 1e308 } else { x };
            "x_initial_value"
        }
        8 => {
            if let Acc::Turn { delays, .. } = &mut c.access {
                let k = rng.below(8);
                delays[k] = Some(x);
                "x_delay"
            } else {
                for e in c.edges.iter_mut() {
                    e.2 = x;
                }
                "x_all_len"
            }
        }
        9 => {
            c.astar = Some(Some(x));
            c.query_wf = None;
            "x_weight_factor"
        }
        10 => {
            if !c.vrates.is_empty() {
                let k = rng.below(c.vrates.len());
                c.vrates[k].1 = if rng.chance(1, 2) { VR::Factor(x) } else { VR::Offset(x) };
            }
            "x_vehicle_rate"
        }
        11 => {
            let name = c.feats[rng.below(c.feats.len())].0.clone();
            c.nrates.retain(|(n, _)| *n != name);
            let e = rng.below(n_e);
            c.nrates.push((name, if rng.chance(1, 2) { NR::Edge(vec![(e, x)]) } else { NR::EdgeEdge((0..n_e).map(|p| (p, e, x)).collect()) }));
            "x_network_rate"
        }
        12 => {
            // vehicle restriction with an extreme limit / dimension, no axles or 255 of them (no NaN:
            // the code compares limits in OrderedFloat's total order, where NaN is the greatest number;
            // the model states the NaN-free domain — restriction files cannot hold a NaN)
            let x = if x.is_nan() { f64::INFINITY } else { x };
            let params = VParams {
                height: (if rng.chance(1, 3) { x } else { 3.0 }, *rng.pick(&DU)),
                width: (2.0, *rng.pick(&DU)),
                total_length: (10.0, *rng.pick(&DU)),
                trailer_length: (5.0, *rng.pick(&DU)),
                total_weight: (if rng.chance(1, 3) { *rng.pick(&[0.0, -3.0, 1e308, 5e-324]) } else { 10.0 }, *rng.pick(&WU)),
                axles: if rng.chance(1, 2) { 0 } else { 255 },
            };
            let mut rows = vec![];
            for e in 0..n_e {
                if rng.chance(1, 2) {
                    continue;
                }
                let r = if rng.chance(1, 2) {
                    Restr::Weight { per_axle: rng.chance(1, 2), limit: x, unit: *rng.pick(&WU) }
                } else {
                    Restr::Length { which: 2 + rng.below(4) as u8, limit: x, unit: *rng.pick(&DU) }
                };
                rows.push((e, vec![r]));
            }
            c.frontier.retain(|f| !matches!(f, Fr::Vehicle { .. }));
            c.frontier.push(Fr::Vehicle { rows, params });
            "x_vehicle_restriction"
        }
        13 => {
            c.term = rng.pick(&[Term::Iters(u64::MAX), Term::Size(usize::MAX), Term::Iters(0), Term::Size(0)]).clone();
            "x_limit"
        }
        14 => {
            for e in c.edges.iter_mut() {
                e.2 = x;
            }
            "x_all_len"
        }
        15 => {
            c.agg_mul = true;
            let k = rng.below(n_e);
            c.edges[k].2 = x;
            "x_mul_len"
        }
        16 => {
            for w in c.weights.iter_mut() {
                w.1 = x;
            }
            "x_all_weights"
        }
        17 => {
            if let Trav::Speed { table, .. } = &mut c.trav {
                for t in table.iter_mut() {
                    *t = x;
                }
                "x_all_speed"
            } else {
                let k = rng.below(n_e);
                c.edges[k].2 = x;
                "x_edge_len"
            }
        }
        _ => {
            for p in c.coords.iter_mut() {
                *p = (0.0, 0.0);
            }
            "x_same_coords"
        }
    };
    Shaped { label, oracle: false, metric_ok: false }
}
